"""Run the repository's pytest suite (all, or the given paths under /repo) and compare with the pinned
baseline: every test in BASELINE.stable_pass (restricted to the selected modules) must pass.
usage: python tools/suite_check.py [path ...]"""
import json, os, subprocess, sys, tempfile, xml.etree.ElementTree as ET
base = json.load(open("/root/.vp/BASELINE.json"))
stable = set(base["stable_pass"])
paths = sys.argv[1:]
out = tempfile.mktemp(suffix=".xml", dir="/var/tmp")
cmd = ["/venv/bin/python", "-m", "pytest", "-q", "-p", "no:cacheprovider", "--timeout=900",
       "--continue-on-collection-errors", "--junitxml=" + out] + paths
env = dict(os.environ); env.pop("PYCRYPTODOME_VERIF", None)
r = subprocess.run(cmd, cwd="/repo", env=env, stdout=subprocess.PIPE, stderr=subprocess.STDOUT)
passed = set()
for tc in ET.parse(out).getroot().iter("testcase"):
    if not any(ch.tag in ("failure", "error", "skipped") for ch in tc):
        passed.add("%s::%s" % (tc.get("classname"), tc.get("name")))
os.unlink(out)
if paths:
    mods = {p.replace("/", ".").rsplit(".py", 1)[0] for p in paths}
    want = {t for t in stable if any(t.startswith(m + ".") or t.startswith(m + "::") for m in mods)}
else:
    want = stable
missing = sorted(want - passed)
print("baseline tests selected: %d, passing now: %d, missing: %d" % (len(want), len(want & passed), len(missing)))
for m in missing[:20]:
    print("  NOT PASSING:", m)
sys.exit(1 if missing else 0)
