"""print a python file without docstrings/comments/blank lines (reading aid)"""
import ast, sys
src = open(sys.argv[1]).read()
tree = ast.parse(src)
drop = set()
for node in ast.walk(tree):
    if isinstance(node, (ast.FunctionDef, ast.ClassDef, ast.Module, ast.AsyncFunctionDef)):
        b = node.body
        if b and isinstance(b[0], ast.Expr) and isinstance(getattr(b[0], 'value', None), ast.Constant) and isinstance(b[0].value.value, str):
            for l in range(b[0].lineno, b[0].end_lineno + 1):
                drop.add(l)
lo = int(sys.argv[2]) if len(sys.argv) > 2 else 1
hi = int(sys.argv[3]) if len(sys.argv) > 3 else 10**9
for i, line in enumerate(src.split('\n'), 1):
    if i in drop or i < lo or i > hi: continue
    s = line.strip()
    if not s or s.startswith('#'): continue
    print('%4d %s' % (i, line))
