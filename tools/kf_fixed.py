"""Maintainer tool: mark known findings as fixed.  usage: kf_fixed.py <PROP> <commit> <key-substring> [...]"""
import json, sys, os, fnmatch
root = os.path.dirname(os.path.dirname(os.path.abspath(__file__)))
path = os.path.join(root, "known_findings.json")
db = json.load(open(path))
prop, commit, subs = sys.argv[1], sys.argv[2], sys.argv[3:]
for f in db["findings"]:
    if f["property"] == prop and f["status"] == "known" and any(s in f["key"] for s in subs):
        f["status"] = "fixed"
        f["commit"] = commit
        print("fixed:", f["key"])
json.dump(db, open(path, "w"), indent=1)
