import json, sys, subprocess, os
pid, n = sys.argv[1], sys.argv[2] if len(sys.argv) > 2 else "2"
wt = "/tmp/" + (sys.argv[3] if len(sys.argv) > 3 else "wt") + "-" + pid.lower()
for l in open("/verif/properties.jsonl"):
    p = json.loads(l)
    if p["id"] == pid:
        break
if not os.path.isdir(wt):
    subprocess.run(["git", "-C", "/repo", "worktree", "add", "--detach", wt, "HEAD"], check=True, stdout=subprocess.DEVNULL, stderr=subprocess.DEVNULL)
os.makedirs(wt + "-scratch", exist_ok=True)
t = open("/verif/tools/mutant_prompt.txt").read()
if len(sys.argv) > 3 and sys.argv[3] == "w3":
    t = t.replace("Prefer changes in DIFFERENT parts", "This is a late round: simple off-by-one changes of a single length or boundary test have been tried already. "
                  "Look for defects of a DIFFERENT nature: state carried across calls or between objects (caches, flags, buffers, counters not reset or "
                  "shared), behaviour that depends on the TYPE or layout of an argument (bytes vs bytearray vs memoryview, alignment, int vs Integer, str vs "
                  "bytes, another curve or key type than expected), two conditions that must hold at once, interaction between two modules or two code "
                  "sites that each look fine alone, rarely used parameters, algorithms or entry points, error paths that leave an object half-updated, and "
                  "(where the property involves native code) changes in src/*.c. Never use pkill/killall or kill processes you did not start yourself. "
                  "Use at most 4 CPU cores at a time. Prefer changes in DIFFERENT parts")
elif len(sys.argv) > 3 and sys.argv[3] == "w5":
    t = t.replace("Prefer changes in DIFFERENT parts", "This is a very late round: off-by-one changes of a single length or boundary test, flags or caches not reset "
                  "between calls, dependence on the carrier type of an argument (bytes/bytearray/memoryview), buffers kept by reference, and operands of "
                  "another type or curve have all been tried already. Look for defects of a DIFFERENT nature: (a) a defect that only shows in a NON-INITIAL "
                  "state reached by a specific sequence of three or more calls, in particular after a call that raised, after copy(), or after the object "
                  "was used in the opposite direction; (b) a defect in the COMBINATION of two optional features or parameters that are each handled "
                  "correctly alone (two keyword arguments, a rarely used algorithm variant together with a rarely used format or mode, an unusual hash or "
                  "curve inside a generic scheme); (c) a defect in native code (src/*.c) or in limb/word arithmetic that depends on particular DATA VALUES "
                  "(a carry out of a full word, an all-ones or zero word, an operand equal to the modulus minus a small value, a counter byte rolling over) "
                  "rather than on a length; (d) an input that is REJECTED correctly but with the wrong consequences (wrong exception type, object left "
                  "half-updated, later call affected), or one specific malformed shape that is accepted; (e) behaviour at large scale (counters, lengths or "
                  "indices beyond 2^8, 2^16 or 2^32; many objects alive at once; many calls on one object); (f) a less used public entry point, helper or "
                  "alias that duplicates the logic of the main one and can drift from it. Never use pkill/killall or kill processes you did not start "
                  "yourself. Use at most 3 CPU cores at a time. Prefer changes in DIFFERENT parts")
elif len(sys.argv) > 3:
    t = t.replace("Prefer changes in DIFFERENT parts", "At least one of the changes must break one of the LESS OBVIOUS obligations of the property "
                  "(the later clauses of the statement, the unusual entry points, rarely used parameters or algorithms), not its headline case. "
                  "Never use pkill/killall or kill processes you did not start yourself. Prefer changes in DIFFERENT parts")
print(t.replace("{WT}", wt).replace("{TITLE}", p["title"]).replace("{STATEMENT}", p["statement"])
       .replace("{QUANTIFIER}", p["quantifier"]["text"]).replace("{N}", n))
