import json, sys, subprocess, os
pid, n = sys.argv[1], sys.argv[2] if len(sys.argv) > 2 else "2"
wt = "/tmp/wt-" + pid.lower()
for l in open("/verif/properties.jsonl"):
    p = json.loads(l)
    if p["id"] == pid:
        break
if not os.path.isdir(wt):
    subprocess.run(["git", "-C", "/repo", "worktree", "add", "--detach", wt, "HEAD"], check=True, stdout=subprocess.DEVNULL, stderr=subprocess.DEVNULL)
os.makedirs(wt + "-scratch", exist_ok=True)
t = open("/verif/tools/mutant_prompt.txt").read()
print(t.replace("{WT}", wt).replace("{TITLE}", p["title"]).replace("{STATEMENT}", p["statement"])
       .replace("{QUANTIFIER}", p["quantifier"]["text"]).replace("{N}", n))
