"""Confirm a seeded property-breaking change and run the check against it.

usage: python tools/seeded_verify.py <seed-id> <PROP> <patch.diff> <demo.py> "<what it needs to manifest>" [--tier quick|thorough] [--keep]

 1. fresh worktree of /repo HEAD under /var/tmp, build, demo must exit 0 (property holds);
 2. apply the patch, rebuild, demo must exit 1;
 3. the repository's own suite in the patched worktree: every BASELINE.stable_pass test must pass;
 4. ./check <PROP> <tier> with VERIF_REPO=<patched worktree> (same as applying the patch to /repo, without
    disturbing anything else that reads /repo): exit status and VIOLATION keys are recorded;
 5. the worktree is removed.  If 1-3 hold, the seed is stored as /verif/seeded/<seed-id>/{patch.diff,demo.py,meta.json}.
"""
import json
import os
import shutil
import subprocess
import sys
import tempfile
import time
import xml.etree.ElementTree as ET

VERIF = os.path.dirname(os.path.dirname(os.path.abspath(__file__)))
PY = "/venv/bin/python"


def sh(cmd, cwd=None, env=None, timeout=3000):
    r = subprocess.run(cmd, cwd=cwd, env=env, stdout=subprocess.PIPE, stderr=subprocess.STDOUT,
                       stdin=subprocess.DEVNULL, timeout=timeout)
    return r.returncode, r.stdout.decode(errors="replace")


def main():
    a = sys.argv[1:]
    tier = "quick"
    keep = "--keep" in a
    if "--tier" in a:
        tier = a[a.index("--tier") + 1]
    sid, prop, patch, demo, needs = a[0], a[1], os.path.abspath(a[2]), os.path.abspath(a[3]), a[4]
    wt = "/var/tmp/sv-" + sid
    subprocess.run(["git", "-C", "/repo", "worktree", "remove", "--force", wt], stdout=subprocess.DEVNULL, stderr=subprocess.DEVNULL)
    shutil.rmtree(wt, ignore_errors=True)
    rc, out = sh(["git", "-C", "/repo", "worktree", "add", "--detach", wt, "HEAD"])
    assert rc == 0, out
    env = dict(os.environ)
    env["PYTHONPATH"] = wt + "/lib"
    env.pop("PYCRYPTODOME_VERIF", None)
    meta = {"seed": sid, "property": prop, "needs": needs, "base_commit": sh(["git", "-C", "/repo", "rev-parse", "HEAD"])[1].strip(),
            "ran": [], "date": time.strftime("%Y-%m-%d %H:%M")}
    try:
        def build():
            rc, out = sh([PY, "setup.py", "build_ext", "--inplace", "-j16"], cwd=wt, env=env)
            assert rc == 0, out[-2000:]
        build()
        scratch = tempfile.mkdtemp(prefix="svdemo", dir="/var/tmp")
        rc0, out0 = sh([PY, demo], cwd=scratch, env=env, timeout=900)
        meta["demo_unpatched_rc"] = rc0
        meta["ran"].append("demo on unpatched worktree -> exit %d" % rc0)
        rc, out = sh(["git", "-C", wt, "apply", patch])
        assert rc == 0, "patch does not apply: " + out
        touched = sh(["git", "-C", wt, "diff", "--stat"])[1]
        meta["diffstat"] = touched.strip().split("\n")
        shutil.rmtree(os.path.join(wt, "build"), ignore_errors=True)   # setup.py does not track #included templates
        build()
        rc1, out1 = sh([PY, demo], cwd=scratch, env=env, timeout=900)
        meta["demo_patched_rc"] = rc1
        meta["demo_patched_output"] = out1[-600:]
        meta["ran"].append("demo on patched worktree -> exit %d" % rc1)
        shutil.rmtree(scratch, ignore_errors=True)
        # suite
        xml = tempfile.mktemp(suffix=".xml", dir="/var/tmp")
        t0 = time.time()
        rc, out = sh([PY, "-m", "pytest", "-q", "-p", "no:cacheprovider", "--timeout=900", "--continue-on-collection-errors",
                      "--junitxml=" + xml], cwd=wt, env=env, timeout=3000)
        passed = set()
        for tc in ET.parse(xml).getroot().iter("testcase"):
            if not any(ch.tag in ("failure", "error", "skipped") for ch in tc):
                passed.add("%s::%s" % (tc.get("classname"), tc.get("name")))
        os.unlink(xml)
        stable = set(json.load(open("/root/.vp/BASELINE.json"))["stable_pass"])
        missing = sorted(stable - passed)
        meta["suite_baseline_tests"] = len(stable)
        meta["suite_not_passing"] = missing[:10]
        meta["ran"].append("pytest suite in patched worktree (%.0f s): %d of %d baseline tests pass"
                           % (time.time() - t0, len(stable & passed), len(stable)))
        # the check
        cenv = dict(os.environ)
        cenv["VERIF_REPO"] = wt
        t0 = time.time()
        rc, out = sh([os.path.join(VERIF, "check"), prop, tier], cwd=VERIF, env=cenv, timeout=7200)
        keys = [l.strip().split(" :: ")[0] for l in out.split("\n") if l.startswith("  " + prop + "/")]
        meta["check_cmd"] = "VERIF_REPO=<patched tree> ./check %s %s" % (prop, tier)
        meta["check_rc"] = rc
        meta["check_wall_s"] = round(time.time() - t0, 1)
        meta["check_violation_keys"] = keys[:12]
        meta["check_first_violation"] = next((l.strip()[:400] for l in out.split("\n") if l.startswith("  " + prop + "/")), None)
        meta["detected"] = rc == 1 and bool(keys)
        meta["ran"].append("./check %s %s against the patched tree -> exit %d, %d violation keys" % (prop, tier, rc, len(keys)))
        if rc == 3:
            meta["check_output_tail"] = out[-1500:]
    finally:
        if not keep:
            subprocess.run(["git", "-C", "/repo", "worktree", "remove", "--force", wt], stdout=subprocess.DEVNULL, stderr=subprocess.DEVNULL)
            shutil.rmtree(wt, ignore_errors=True)
    valid = meta.get("demo_unpatched_rc") == 0 and meta.get("demo_patched_rc") not in (0, None) and not meta.get("suite_not_passing")
    meta["valid_seed"] = valid
    print(json.dumps(meta, indent=1))
    if valid:
        d = os.path.join(VERIF, "seeded", sid)
        os.makedirs(d, exist_ok=True)
        shutil.copy(patch, os.path.join(d, "patch.diff"))
        shutil.copy(demo, os.path.join(d, "demo.py"))
        with open(os.path.join(d, "meta.json"), "w") as fh:
            json.dump(meta, fh, indent=1)
        print("stored in", d)
    else:
        print("NOT a valid seed (demo/suite conditions not met)")


if __name__ == "__main__":
    main()
