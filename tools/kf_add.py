"""Maintainer tool (never run by a check): add the violation keys printed by a check run to
known_findings.json after a human decided they are genuine defects of the pinned tree.
usage: python tools/kf_add.py <PROP> <check-output-file> [key-substring ...]"""
import json, re, sys, os
root = os.path.dirname(os.path.dirname(os.path.abspath(__file__)))
path = os.path.join(root, "known_findings.json")
db = json.load(open(path)) if os.path.isfile(path) else {"findings": []}
prop, out = sys.argv[1], sys.argv[2]
subs = sys.argv[3:]
have = {(f["property"], f["key"]) for f in db["findings"]}
for line in open(out):
    m = re.match(r"^  (%s/\S+) :: (.*?) \(\d+ failing cases\)$" % prop, line.rstrip("\n"))
    if not m:
        continue
    key, what = m.group(1), m.group(2)
    if subs and not any(s in key for s in subs):
        continue
    if (prop, key) in have:
        continue
    db["findings"].append({"property": prop, "key": key, "status": "known", "what": what[:300]})
    print("added", key)
db["findings"].sort(key=lambda f: (f["property"], f["key"]))
json.dump(db, open(path, "w"), indent=1)
