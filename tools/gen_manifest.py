"""Regenerates /verif/MANIFEST.json from the table below (run by hand after adding a check)."""
import json, os
root = os.path.dirname(os.path.dirname(os.path.abspath(__file__)))
ALL = ["C%02d" % i for i in range(1, 21)]
# id -> (level, technique, level text, note, design_ref)
CHECKS = {
 "C13": ("exploration",
         "bounded exhaustive enumeration of decoder inputs and encoder values against independent strict codecs",
         "Every byte string of the stated finite sets (all strings of length <=2, all strings of length 3-5 over a 16-symbol "
         "structural alphabet, the substitution/deletion/insertion/truncation closure of valid encodings and key files) is "
         "offered to every decoder and every value of the stated ranges is round-tripped; every content length 0..300 (1100) and "
         "65535/65536 is offered with the canonical length octets, every non-minimal form of 1..4 length octets and the indefinite "
         "octet, top-level and nested; one DER object of each of 12 classes is driven through every history of 2..3 decode() calls "
         "(accepted and refused encodings), each successful decode equal to a fresh object's, and DerSequence through every sequence of "
         "2 (3) decodes with keyword constraints (nr_elements, only_ints_expected, strict); INTEGER and OBJECT IDENTIFIER contents "
         "of 1..4 octets over a 7-symbol alphabet (strict minimality of both signs, truncated arcs); certificate shapes with 0..11 "
         "TBSCertificate members; every PEM DEK-Info algorithm; the oracle is an independent strict "
         "TLV/padding/PEM codec. Exhaustive within those bounds, which is where DER/padding/PEM faults live (length forms, "
         "boundaries), and far beyond the handful of malformed inputs in the test-suite.",
         "Trusted: the 60-line reference TLV classifier and padding predicates in mc/props/c13.py; values outside the enumerated "
         "sets are not covered; tag octets treated as single bytes; step budget measured in Python call events.",
         "DESIGN.md 3/C13"),
 "C10": ("model_checking",
         "stateless explicit-state exploration of all call histories up to a depth bound on the real objects, in lock-step with reference automata",
         "Every history over a 12-14 operation alphabet up to depth 5 (quick) / 6 (thorough) is executed on a fresh real object for each "
         "AEAD variant (GCM, EAX, OCB, SIV with/without nonce, ChaCha20/XChaCha20-Poly1305, CCM in 16-24 declared/undeclared length "
         "combinations), classic modes, and every hash/XOF/MAC class, plus longer histories with a bounded number of forbidden calls; "
         "after every call the real observation is compared with the reference automaton transcribed from the documentation and with "
         "the library's one-shot computation. This is the natural level for a property quantified over all call sequences: the tree is "
         "complete within the bound, the unit tests exercise a few dozen paths.",
         "Trusted: the reference automata in mc/props/c10.py (DESIGN.md Appendix A). Argument values are fixed representatives; "
         "histories longer than the bound are covered only with <=2 forbidden calls up to depth 8.",
         "DESIGN.md 3/C10 and Appendix A"),
 "C15": ("model_checking",
         "stateless exploration of all receiver event histories up to a depth bound on real HPKE contexts, in lock-step with a pure-Python RFC 9180 reference",
         "For all 60 KEM x AEAD x mode suites a real sender seals a message sequence; the RFC 9180 reference receiver (derived from skR and enc "
         "only) must reproduce key, nonces and every ciphertext. Then every history of receiver events (in-order, replayed, skipped, bit-flipped, "
         "wrong AAD, truncated, foreign, too short) up to depth 3/4 is offered to fresh real receiver contexts and compared event by event with the "
         "reference ContextR whose sequence number advances only on success; set-up refusals and sequence exhaustion (sequence positioned at "
         "2^96-3..2^96-1) are enumerated too. Complete within the bound; the unit tests only run in-order round trips.",
         "Trusted: mc/ref/hpke.py, mc/ref/ec.py, mc/ref/modes.py (self-tested against RFC 9180/7748/8439 vectors at setup). Values are fixed "
         "representatives; exhaustion uses the _sequence attribute as a white-box seam.",
         "DESIGN.md 3/C15"),
 "C11": ("model_checking",
         "explicit enumeration of counter layouts x initial values x call histories across the wrap limit, and of all seek/encrypt histories over boundary positions, against reference counter/keystream sequences",
         "CTR: for counter width 1 every initial value (256) x 5 layouts x both endiannesses x 113 call patterns (the call crossing the limit starts k bytes before it and asks for b bytes, k and b "
         "on both sides of the block and of the native 8-block batch), width 2 run to the full 2^16 blocks, "
         "width 3 to 2^24 blocks (thorough), widths 4..16 through the zero crossing and every carry position; every returned byte is checked "
         "against the arithmetic counter sequence (counter blocks recovered by ECB decryption, edges re-checked with the pure-Python cipher) "
         "and OverflowError must occur exactly where a block would repeat. ChaCha20/XChaCha20: every history over {seek(pos), encrypt(n)} with "
         "23 boundary positions/lengths up to depth 4/5 on fresh objects against the reference stream. CCM length limits per nonce length and "
         "HPKE per-message nonces. Complete within those bounds; the suite has single examples.",
         "Trusted: mc/ref/chacha.py, aes.py, des.py. Limits needing >2^30 bytes of traffic (CTR width>=4, GCM, Salsa20) are out of reach "
         "and stated in the evidence.",
         "DESIGN.md 3/C11"),
 "C19": ("model_checking",
         "systematic schedule exploration with iterative preemption bounding: Python-level baton scheduler over real threads for the curve registry, and a TSan-callback shim over the instrumented C code for native calls; plus exhaustive sequential interleavings and copy histories",
         "(1) all 20 interleavings x 7 third-object positions of two 3-step programs on 91 object pairs sharing a native module, and all copy() "
         "histories to depth 4/5 on every class with copy(); (2) a monitor that caller-owned buffers (75 entry points), hash/XOF objects handed to signers and point "
         "operands are unchanged, that objects derived from a key (public_key()) share no state with it, and that no object follows a caller buffer "
         "overwritten after the call (38 entry points); object pairs also with long inputs (bulk/tree code paths); (3) concurrent first use of each of the nine curves by 2 and 3 real threads under a baton scheduler (scheduling "
         "points: every line of the registry look-up and its lock), all schedules with <=2 preemptions; (3b) the same scheduler over the library's "
         "Python glue: 19 workloads (first use of ONE shared EdDSA key by both threads, three integer back-ends, RSA/DSA/ECDSA/EdDSA signing, five AEAD modes, hashes, MACs, SP 800-185, KDFs, OAEP) "
         "where two threads use objects of their own and EVERY line of the named library files is a scheduling point, all schedules with one "
         "preemption (two where an execution has at most 100 (320) points); (4) the C sources compiled with "
         "-fsanitize=thread run against a 300-line callback shim instead of the TSan runtime: for 59 native workloads (incl. one point object shared read-only by both threads as left and right operand) the shared read/write sets of "
         "two threads are measured (25 M classified accesses), workloads without write conflicts collapse to one Mazurkiewicz representative, the "
         "others are executed under every schedule with <=2 preemptions at the conflicting accesses. This reaches interleavings no test can pin.",
         "Trusted: the schedulers (mc/explore/pysched.py, mc/native/vsched.c). Sequential consistency assumed; races inside libc/libgmp invisible; "
         "caller buffers and thread-allocated blocks are thread-private; workloads with >300 scheduling points have their preemption positions "
         "thinned (reported as caps, exhaustive=false).",
         "DESIGN.md 3/C19"),
 "C01": ("exploration",
         "bounded exhaustive enumeration of AEAD configurations x a received-tuple mutation alphabet, verdicts computed from the received values by pure-Python reference modes",
         "For every AEAD mode (GCM, CCM, EAX, SIV, OCB, ChaCha20/XChaCha20-Poly1305, KW, KWP) the grid of key sizes x nonce lengths x tag lengths x AAD/message "
         "lengths is enumerated completely (2.4 k configurations quick, 29 k thorough); each sealed message is offered back as the authentic tuple and as "
         "every single-bit flip of tag/ciphertext/AAD/nonce, every tag truncation and extension, other-length tags, block swaps, boundary shifts, 20 "
         "cross-message splices, KW/KWP forgeries built with the reference W function, through decrypt_and_verify and the update/decrypt/verify/hexverify "
         "paths and decryption in place (decrypt(buf, output=buf); verify), plus associated data of 65279..65536 bytes (the boundaries of the modes' length "
         "encodings) with a reduced alphabet. Accept iff the reference tag for the RECEIVED values equals the presented tag; reject must be ValueError. "
         "Messages of 127..4097 bytes (past the native 8-block batch, 16 blocks, a page) go through every path incl. in place (also SIV) with a "
         "reduced alphabet. 2.3 M (quick) / 30 M (thorough) tuples.",
         "Trusted: mc/ref/modes.py, aes.py, des.py, chacha.py (self-tested on published vectors). Values from a 4-element alphabet; BLAKE2s comparison-MAC "
         "collisions out of scope.", "DESIGN.md 3/C01"),
 "C02": ("exploration",
         "bounded exhaustive enumeration of cipher x mode x parameter shapes against pure-Python reference implementations, with a reference peer decrypting",
         "Every legal key length of every cipher, every mode the dispatch table allows, all IV/nonce lengths, every CFB segment size, every CTR/Counter layout, "
         "every message length 0..8 blocks+1 (plus multi-kilobyte sizes), all 256 OCB last-nonce bytes, CCM header boundaries, crafted GCM/EAX counter-wrap "
         "nonces, KW/KWP payload sizes, library-chosen IV/nonce via an entropy tape with a reference peer that decrypts from cipher.iv/nonce alone, 3DES parity "
         "and degenerate keys over all 256 byte values, ChaCha20.seek at positions around the counter word boundaries incl. every ordered pair of two seeks on "
         "one object (thorough: 28 positions, 216 pairs, three-seek histories; every length to 16 blocks and 2^k+-1 to 2^20; all Counter layouts). "
         "1.26 M (quick) / 25 M (thorough) cases, exhaustive within the grids.",
         "Trusted: mc/ref/{aes,des,blowfish,rc4,chacha,modes}.py and the RC2 model in mc/props/_c02_rc2.py; CAST-128 only against RFC 2144 vectors + the "
         "library's own block function under the reference modes.", "DESIGN.md 3/C02"),
 "C03": ("exploration",
         "bounded exhaustive enumeration of message/key/customisation/output lengths for every hash, XOF and MAC against hashlib and pure-Python references; MAC verify over a candidate-tag alphabet",
         "Every message length 0..3 blocks+1 (sponges 0..2 rates+1) for every hash, all SHAKE/cSHAKE/TurboSHAKE output and customisation boundary lengths, "
         "KangarooTwelve around every 8192-byte chunk boundary incl. long customisations and all feeding patterns, HMAC over 17 hashes with every key length "
         "0..block+2, CMAC over six ciphers, KMAC full product of key/mac/customisation lengths, Poly1305 limb patterns, the complete BLAKE2 grid "
         "(digest size x key length x message length: 1.2 M digests), and verify()/hexverify() on 27 MACs over authentic/truncated/extended/bit-flipped tags.",
         "Trusted: CPython hashlib/hmac (OpenSSL/HACL*), mc/ref/{keccak,md,modes,chacha}.py. 2^64-bit length carries not reachable.", "DESIGN.md 3/C03"),
 "C07": ("exploration",
         "bounded exhaustive enumeration of encoded-message patterns through the C decoders and end-to-end through decrypt(), against RFC 8017 decoding predicates",
         "The C decoders are driven on every EM of length 11..15 (quick) / 11..18 (thorough) with every header and every subset of zero positions x expected "
         "lengths x sentinel lengths (6 M / 84 M calls), OAEP data blocks exhaustively over small alphabets with every Y / lHash / separator defect; the same "
         "patterns are then raw-RSA-encrypted so that PKCS1_v1_5.decrypt / PKCS1_OAEP.decrypt see exactly that EM (tiny keys from 88 to 512 bits plus 1024/1025-bit "
         "fixtures), every message length 0..max round-tripped with entropy tapes, wrong-length and >= n ciphertexts. Oracle: plaintext / ValueError / exactly the "
         "caller's sentinel as RFC 8017 7.1.2 and 7.2.2 define. Encoded messages of 255..1034 bytes go through the C decoders with the separator at every "
         "position; ONE cipher object per (key, configuration) is driven through every history of up to 3 (4) encrypt/decrypt calls, each outcome equal to a "
         "fresh object's.",
         "Trusted: mc/ref/rsa.py, mc/ref/nt.py. Blinding randomness is pinned through the Crypto.Math._IntegerBase.Random seam.", "DESIGN.md 3/C07"),
 "C09": ("exploration",
         "bounded exhaustive enumeration of segmentations x buffer types x output styles per stateful class, differential against the one-shot call and a reference",
         "128 class configurations (66 block-cipher/mode, 6 stream, 13 AEAD, 23 hash, 12 MAC, 8 XOF) plus SIV and TupleHash as vectors: all compositions "
         "into <=3 parts with cuts in the boundary set of the class's cache size, all 2^(L-1) compositions for L<=10/12, joint AAD x message splits, crossed with "
         "bytes/bytearray/read-only and writable memoryview/odd-offset slices and returned/output=/aliased output; after every call caller buffers must be "
         "bit-identical; every cut of a KangarooTwelve message of 3 chunks + 1000 bytes. 1.5 M (quick) / 40 M (thorough; 250 class "
         "configurations, 4-part segmentations) cases; every case's trace is checked to really differ from the oracle's.",
         "Trusted: the one-shot computation (itself compared with mc/ref/* once per class). Overlapping non-identical buffers are not documented and not exercised.",
         "DESIGN.md 3/C09"),
 "C12": ("exploration",
         "bounded exhaustive enumeration of KDF parameter grids against hashlib and pure-Python references",
         "PBKDF2 over 22 PRF choices (C fast path, generic path, custom PRFs) with every dkLen 1..3*hLen+1 and 6x6 password/salt boundary lengths, PBKDF1, HKDF "
         "(all lengths, 255*hLen boundaries, num_keys), scrypt (N x r x p x key_len grid, 2 k refusal probes), bcrypt (every password length 0..72 in thorough, "
         "bcrypt_check on all password x hash pairs, mutated hashes), SP 800-108 counter mode, S2V over all vectors of 0..4 components and over every history of "
         "up to 5 (6) update/derive calls on one object; scrypt r = 1..16; every KDF with its arguments in bytes, bytearray and memoryview over three "
         "calls with the same buffers. Two independent oracles where hashlib allows.", "Trusted: hashlib, mc/ref/{kdf,blowfish,modes,aes}.py.", "DESIGN.md 3/C12"),
 "C16": ("exploration",
         "bounded exhaustive differential enumeration across interchangeable implementations (AES-NI on/off, CLMUL on/off, three integer back-ends, three whole-library subprocess configurations)",
         "AES use_aesni True/False over 16 mode variants x key sizes x every length 0..273 x buffer offsets 0..3; GCM use_clmul True/False over nonce x AAD x message "
         "0..130 full cross product; IntegerGMP/IntegerCustom/IntegerNative on all ordered pairs of a 55/95-value alphabet x 58 operations (value, type, exception "
         "class); byte-identical transcripts of ~1000-1700 library operations from three subprocesses (GMP, custom, native). No reference needed: pairwise equality.",
         "Trusted: nothing but equality; needs a CPU with AES-NI and CLMUL (checked at run time, otherwise the part is reported as not covered).", "DESIGN.md 3/C16"),
 "C20": ("exploration",
         "bounded exhaustive enumeration of (k,n), secrets and coefficient tapes with the library's random source replaced by a tape; every ordered k-subset recombined; field laws on all triples and all basis monomial pairs",
         "All 15 (k,n) with 2<=k<=n<=6, both ssss modes, 14 boundary secrets x coefficient tapes from the same alphabet: split() must return exactly the "
         "reference polynomial's shares for the tape coefficients and draw exactly 16(k-1) bytes (tripwire on every other entropy source), so the secrecy "
         "statement becomes a theorem about the reference polynomial (additionally witnessed by solving for tapes that map other secrets onto the same "
         "k-1 shares). Every k-subset in every order (P(6,k) orders), supersets, (k-1)-subsets, 216 k duplicate-index lists; multiplication on all 128x128 "
         "basis monomial pairs pins the reduction polynomial, associativity/distributivity on all 14^3 triples, all inverses.",
         "Trusted: mc/ref/gf128.py. Secrets and coefficients outside the element alphabet are not covered.", "DESIGN.md 3/C20"),
 "C06": ("exploration",
         "bounded exhaustive enumeration of point pairs, scalars and in-place operator histories on all nine curves against affine reference arithmetic on Python ints; all key-agreement role subsets",
         "Per curve a 19-28 point alphabet (neutral, generator from the registry and freshly constructed, generator reached by arithmetic with z != 1, small and "
         "seeded multiples, all torsion points of the Edwards curves, the point with x = 0 where it exists): all ordered pairs for + += == !=, every point for "
         "negation/doubling/copy/xy/is_point_at_infinity, 36-41 boundary scalars (0, n-1, n, n+1, 2n, 2^bits, 2^(bits+9)+5, window patterns ...) x every point in "
         "four operator forms with the blinding seed owned through a seam, in-place operator histories (incl. reading the coordinates and set()) to "
         "depth 2-4 with prefix replay, EccXPoint over every "
         "low-order u and its aliases, all 16 key_agreement argument subsets from both parties' view, RFC 7748 iterated vectors; scalars 2^(64w)-1 filling "
         "w = 1..words+4 machine words (carry out of the blinded scalar).",
         "Trusted: mc/ref/ec.py (curve constants self-validated at import; Wycheproof-checked) and the exact affine Montgomery arithmetic in mc/props/_c06_ref.py.",
         "DESIGN.md 3/C06"),
 "C04": ("exploration",
         "bounded exhaustive enumeration of schemes x keys x hashes x a candidate-signature alphabet (bit flips, boundary r/s/S values, DER re-encodings, forged encoded messages signed with the private key) against reference verifiers; one-sided soundness oracle",
         "RSA (1024/1025/1031/1032-bit and a 512-bit key; 2048 in thorough) PKCS#1 v1.5 over 23 hashes and PSS over 13 hashes x salt lengths, DSA on four (L,N) "
         "pairs and ECDSA on five curves in FIPS and RFC 6979 modes x binary/DER, Ed25519/Ed448 x pure/prehash x context lengths: every produced signature "
         "verifies and deterministic ones are byte-identical to the reference signer (FIPS mode through entropy tapes incl. rejected draws); every single-bit "
         "flip, wrong length, s+n, (r,s) boundary pairs, 45 hand-built BER/DER re-encodings, ~150 structured PKCS#1 v1.5 forgeries and every PSS padding position "
         "raw-signed with the private key, the complete small-order A x R x S grid for EdDSA: whatever the library accepts must be accepted by the standard's "
         "verifier, rejection must be ValueError, hash/XOF objects must not be consumed. Also: the boundary private keys 1, 2, q-2, q-1 of every curve and "
         "DSA domain (public half rebuilt from coordinates, verified under the negated point too), RSA moduli of exactly tLen+10/+11/+12 octets for every hash, "
         "and object-reuse histories: ONE signature object per scheme configuration driven through every sequence of up to 3 (4) sign/verify calls with "
         "different hash algorithms, each outcome equal to a fresh object's. A refusal by sign() where the standard defines the deterministic signature is a violation.",
         "Trusted: mc/ref/{rsa,dsa,ec,der}.py (Wycheproof-checked). Completeness for standard-valid signatures that sign() never emits is not demanded.",
         "DESIGN.md 3/C04"),
 "C05": ("exploration",
         "small-scope exhaustive enumeration of key component tuples (all small integers), coordinate alphabets on nine curves, every encoded form, entropy tapes for generate(), against reference invariant checkers; one-sided oracle",
         "RSA.construct on all (p,q) in [0,16]^2 ([0,40]^2 thorough) x e x d-variants x u-variants x tuple lengths, DSA.construct on all (p,q,g) with p<24/48, "
         "ElGamal.construct with p<32/64, the same tuples through import_key; ECC on nine curves with all pairs of a 23-29 value coordinate alphabet through "
         "EccPoint, construct, SEC1, SPKI, OpenSSH, raw, RFC 5915 and PKCS#8, scalar boundaries, private/public and seed/point mismatches, every low-order "
         "Montgomery u and its aliases; generate() for RSA/DSA/ElGamal/ECC under seeded and boundary tapes (exact size, FIPS 186-4 margins); every single-bit flip "
         "of every numeric field of 38 encodings. Returned keys must satisfy the invariants, invariant-violating inputs must raise ValueError (a CPU-time timer "
         "catches calls that never return). RSA.generate is additionally offered, as first candidates for q, p itself, the next prime, and primes within "
         "2^(bits/2-100) of p on the other side of a multiple of 2^(bits/2-100); DSA.generate gets tapes around multiples of q and q-1; every curve gets "
         "'near misses': for every bit of the 64-bit-word representation (plain and Montgomery form) a point whose curve-equation sides differ in exactly that "
         "bit, and Montgomery public values differing from the seed's in one such bit (6 k bit positions).",
         "Trusted: mc/ref/{nt,rsa,dsa,ec}.py. Refusal of valid inputs is only logged.", "DESIGN.md 3/C05"),
 "C08": ("exploration",
         "bounded exhaustive enumeration of the export configuration product per key against an independent reader (strict DER, PEM, PBES2 decryptor, OpenSSH parser), plus the full equality matrix",
         "54 (58) keys incl. RSA sizes/exponents (moduli and exponents whose leading octet is 7f / 80 / 81 / ff, moduli of 127 and 128 content octets), DSA "
         "domains and three ECC keys per curve chosen so that integers have leading-zero and high-bit octets: the full "
         "product format x pkcs/use_pkcs8 x passphrase x 84 protection strings x prot_params x compress (4.6 k / 19 k artefacts): re-import gives identical "
         "components, three wrong passphrases are refused, and an independent reader that never imports the library parses every artefact (canonical DER "
         "re-serialisation, OIDs, parameters, PBES2 parameters as requested, RFC 8410/5915 structure). Equality: all ordered pairs of 127 (231) key objects incl. "
         "public halves, copies, re-imports, RFC 7748 keys imported from non-canonical encodings and near-miss variants under == and != "
         "(keys of different types must compare unequal, not raise). The caller's prot_params dictionary is unchanged by every export.",
         "Trusted: mc/props/_c08_ref.py over mc/ref/{der,kdf,modes,aes,des,ec}.py and hashlib.", "DESIGN.md 3/C08"),
 "C14": ("exploration",
         "bounded exhaustive enumeration of operand pairs x operations per integer back-end against exact Python int arithmetic; primality on every integer below a bound and on computed pseudoprime families",
         "Each of IntegerGMP/IntegerCustom/IntegerNative: all ordered pairs of a 63 (103) value boundary alphabet (word-size boundaries up to 2048 bits, signs) x 30 "
         "binary operations in operator/in-place/int-operand forms, a complete box [-16,16]^2, modular pow and multiplication over 74 (212) moduli of 1..33 words, "
         "all residues modulo every prime < 200 for the modular square root; primality tests on every n < 2^13 (2^17) with Miller-Rabin bases dictated through "
         "the entropy tape, and on Carmichael/Chernick numbers, strong and Lucas pseudoprimes, prime powers, close-prime products; generated primes of every "
         "size 160..192 etc.; primality repeated in child processes under the other two back-ends. Square roots of k^2-1, k^2, k^2+1 for k of every bit "
         "length up to 1100; the result of every out-of-place operation is updated in place and must leave all operands unchanged (no shared state); "
         "from_bytes is called twice from one bytes/bytearray/memoryview carrier which must read the same afterwards.",
         "Trusted: Python int arithmetic, mc/ref/nt.py. Result types are C16's matter.", "DESIGN.md 3/C14"),
 "C18": ("exploration",
         "complete enumeration of the entropy-tape tree (every byte value at every draw, exact rational weights) up to a stated rejection depth; boundary tapes at cryptographic sizes",
         "The entropy source is a tape: every request is a choice point over all 256^n answers. For Integer.random (1..16 bits) and random_range (the full product of "
         "min 0..3 x width 1..300, three back-ends), StrongRandom getrandbits/randrange/randint/choice/shuffle/sample and the legacy number functions the "
         "complete tree is enumerated (20 M executions quick, 562 M thorough): outcomes in bounds, identical exact weight for every outcome, the subtree after "
         "each rejection identical to a fresh attempt (=> exact uniformity of the unbounded sampler), randfunc honoured. At cryptographic sizes (EC scalars on "
         "nine curves, DSA x, FIPS-mode DSA/ECDSA nonces, RSA generation, blinding) boundary tapes 0..0, bound-1, bound, bound+1, F..F with a reference sampler.",
         "Trusted: the 10-line reference rejection sampler; mc/ref/ec.py, dsa.py for the consumers.", "DESIGN.md 3/C18"),
 "C17": ("exploration",
         "bounded exhaustive enumeration of argument lengths x buffer placements x aliasing x object life-cycle histories for every native entry point, run under AddressSanitizer with guard-paged caller buffers",
         "The library is rebuilt with clang AddressSanitizer; every caller buffer lives in an mmap arena ending (or starting) exactly at a PROT_NONE page, so a "
         "one-byte over/under-run of a caller buffer faults deterministically (bytes objects hide it behind their trailing NUL). For all 42 extension modules "
         "(181 of 186 declared functions reached): every data length 0..80 (0..260 thorough) plus block/cache boundaries and 512/4096/8192/65536, at three "
         "placements, with returned / output= / in-place / overlapping / wrong-size outputs, constructor key/IV/nonce/tag/counter lengths, PKCS#1 decoders on "
         "every EM length 0..40, EC coordinates and scalars of 0..80 bytes, Montgomery operands of 1..280 bytes, and create/copy/use/delete histories to depth "
         "3-4 over 112 classes, and every ordered pair of the nine curves as the two operands of ==, +, +=, set(), key equality and key "
         "agreement (structures of different native libraries). A second 'deep' mode relocates every buffer argument of every native call (also the internal ones) to guard pages. "
         "843 k cases quick, 6.4 M thorough; each batch runs in a child process located by a progress file when it dies.",
         "Trusted: ASan, the guard-page arena and the ctypes proxy in mc/props/_c17_*.py (the library's own 8825 self-tests pass unchanged under the deep proxy). "
         "Allocation failures are explored in the fault part only (single refusal or all-from-k; not two isolated refusals, not inside libgmp/libc/Python); a native call that never returns is logged, not judged.", "DESIGN.md 3/C17"),
}
# parts added in the fifth wave (appended to the level texts above)
EXTRA = {
 "C17": " A fault part refuses EVERY allocation of the library's own native code (malloc/calloc/posix_memalign of the extensions are "
        "routed through a controlled seam by ld --wrap in a dedicated ASan build): for each of 140 (quick) / 155 (thorough) workloads "
        "covering every hash, MAC, cipher mode, KDF, RSA decoder, big-integer and EC entry point, allocation k alone and allocation k "
        "with all later ones are refused for every k (8 257 fault points, 16 514 executions quick); the process must survive under ASan "
        "(no NULL dereference, use after free or double free on a clean-up path) and the call must raise or return the undisturbed result.",
 "C10": " A retry part inserts one call refused for its ARGUMENT (output buffer too long / too short / read-only / bytes, str or None "
        "as data) before every piece of every short one-direction history of 10 AEAD configurations and demands the observations of the "
        "history without it (differential).",
 "C03": " One update() call (and new(data)) carrying 2^29+3 bytes - a length counter above 2^32 bits fed by a single call - for 6 (quick) / "
        "14 (thorough) hash algorithms against hashlib and against the same bytes in 16 MiB pieces.",
 "C01": " OCB with more than 2^16 blocks of message and of associated data (block indexes whose ntz is 16 or 17) against the reference, "
        "with block swaps across index 65536 offered back.",
 "C04": " MGF1 (RFC 8017 B.2.1) for seven hashes incl. 1- and 2-octet digests at every mask length around 0, 1, 2, 255, 256, 257 and 513 blocks.",
 "C15": " Set-up: the complete PSK matrix of RFC 9180 5.1 (both empty, PSK without id, id without PSK, PSK shorter than 32 octets) with and "
        "without a sender key on the sending and the receiving side.",
 "C19": " The result of every point operation (copy, P*k, k*P, negation, addition, point_at_infinity) on 4 operands incl. the neutral element "
        "on all 9 curves is a new object: changing it in place never reaches the operand.",
 "C18": " sample() from populations with equal elements (1 == 1.0 == True): the selection is uniform over positions.",
 "C11": " Caller-supplied output buffers around the counter limit (9 positions x 10 request sizes, 1-byte counter, both ciphers, layouts "
        "and endiannesses): the buffer never holds key stream past the repetition point.",
 "C12": " derive() after a refused 128th S2V component equals S2V of the 127 accepted ones.",
}
for _k, _v in EXTRA.items():
    _c = CHECKS[_k]
    CHECKS[_k] = (_c[0], _c[1], _c[2] + _v, _c[3], _c[4])
_c = CHECKS["C17"]
CHECKS["C17"] = (_c[0], _c[1] + "; exhaustive single-fault injection at every allocation point of the native code (deviation bound 1, and 'all later allocations' as a second mode)",
                 _c[2], _c[3], _c[4])
NOT_YET = "(all twenty properties are claimed) check not built yet (work in progress in this session; see DESIGN.md section 3 for the planned bounded-exhaustive check)"
man = {
 "version": 1,
 "setup_cmd": "cd /verif && ./setup.sh",
 "hooks": {"guard": "PYCRYPTODOME_VERIF",
           "enable": "no source hooks are needed: checks copy /repo's working tree to /var/tmp, build it with setup.py build_ext --inplace and drive it through public parameters and module attributes (DESIGN.md section 4); the guard variable is exported as PYCRYPTODOME_VERIF=1 for future hooks",
           "baseline_off_cmd": "cd /repo && env -u PYCRYPTODOME_VERIF /venv/bin/python -m pytest -ra -q -p no:cacheprovider --timeout=900 --continue-on-collection-errors",
           "source_commits": [], "add_only": True},
 "engines": [{"name": "mc", "path": "/verif/mc", "serves_properties": sorted(CHECKS),
              "kind_free_text": "hand-written explicit-state / bounded-exhaustive explorers (operation histories, input shapes, entropy tapes, thread schedules) driving the real library in lock-step with pure-Python reference models"}],
 "checks": [],
 "not_applicable": [],
 "notes": "All checks: ./check <ID> quick|thorough. Known genuine defects of the pinned tree are listed in known_findings.json and printed as KNOWN-FINDING lines.",
}
for pid in ALL:
    if pid in CHECKS:
        lvl, tech, text, note, ref = CHECKS[pid]
        man["checks"].append({
            "property_id": pid, "quick_cmd": "./check %s quick" % pid, "thorough_cmd": "./check %s thorough" % pid,
            "evidence_file": "/verif/evidence/%s.json" % pid,
            "replay_cmd_template": "./check %s quick --replay {path}" % pid, "engine": "mc",
            "level_claimed": {"category": lvl, "text": text, "design_ref": ref},
            "level_note": note, "technique": tech})
    else:
        man["not_applicable"].append({"property_id": pid, "reason": NOT_YET})
json.dump(man, open(os.path.join(root, "MANIFEST.json"), "w"), indent=1)
print("checks:", [c["property_id"] for c in man["checks"]])
