"""Run one check again against a stored seeded change and record the outcome in its meta.json ("recheck" list).
usage: python tools/seeded_recheck.py <seed-id> [PROP] [--tier quick|thorough]
A scratch worktree of /repo HEAD gets the seed's patch; ./check PROP <tier> runs with VERIF_REPO pointing at it."""
import json, os, subprocess, sys, time, shutil
VERIF = os.path.dirname(os.path.dirname(os.path.abspath(__file__)))
a = [x for x in sys.argv[1:] if not x.startswith("--")]
tier = sys.argv[sys.argv.index("--tier") + 1] if "--tier" in sys.argv else "quick"
if "--tier" in sys.argv:
    a = [x for x in a if x != tier]
sid = a[0]
d = os.path.join(VERIF, "seeded", sid)
meta = json.load(open(os.path.join(d, "meta.json")))
prop = a[1] if len(a) > 1 else meta["property"]
wt = "/var/tmp/rc-" + sid
subprocess.run(["git", "-C", "/repo", "worktree", "remove", "--force", wt], stdout=subprocess.DEVNULL, stderr=subprocess.DEVNULL)
shutil.rmtree(wt, ignore_errors=True)
subprocess.run(["git", "-C", "/repo", "worktree", "add", "--detach", wt, "HEAD"], check=True, stdout=subprocess.DEVNULL, stderr=subprocess.DEVNULL)
try:
    r = subprocess.run(["git", "-C", wt, "apply", os.path.join(d, "patch.diff")], stdout=subprocess.PIPE, stderr=subprocess.STDOUT)
    assert r.returncode == 0, r.stdout.decode()
    env = dict(os.environ, VERIF_REPO=wt)
    t0 = time.time()
    r = subprocess.run([os.path.join(VERIF, "check"), prop, tier], cwd=VERIF, env=env, stdout=subprocess.PIPE, stderr=subprocess.STDOUT,
                       stdin=subprocess.DEVNULL, timeout=7200)
    out = r.stdout.decode(errors="replace")
    keys = [l.strip().split(" :: ")[0] for l in out.split("\n") if l.startswith("  " + prop + "/")]
    rec = {"check": "%s %s" % (prop, tier), "rc": r.returncode, "violation_keys": keys[:8], "wall_s": round(time.time() - t0, 1),
           "date": time.strftime("%Y-%m-%d %H:%M"), "repo_head": subprocess.run(["git", "-C", "/repo", "rev-parse", "--short=8", "HEAD"],
                                                                                stdout=subprocess.PIPE).stdout.decode().strip(),
           "detected": r.returncode == 1 and bool(keys)}
    meta.setdefault("recheck", []).append(rec)
    json.dump(meta, open(os.path.join(d, "meta.json"), "w"), indent=1)
    print(sid, rec["check"], "rc=%d" % r.returncode, "detected" if rec["detected"] else "MISSED", keys[:2])
finally:
    subprocess.run(["git", "-C", "/repo", "worktree", "remove", "--force", wt], stdout=subprocess.DEVNULL, stderr=subprocess.DEVNULL)
    shutil.rmtree(wt, ignore_errors=True)
