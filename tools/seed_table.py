"""Print the markdown table of the third wave of seeded changes from /verif/seeded/*/meta.json.
usage: python tools/seed_table.py  (rows for ids cNN-7.. and the wave-3 ids listed in WAVE3_EXTRA)"""
import glob, json, os, re
ROOT = os.path.dirname(os.path.dirname(os.path.abspath(__file__)))
M = {}
for d in glob.glob(os.path.join(ROOT, "seeded", "*", "meta.json")):
    m = json.load(open(d)); M[m["seed"]] = m
HOW = {
 "c07-9": "C07 reuse part: the OAEP label is handed over in a bytearray that the caller overwrites after `new()`; fresh objects must decrypt reference-made ciphertexts. Also caught by C19's new late-mutation monitor (c07-9x)",
 "c05-7": "the grids did see the bad keys (the same domain is presented many times) but the replay presented the input once and did not reproduce (exit 3); C05's replay now presents the input up to three times in one process",
 "c06-7": "`P.xy` (read) and `P.set(Q)` added to the in-place history alphabet",
 "c11-7": "the call that crosses the counter limit enumerated systematically: start k bytes before the limit, ask for b bytes, k and b on both sides of the block and of the 8-block batch (100 patterns), plus whole-batch-only approaches",
 "c12-7": "scrypt r = 1..16 in the quick tier (the RFC vectors only have powers of two)",
 "c12-8": "argument carriers: password/salt as bytes, bytearray, memoryview, three calls with the same buffers, result and buffer compared",
 "c08-7": "RFC 7748 public keys imported from non-canonical encodings (u + p) added to the equality matrix",
 "c08-9": "every export checks that the caller's `prot_params` dictionary is unchanged, and one dictionary is reused across a PBKDF2 and a scrypt export in both orders",
 "c09-8": "every cut of a KangarooTwelve message of 3 chunks + 1000 bytes (25 577 two-piece cuts, plus three-piece cuts)",
 "c15-8": "the AEAD is also given by its RFC 9180 code point (a plain int) on every suite; the context must behave as with the enum member",
 "c18-9": "`random_range` with the caller's own `Integer` objects as bounds, the same two objects in every call of the tape tree",
 "c13-8": "DerSequence keyword histories: every sequence of 2 (3) `decode(x, nr_elements=… / only_ints_expected=… / strict=…)` calls on one object against fresh objects",
 "c13-9": "every PEM DEK-Info algorithm (texts built by the reference) in the quick tier too; the returned (data, marker, encrypted?) tuple is compared",
 "c20-8": "quick tier: 40 shares 1..40 and 24 shares with the indexes 232..255 (index products beyond degree 128); the thorough tier had every k = 7..64 already",
 "c14-11": "`from_bytes` is called twice from ONE carrier object (bytes, bytearray, memoryview): the buffer must read the same and the second value equal the first",
}
WAVE4 = {"c02-10", "c02-11", "c03-10", "c03-11", "c08-10", "c08-11", "c12-10", "c12-11", "c12-12", "c13-10", "c13-11", "c16-10", "c16-11", "c16-12"}
import sys
WANT4 = len(sys.argv) > 1 and sys.argv[1] == "4"
HOW.update({"c08-11": "the Edwards public key with the other sign of x (an equality near miss of the thorough tier) moved into the quick tier"})


def wave3(s):
    if WANT4:
        return s in WAVE4
    if s in WAVE4:
        return False
    p, n = s.split("-"); n = int(re.match(r"\d+", n).group())
    if p in ("c19", "c09", "c15"): return n >= 8
    if p == "c17": return n >= 6
    return n >= 7
rows = []
for s in sorted(M, key=lambda x: (x.split("-")[0], int(re.match(r"\d+", x.split("-")[1]).group()), x)):
    if not re.fullmatch(r"c\d\d-\d+", s) or not wave3(s): continue
    m = M[s]
    if not m["valid_seed"]: continue
    key = (m.get("check_violation_keys") or [""])[0]
    others = sorted(k for k in M if k.startswith(s) and k != s and len(k) > len(s) and not k[len(s)].isdigit())
    if m["detected"]:
        res = "%s **caught** (`%s`)" % (m["property"], key)
    else:
        parts = []
        for o in others:
            mo = M[o]
            if mo["detected"]:
                k2 = (mo.get("check_violation_keys") or [""])[0]
                if o.endswith("b"):
                    parts.append("**caught after strengthening** (%s, `%s`): %s" % (o, k2, HOW.get(s) or "see section 10.1"))
                else:
                    parts.append("**caught by %s** (%s, `%s`)" % (mo["property"], o, k2))
        res = "%s missed; " % m["property"] + ("; ".join(parts) if parts else "NOT CAUGHT")
    rows.append("| %s | %s | %s |" % (s, m["needs"].replace("|", "/"), res))
print("| seed | change (needs …) | result of `./check <P> quick` |\n|---|---|---|")
print("\n".join(rows))
