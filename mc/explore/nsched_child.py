"""Native-level schedule exploration (runs in a subprocess with LD_PRELOAD=libvsched.so,
PYTHONMALLOC=malloc and the *sched* build of the library first on sys.path).

usage: python -m mc.explore.nsched_child <out.json> <bound> <workload> [<workload> ...]
       python -m mc.explore.nsched_child <out.json> replay <workload> <start> <plan,comma,separated>

For each workload (two thread bodies A, B using distinct objects of one extension module):
  step A  each body runs solo in RECORD mode: granules touched outside the own stack, minus blocks the
          thread allocated itself -> shared read/write sets;
  step B  conflict set = granules touched by both with at least one write.  Empty: all interleavings are
          Mazurkiewicz-equivalent, one concurrent representative is run.  Otherwise accesses to conflict
          granules are scheduling points and all schedules with <= bound preemptions are executed.
Oracle: each body's result equals its solo result.
"""
import ctypes
import json
import os
import sys
import threading
import time

LIB = os.path.join(os.path.dirname(os.path.dirname(os.path.abspath(__file__))), "native", "libvsched.so")
vs = ctypes.CDLL(LIB)
vs.vs_log_get.argtypes = [ctypes.c_int, ctypes.c_void_p, ctypes.c_void_p, ctypes.c_long]
vs.vs_log_get.restype = ctypes.c_long
vs.vs_alloc_get.argtypes = [ctypes.c_int, ctypes.c_void_p, ctypes.c_void_p, ctypes.c_long]
vs.vs_alloc_get.restype = ctypes.c_long
vs.vs_log_size.restype = ctypes.c_long
vs.vs_alloc_count.restype = ctypes.c_long
vs.vs_access_count.restype = ctypes.c_uint64
vs.vs_set_conflicts.argtypes = [ctypes.c_void_p, ctypes.c_long]
vs.vs_begin.argtypes = [ctypes.c_int, ctypes.c_void_p, ctypes.c_int]
vs.vs_steps.restype = ctypes.c_long
vs.vs_switches.restype = ctypes.c_long
vs.vs_points.restype = ctypes.c_long
vs.vs_trace.argtypes = [ctypes.c_void_p, ctypes.c_long]
vs.vs_trace.restype = ctypes.c_long

MSG_A = b"abc"
MSG_B = bytes(range(7, 7 + 70))
K16A, K16B = bytes(range(16)), bytes(range(100, 116))
K32A, K32B = bytes(range(32)), bytes(range(100, 132))


# ---------------------------------------------------------------------------
# workloads: name -> (bodyA, bodyB); bodies create their own objects (thread-private) but may use
# process-wide lazily initialised data (curve contexts), which `warm` touches first
# ---------------------------------------------------------------------------
def _hash(modname, **kw):
    def mk(msg):
        def body():
            import importlib
            m = importlib.import_module("Crypto.Hash." + modname)
            h = m.new(**kw)
            h.update(msg[:2])
            h.update(msg[2:])
            return h.hexdigest()
        return body
    return mk(MSG_A), mk(MSG_B)


def _cipher(modname, mode, ka, kb, **kw):
    def mk(key, n):
        def body():
            import importlib
            m = importlib.import_module("Crypto.Cipher." + modname)
            c = m.new(key, getattr(m, mode), **{k: (v(m) if callable(v) else v) for k, v in kw.items()})
            data = bytes(range(n))
            out = c.encrypt(data)
            return out.hex()
        return body
    return mk(ka, 32), mk(kb, 96)


def _aead(modname, mode, ka, kb, **kw):
    def mk(key, n):
        def body():
            import importlib
            m = importlib.import_module("Crypto.Cipher." + modname)
            c = m.new(key, getattr(m, mode), **kw)
            c.update(b"header" * (n // 16))
            ct, tag = c.encrypt_and_digest(bytes(range(n)))
            return ct.hex() + tag.hex()
        return body
    return mk(ka, 33), mk(kb, 90)


def _ecmul(curve, ka, kb):
    def mk(k):
        def body():
            from Crypto.PublicKey import ECC
            from Crypto.PublicKey._point import _curves
            G = _curves[curve].G
            P = G * k
            if hasattr(P, "y") and curve not in ("curve25519", "curve448"):
                Q = P + G
                return "%x,%x,%x" % (int(P.x), int(P.y), int(Q.x))
            return "%x" % int(P.x)
        return body
    return mk(ka), mk(kb)


SHARED = {}


def _shared_operand(curve):
    """two threads work on their own points but use ONE shared point object Q as a read-only operand
    (addition, comparison with Q as right and as left operand, negation/copy, coordinate export)"""
    def mk(k):
        def body():
            from Crypto.PublicKey._point import _curves
            Q = SHARED[curve]
            G = _curves[curve].G
            P = G * k
            C = Q.copy()                   # an equal point of this thread's own: Q == C must stay True
            if curve in ("curve25519", "curve448"):
                return "%x,%s,%s,%s,%x" % (int(P.x), P == Q, Q == P, Q == C, int(Q.x))
            R = P + Q
            N = -Q
            x, y = Q.xy
            return "%x,%x,%s,%s,%s,%x,%x" % (int(R.x), int(R.y), P == Q, Q == P, Q == C, int(N.y), int(x) ^ int(y))
        return body
    return mk(0x1234567), mk(2 ** 150 + 12345)


def _sign(curve):
    def mk(d, msg):
        def body():
            from Crypto.PublicKey import ECC
            from Crypto.Signature import DSS, eddsa
            from Crypto.Hash import SHA256, SHA512
            if curve.startswith("ed"):
                k = ECC.construct(curve=curve, seed=bytes([d]) * (32 if curve == "ed25519" else 57))
                return eddsa.new(k, "rfc8032").sign(msg).hex()
            k = ECC.construct(curve=curve, d=d)
            return DSS.new(k, "deterministic-rfc6979").sign(SHA256.new(msg)).hex()
        return body
    return mk(5, MSG_A), mk(77, MSG_B)


def _modexp():
    def mk(b, e, m):
        def body():
            from Crypto.Math._IntegerCustom import IntegerCustom
            return "%x" % int(pow(IntegerCustom(b), IntegerCustom(e), IntegerCustom(m)))
        return body
    return mk(3, 2 ** 200 + 1, 2 ** 255 - 19), mk(7, 2 ** 300 + 5, 2 ** 521 - 1)


def _misc(kind):
    if kind == "strxor":
        def mk(n):
            def body():
                from Crypto.Util.strxor import strxor, strxor_c
                return strxor(bytes(range(n)), bytes(n)).hex() + strxor_c(bytes(range(n)), 0x5A).hex()
            return body
        return mk(5), mk(77)
    if kind == "scrypt":
        def mk(pw, N):
            def body():
                from Crypto.Protocol.KDF import scrypt
                return scrypt(pw, b"salt", 32, N, 1, 1).hex()
            return body
        return mk(b"a", 4), mk(b"bb", 16)
    if kind == "bcrypt":
        def mk(pw):
            def body():
                from Crypto.Protocol.KDF import bcrypt
                return bcrypt(pw, 4, salt=bytes(16)).hex()
            return body
        return mk(b"a"), mk(b"password-number-two")
    if kind == "pkcs1":
        def mk(n):
            def body():
                from Crypto.Cipher._pkcs1_oaep_decode import pkcs1_decode
                em = b"\x00\x02" + b"\xAA" * (n - 3 - 5) + b"\x00" + b"hello"
                out = bytearray(n)
                r = pkcs1_decode(em, b"S" * 4, 0, out)
                return "%d:%s" % (r, bytes(out).hex())
            return body
        return mk(32), mk(64)
    if kind == "pbkdf2":
        def mk(pw):
            def body():
                from Crypto.Protocol.KDF import PBKDF2
                from Crypto.Hash import SHA1, SHA256
                return PBKDF2(pw, b"salt", 40, 3, hmac_hash_module=SHA256).hex()
            return body
        return mk(b"a"), mk(b"b" * 80)
    if kind == "poly1305":
        def mk(n):
            def body():
                from Crypto.Hash import Poly1305
                from Crypto.Cipher import AES
                return Poly1305.new(key=K32A, cipher=AES, nonce=bytes(16), data=bytes(range(n))).hexdigest()
            return body
        return mk(3), mk(70)
    raise KeyError(kind)


def workloads():
    W = {}
    for h in ("MD2", "MD4", "MD5", "SHA1", "SHA224", "SHA256", "SHA384", "SHA512", "RIPEMD160",
              "SHA3_256", "SHAKE128"):
        if h == "SHAKE128":
            def mk(msg):
                def body():
                    from Crypto.Hash import SHAKE128
                    return SHAKE128.new(msg).read(40).hex()
                return body
            W["hash/" + h] = (mk(MSG_A), mk(MSG_B))
        else:
            W["hash/" + h] = _hash(h)
    W["hash/BLAKE2b"] = _hash("BLAKE2b", digest_bits=256)
    W["hash/BLAKE2s"] = _hash("BLAKE2s", digest_bits=128)
    W["hash/keccak"] = _hash("keccak", digest_bits=256)
    W["hash/Poly1305"] = _misc("poly1305")
    W["cipher/AES-ECB"] = _cipher("AES", "MODE_ECB", K16A, K32B)
    W["cipher/AES-ECB-noaesni"] = _cipher("AES", "MODE_ECB", K16A, K32B, use_aesni=False)
    W["cipher/AES-CBC"] = _cipher("AES", "MODE_CBC", K16A, K32B, iv=bytes(16))
    W["cipher/AES-CFB"] = _cipher("AES", "MODE_CFB", K16A, K32B, iv=bytes(16))
    W["cipher/AES-OFB"] = _cipher("AES", "MODE_OFB", K16A, K32B, iv=bytes(16))
    W["cipher/AES-CTR"] = _cipher("AES", "MODE_CTR", K16A, K32B, nonce=bytes(8))
    W["cipher/DES"] = _cipher("DES", "MODE_ECB", K16A[:8], K16B[:8])
    W["cipher/DES3"] = _cipher("DES3", "MODE_CBC", bytes(range(1, 25)), bytes(range(101, 125)), iv=bytes(8))
    W["cipher/ARC2"] = _cipher("ARC2", "MODE_ECB", K16A, K16B)
    W["cipher/Blowfish"] = _cipher("Blowfish", "MODE_ECB", K16A, K16B)
    W["cipher/CAST"] = _cipher("CAST", "MODE_ECB", K16A, K16B)

    def stream(modname, ka, kb, **kw):
        def mk(key, n):
            def body():
                import importlib
                m = importlib.import_module("Crypto.Cipher." + modname)
                return m.new(key=key, **kw).encrypt(bytes(range(n))).hex()
            return body
        return mk(ka, 33), mk(kb, 150)
    W["cipher/ARC4"] = stream("ARC4", K16A, K16B)
    W["cipher/Salsa20"] = stream("Salsa20", K32A, K32B, nonce=bytes(8))
    W["cipher/ChaCha20"] = stream("ChaCha20", K32A, K32B, nonce=bytes(12))
    W["aead/GCM"] = _aead("AES", "MODE_GCM", K16A, K32B, nonce=bytes(12))
    W["aead/GCM-noclmul"] = _aead("AES", "MODE_GCM", K16A, K32B, nonce=bytes(12), use_clmul=False)
    W["aead/OCB"] = _aead("AES", "MODE_OCB", K16A, K32B, nonce=bytes(15))
    W["aead/CCM"] = _aead("AES", "MODE_CCM", K16A, K32B, nonce=bytes(11))
    W["aead/EAX"] = _aead("AES", "MODE_EAX", K16A, K32B, nonce=bytes(16))

    def chapoly():
        def mk(key, n):
            def body():
                from Crypto.Cipher import ChaCha20_Poly1305
                c = ChaCha20_Poly1305.new(key=key, nonce=bytes(12))
                c.update(b"hdr")
                ct, tag = c.encrypt_and_digest(bytes(range(n)))
                return ct.hex() + tag.hex()
            return body
        return mk(K32A, 20), mk(K32B, 130)
    W["aead/ChaCha20-Poly1305"] = chapoly()
    for c in ("p192", "p224", "p256", "p384", "p521", "ed25519", "ed448", "curve25519", "curve448"):
        W["ec/mul-" + c] = _ecmul(c, 0x1234567, 2 ** 150 + 12345)
    for c in ("p256", "p521", "ed25519", "ed448", "curve25519", "curve448"):
        W["ec/shared-operand-" + c] = _shared_operand(c)
    W["ec/sign-p256"] = _sign("p256")
    W["ec/sign-ed25519"] = _sign("ed25519")
    W["ec/sign-ed448"] = _sign("ed448")
    W["math/modexp"] = _modexp()
    for k in ("strxor", "scrypt", "bcrypt", "pkcs1", "pbkdf2"):
        W["misc/" + k] = _misc(k)
    return W


def warm():
    """first use of lazily initialised process-wide data happens here, outside the scheduler"""
    from Crypto.PublicKey._point import _curves
    for c in ("p192", "p224", "p256", "p384", "p521", "ed25519", "ed448", "curve25519", "curve448"):
        _ = _curves[c].G
        SHARED[c] = _curves[c].G * 1000


# ---------------------------------------------------------------------------
def run_thread(tid, body, out, barrier=None):
    vs.vs_register(tid)
    try:
        if barrier is not None:
            barrier.wait()
        out[tid] = body()
    except BaseException as e:  # noqa
        out[tid] = "EXC %s: %s" % (type(e).__name__, e)
    finally:
        vs.vs_unregister()


def solo_record(bodies):
    vs.vs_reset_logs()
    out = {}
    vs.vs_set_mode(1)
    for tid in (0, 1):
        t = threading.Thread(target=run_thread, args=(tid, bodies[tid], out))
        t.start()
        t.join()
    vs.vs_set_mode(0)
    sets = []
    stats = []
    for tid in (0, 1):
        n = vs.vs_log_size(tid)
        g = (ctypes.c_uint64 * max(n, 1))()
        f = (ctypes.c_uint8 * max(n, 1))()
        n = vs.vs_log_get(tid, g, f, n)
        na = vs.vs_alloc_count(tid)
        p = (ctypes.c_uint64 * max(na, 1))()
        s = (ctypes.c_uint64 * max(na, 1))()
        na = vs.vs_alloc_get(tid, p, s, na)
        blocks = sorted((p[i], p[i] + s[i]) for i in range(na))
        import bisect
        starts = [b[0] for b in blocks]
        shared = {}
        for i in range(n):
            a = g[i] << 3
            j = bisect.bisect_right(starts, a + 7) - 1
            private = False
            while j >= 0 and j > bisect.bisect_right(starts, a + 7) - 40:
                if blocks[j][0] <= a + 7 and a < blocks[j][1]:
                    private = True
                    break
                j -= 1
            if not private:
                shared[g[i]] = f[i]
        sets.append(shared)
        stats.append({"accesses": int(vs.vs_access_count(tid)), "granules": n, "own_heap_blocks": na,
                      "shared_granules": len(shared), "shared_written": sum(1 for v in shared.values() if v & 2)})
    conflicts = sorted(k for k in sets[0] if k in sets[1] and ((sets[0][k] | sets[1][k]) & 2))
    return out, conflicts, stats


def run_plan(bodies, start, plan, timeout=30):
    # normalise static state: one solo run of body A outside any mode
    bodies[0]()
    arr = (ctypes.c_long * max(len(plan), 1))(*plan)
    vs.vs_begin(start, arr, len(plan))
    out = {}
    barrier = threading.Barrier(2)
    vs.vs_set_mode(2)
    ths = [threading.Thread(target=run_thread, args=(tid, bodies[tid], out, barrier), daemon=True) for tid in (0, 1)]
    for t in ths:
        t.start()
    for t in ths:
        t.join(timeout)
    hung = any(t.is_alive() for t in ths)
    vs.vs_set_mode(0)
    tr = (ctypes.c_long * 4096)()
    nt = vs.vs_trace(tr, 4096)
    return out, vs.vs_steps(), [int(tr[i]) for i in range(nt)], hung


PROGRESS = None
POINT_LIMIT = 300       # above this many scheduling points per execution the preemption positions are thinned


def note_progress(name, start, plan):
    if PROGRESS:
        with open(PROGRESS, "w") as fh:
            json.dump({"workload": name, "start": start, "plan": plan}, fh)


THIN_TO = int(os.environ.get("VSCHED_THIN", "300"))


def positions(g):
    """preemption positions explored for an execution with g scheduling points: all of them up to POINT_LIMIT,
    otherwise the first and last quarter of THIN_TO positions and an even stride in between (a stated, completely
    enumerated subset; reported as a cap)"""
    if g <= POINT_LIMIT:
        return list(range(g)), False
    e = max(2, THIN_TO // 4)
    mid = range(e, g - e, max(1, (g - 2 * e) // max(1, THIN_TO - 2 * e)))
    return sorted(set(list(range(e)) + list(mid) + list(range(g - e, g)))), True


def explore(name, bodies, bound):
    solo, conflicts, stats = solo_record(bodies)
    res = {"workload": name, "solo": solo, "stats": stats, "conflict_granules": len(conflicts),
           "schedules": 0, "points_per_execution": 0, "failures": [], "outcomes": {}, "caps": []}
    arr = (ctypes.c_uint64 * max(len(conflicts), 1))(*conflicts)
    vs.vs_set_conflicts(arr, len(conflicts))

    def one(start, plan):
        note_progress(name, start, plan)
        out, steps, trace, hung = run_plan(bodies, start, plan)
        res["schedules"] += 1
        res["points_per_execution"] = max(res["points_per_execution"], steps)
        key = json.dumps([out.get(0), out.get(1)])
        if len(res["outcomes"]) < 50 or key in res["outcomes"]:
            res["outcomes"][key] = res["outcomes"].get(key, 0) + 1
        if hung:
            res["failures"].append({"start": start, "plan": plan, "what": "hung (deadlock under the baton)"})
            raise SystemExit("hung")
        if out.get(0) != solo[0] or out.get(1) != solo[1]:
            if len(res["failures"]) < 3:
                res["failures"].append({"start": start, "plan": plan, "trace": trace[:64],
                                        "got": [out.get(0), out.get(1)], "expected": [solo[0], solo[1]]})
            res["failing_schedules"] = res.get("failing_schedules", 0) + 1
        return steps

    if not conflicts:
        one(0, [])          # single representative of the only Mazurkiewicz class
        res["reduced"] = True
        return res
    res["reduced"] = False
    g0 = {}
    for start in (0, 1):
        g0[start] = one(start, [])
    g1 = {}
    if bound >= 1:                      # all single preemptions first (smallest counter-examples first)
        for start in (0, 1):
            pos, thinned = positions(g0[start])
            if thinned:
                res["caps"].append("%s: %d scheduling points per execution; single-preemption positions thinned to %d"
                                   % (name, g0[start], len(pos)))
            for s1 in pos:
                g1[(start, s1)] = one(start, [s1])
    if bound >= 2:
        for start in (0, 1):
            if g0[start] > POINT_LIMIT:
                res["caps"].append("%s: two-preemption schedules not explored (%d points per execution)" % (name, g0[start]))
                continue
            for s1 in range(g0[start]):
                for s2 in range(s1 + 1, g1[(start, s1)]):
                    one(start, [s1, s2])
    res["caps"] = sorted(set(res["caps"]))
    return res


def main():
    global PROGRESS
    out = sys.argv[1]
    PROGRESS = out + ".progress"
    warm()
    W = workloads()
    results = []
    if sys.argv[2] == "replay":
        name, start, plan = sys.argv[3], int(sys.argv[4]), [int(x) for x in sys.argv[5].split(",") if x]
        bodies = W[name]
        solo, conflicts, stats = solo_record(bodies)
        arr = (ctypes.c_uint64 * max(len(conflicts), 1))(*conflicts)
        vs.vs_set_conflicts(arr, len(conflicts))
        o, steps, trace, hung = run_plan(bodies, start, plan)
        results.append({"workload": name, "solo": solo, "got": [o.get(0), o.get(1)], "steps": steps,
                        "fails": o.get(0) != solo[0] or o.get(1) != solo[1] or hung})
    else:
        bound = int(sys.argv[2])
        for name in sys.argv[3:]:
            t0 = time.time()
            r = explore(name, W[name], bound)
            r["wall_s"] = round(time.time() - t0, 2)
            results.append(r)
            with open(out + ".partial", "w") as fh:     # survives a crash in a later workload
                json.dump(results, fh)
    with open(out, "w") as fh:
        json.dump(results, fh)


if __name__ == "__main__":
    main()
