"""SchedExplorer (Python level): CHESS-style iterative preemption bounding over real threads.

Threads are real `threading.Thread`s executed one at a time under a baton.  Scheduling points are
(a) 'line' trace events inside the functions named in `points` (filename suffix, function name or "*" for every function of the file) and
(b) operations of `SchedRLock`, the scheduler-aware replacement for library locks.
An *execution* is determined by its list of choices (index into the canonical enabled list at every
point: the running thread first if still enabled, then ascending ids).  `explore()` enumerates all
executions with at most `bound` preemptions (switching away from a thread that is still enabled).
Every execution runs to completion; "no enabled thread while some are unfinished" is a deadlock.
"""
import sys
import threading


class Deadlock(Exception):
    pass


class ReplayDivergence(Exception):
    pass


class SchedRLock:
    """Re-entrant lock whose blocking is visible to the scheduler."""

    def __init__(self, sched):
        self.s = sched
        self.owner = None
        self.depth = 0

    def acquire(self, blocking=True, timeout=-1):
        s = self.s
        tid = s.current_tid()
        if tid is None:                       # not under the scheduler (set-up code)
            self.owner, self.depth = "main", self.depth + 1
            return True
        s.point(tid, "lock.acquire")
        while not (self.owner is None or self.owner == tid):
            s.block(tid, self)
        self.owner = tid
        self.depth += 1
        s.log.append(("acq", tid))
        return True

    def release(self):
        s = self.s
        tid = s.current_tid()
        self.depth -= 1
        if self.depth == 0:
            self.owner = None
            if tid is not None:
                s.unblock(self)
        if tid is not None:
            s.point(tid, "lock.release")

    __enter__ = acquire

    def __exit__(self, *a):
        self.release()


class Execution:
    def __init__(self):
        self.points = []     # per point: dict(enabled=[tids], running=tid|None, running_enabled=bool, chosen=idx)
        self.choices = []
        self.results = {}
        self.errors = {}
        self.deadlock = False
        self.log = []


class Scheduler:
    """One scheduling decision is taken at every point; the decision sequence of an execution is `choices`.
    A thread that is told to continue (choice 0 while it is still enabled) simply goes on: control is handed to the
    controller only when the decision is to switch, or when the thread blocks or ends - an execution with p points and
    k switches costs k hand-offs, not p."""

    def __init__(self, points):
        """points: set of (filename_suffix, funcname | "*")"""
        self.points_spec = points
        self._code_cache = {}
        self.reset([])

    # -- per execution state ----------------------------------------------------
    def reset(self, prefix):
        self.prefix = list(prefix)
        self.ex = Execution()
        self.log = self.ex.log
        self.sems = {}
        self.state = {}          # tid -> 'ready' | 'blocked' | 'done'
        self.blocked_on = {}
        self.tids = {}
        self.ctl = threading.Semaphore(0)
        self.switch_to = None

    def current_tid(self):
        return self.tids.get(threading.get_ident())

    def _decide(self, running):
        """record one scheduling point and return the thread to run next (None: nothing enabled)"""
        ex = self.ex
        enabled = [t for t in sorted(self.state) if self.state[t] == "ready"]
        if not enabled:
            return None
        running_enabled = running in enabled
        order = ([running] if running_enabled else []) + [t for t in enabled if t != running]
        i = len(ex.points)
        if i < len(self.prefix):
            c = self.prefix[i]
            if c >= len(order):
                raise ReplayDivergence("choice %d out of range (%d enabled) at point %d" % (c, len(order), i))
        else:
            c = 0
        ex.points.append({"enabled": order, "running_enabled": running_enabled, "chosen": c})
        ex.choices.append(c)
        return order[c]

    # -- called from worker threads ------------------------------------------------
    def _yield(self, tid):
        """give control to the controller and wait to be scheduled again"""
        self.ctl.release()
        self.sems[tid].acquire()

    def point(self, tid, why):
        if self.state.get(tid) != "ready":
            return
        try:
            nxt = self._decide(tid)
        except ReplayDivergence as e:
            self.ex.errors[tid] = "ReplayDivergence: %s" % e
            nxt = tid
        if nxt == tid:
            return
        self.switch_to = nxt
        self._yield(tid)

    def block(self, tid, lock):
        self.state[tid] = "blocked"
        self.blocked_on[tid] = lock
        self._yield(tid)

    def unblock(self, lock):
        for t, l in list(self.blocked_on.items()):
            if l is lock:
                self.state[t] = "ready"
                del self.blocked_on[t]

    def _trace(self, frame, event, arg):
        co = frame.f_code
        hit = self._code_cache.get(co)
        if hit is None:
            hit = any(co.co_filename.endswith(fn) and (name == "*" or co.co_name == name) for fn, name in self.points_spec)
            self._code_cache[co] = hit
        if not hit:
            return None
        return self._trace_lines

    def _trace_lines(self, frame, event, arg):
        if event == "line":
            tid = self.tids.get(threading.get_ident())
            if tid is not None:
                self.point(tid, frame.f_lineno)
        return self._trace_lines

    def _thread_main(self, tid, fn):
        self.tids[threading.get_ident()] = tid
        self.sems[tid].acquire()             # wait for first scheduling
        sys.settrace(self._trace)
        try:
            self.ex.results[tid] = fn()
        except BaseException as e:  # noqa
            self.ex.errors[tid] = "%s: %s" % (type(e).__name__, e)
        finally:
            sys.settrace(None)
            self.state[tid] = "done"
            self.tids.pop(threading.get_ident(), None)
            self.ctl.release()

    # -- controller -------------------------------------------------------------------
    def run(self, fns, prefix):
        """run one execution; fns: list of callables (thread bodies)"""
        self.reset(prefix)
        ex = self.ex
        threads = []
        for tid, fn in enumerate(fns):
            self.sems[tid] = threading.Semaphore(0)
            self.state[tid] = "ready"
            t = threading.Thread(target=self._thread_main, args=(tid, fn), daemon=True)
            threads.append(t)
            t.start()
        running = None
        while True:
            if self.switch_to is not None:           # the running thread decided (at a point) to hand over
                running, self.switch_to = self.switch_to, None
            else:                                    # start, or the running thread ended or blocked
                running = self._decide(running)
                if running is None:
                    if any(st == "blocked" for st in self.state.values()):
                        ex.deadlock = True
                    break
            self.sems[running].release()
            # wait until that thread hands over / finishes / blocks; a thread that never does is waiting on something the
            # scheduler does not own (a real lock held by a parked thread) or loops for ever
            if not self.ctl.acquire(timeout=300):
                raise Deadlock("thread %d did not reach a scheduling point within 300 s (after %d points)" % (running, len(ex.points)))
        for t in threads:
            t.join(timeout=5)
        return ex


def explore(sched, mk_fns, bound, check, on_execution=None, max_executions=None):
    """Enumerate all executions with <= bound preemptions.  mk_fns() -> fresh list of thread bodies
    (also resets shared state).  check(ex) is called for every execution.  Returns count."""
    count = [0]
    capped = [False]

    def preemptions_before(ex, i):
        n = 0
        for p in ex.points[:i]:
            if p["running_enabled"] and p["chosen"] != 0:
                n += 1
        return n

    def rec(prefix):
        if max_executions is not None and count[0] >= max_executions:
            capped[0] = True
            return
        ex = sched.run(mk_fns(), prefix)
        count[0] += 1
        check(ex)
        if on_execution:
            on_execution(ex)
        for i in range(len(prefix), len(ex.points)):
            p = ex.points[i]
            cost = preemptions_before(ex, i)
            for alt in range(1, len(p["enabled"])):
                c2 = cost + (1 if p["running_enabled"] else 0)
                if c2 > bound:
                    continue
                rec(ex.choices[:i] + [alt])

    rec([])
    return count[0], capped[0]
