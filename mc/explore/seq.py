"""SeqExplorer: stateless explicit-state exploration of operation histories.

A *model* provides `alphabet` (list of hashable ops, simplest first) and `fresh()` returning a
*pair* object that owns one real library object and the reference state.  `pair.apply(op)`
executes the call on the real object, computes what the reference allows, compares, advances the
reference, and returns a `Step`.  The explorer enumerates **every** history up to `depth`
(complete tree, no state merging: native objects cannot be hashed and merging on the reference
state would hide exactly the hidden-state bugs looked for).  Each node is reached by replaying its
prefix on a fresh pair (prefix replay must reproduce the recorded observations: a divergence is a
harness error, never a violation).  Deviation bounding: a step flagged `deviation` (a call the
reference classifies as forbidden) counts against `max_dev`; deeper passes explore longer histories
with few deviations.
"""
from ..common import Acc, short


class Step:
    __slots__ = ("ok", "key", "what", "closed", "deviation", "obs", "before", "after")

    def __init__(self, ok=True, key=None, what=None, closed=False, deviation=False, obs=None,
                 before=None, after=None):
        self.before = before        # reference state label before the call
        self.after = after          # abstract reference state after the call (hashable)
        self.ok = ok                # real observation allowed by the reference
        self.key = key              # violation key suffix when not ok
        self.what = what
        self.closed = closed        # no continuation defined after this step
        self.deviation = deviation
        self.obs = obs              # canonical observation class (hashable, small)


def run_history(model, hist, acc=None, record=None):
    """Run one history on a fresh pair.  Returns list of Steps (stops at first failure/closure)."""
    pair = model.fresh()
    steps = []
    for op in hist:
        st = pair.apply(op)
        steps.append(st)
        if acc is not None:
            acc.count("transitions")
        if not st.ok or st.closed:
            break
    return pair, steps


def explore(model, depth, acc, prefix=(), max_dev=None, min_report_depth=0):
    """Enumerate all histories extending `prefix` up to total length `depth`."""
    name = model.name

    def viol(hist, st):
        acc.violation("C%s/%s/%s" % (model.prop, name, st.key),
                      "%s: history %s : %s" % (name, fmt_hist(hist), st.what),
                      {"model": model.spec, "history": [list(o) if isinstance(o, tuple) else o for o in hist]},
                      size=len(hist))

    # validate the prefix itself first
    pair, steps = run_history(model, prefix, acc)
    ndev = sum(1 for s in steps if s.deviation)
    if steps and (not steps[-1].ok):
        viol(prefix[:len(steps)], steps[-1])
        return
    if steps and (steps[-1].closed or len(steps) < len(prefix)):
        return
    rec = [s.obs for s in steps]

    def dfs(hist, rec, ndev, after):
        acc.count("states")
        acc.seen("refstates", (name, after))
        if len(hist) >= depth:
            acc.count("traces")
            return
        leaf = True
        for op in model.alphabet:
            pair = model.fresh()
            # replay prefix
            for i, o in enumerate(hist):
                s = pair.apply(o)
                acc.count("transitions")
                if s.obs != rec[i] or not s.ok:
                    acc.error("nondeterministic replay of %s at step %d: %r vs %r"
                              % (fmt_hist(hist), i, s.obs, rec[i]))
                    return
            st = pair.apply(op)
            acc.count("transitions")
            h2 = hist + (op,)
            acc.seen("classes", (name, st.before, opname(op), st.obs if st.ok else ("BAD", st.key)))
            if not st.ok:
                viol(h2, st)
                acc.count("traces")
                continue
            d2 = ndev + (1 if st.deviation else 0)
            if max_dev is not None and d2 > max_dev:
                continue
            if st.closed:
                acc.count("states")
                acc.count("traces")
                continue
            leaf = False
            dfs(h2, rec + [st.obs], d2, st.after)
        if leaf:
            acc.count("traces")

    dfs(tuple(prefix), rec, ndev, steps[-1].after if steps else "init")


def opname(op):
    return op[0] if isinstance(op, tuple) else op


def fmt_hist(hist):
    out = []
    for op in hist:
        if isinstance(op, tuple):
            out.append("%s(%s)" % (op[0], ",".join(short(a, 12) if not isinstance(a, str) else a for a in op[1:])))
        else:
            out.append(str(op))
    return " ; ".join(out) if out else "<empty>"
