"""Scratch build of /repo's *current working tree*.

Every check works on a private copy of the tree under /var/tmp (never /repo,
never /tmp).  Python sources are always copied fresh.  The compiled extensions
are a pure function of (src/**, setup.py, compiler_opt.py, flavour); they are
rebuilt unless an identical input set was compiled before, in which case the
.so files are taken from a content-addressed cache under /var/tmp (the cache is
an optimisation only: nothing needs it to exist).
"""
import hashlib
import os
import shutil
import subprocess
import sys
import time

REPO = os.environ.get("VERIF_REPO", "/repo")
VERIF = os.path.dirname(os.path.dirname(os.path.abspath(__file__)))
SCRATCH_ROOT = os.environ.get("VERIF_SCRATCH", "/var/tmp")
CACHE = os.path.join(SCRATCH_ROOT, "verif-socache")
PY = "/venv/bin/python"
GUARD = "PYCRYPTODOME_VERIF"

FLAVOURS = {
    "normal": {},
    "asan": {
        "CC": "clang",
        "LDSHARED": "clang -shared",
        "CFLAGS": "-fsanitize=address -fno-omit-frame-pointer -g -O1",
        "LDFLAGS": "-fsanitize=address -shared-libasan",
    },
    "sched": {
        "CC": os.path.join(VERIF, "mc", "native", "vcc"),
        "LDSHARED": os.path.join(VERIF, "mc", "native", "vcc") + " -shared",
    },
    "fault": {
        "CC": os.path.join(VERIF, "mc", "native", "vfcc"),
        "LDSHARED": os.path.join(VERIF, "mc", "native", "vfcc") + " -shared",
    },
}


class BuildError(Exception):
    pass


def _src_hash(flavour):
    h = hashlib.sha256()
    h.update(flavour.encode())
    h.update(sys.version.encode())
    files = []
    for root, dirs, fs in os.walk(os.path.join(REPO, "src")):
        dirs.sort()
        for f in sorted(fs):
            files.append(os.path.join(root, f))
    for f in ("setup.py", "compiler_opt.py", "setup.cfg", "pyproject.toml"):
        files.append(os.path.join(REPO, f))
    if flavour == "sched":
        for f in ("vcc", "vsched.c"):
            files.append(os.path.join(VERIF, "mc", "native", f))
    if flavour == "fault":
        files.append(os.path.join(VERIF, "mc", "native", "vfcc"))
    for f in files:
        if not os.path.isfile(f):
            continue
        h.update(os.path.relpath(f, REPO).encode() + b"\0")
        with open(f, "rb") as fh:
            h.update(hashlib.sha256(fh.read()).digest())
    return h.hexdigest()[:32]


def _copy_tree(dst):
    # lib/ (python only), src/, setup files.  No .git, build/, test_vectors, Doc.
    def ign(d, names):
        return [n for n in names
                if n.endswith(".so") or n == "__pycache__" or n.endswith(".pyc")]
    os.makedirs(dst)
    shutil.copytree(os.path.join(REPO, "lib"), os.path.join(dst, "lib"), ignore=ign)
    shutil.copytree(os.path.join(REPO, "src"), os.path.join(dst, "src"), ignore=ign)
    for f in ("setup.py", "compiler_opt.py", "setup.cfg", "pyproject.toml",
              "README.rst", "MANIFEST.in", "LICENSE.rst"):
        p = os.path.join(REPO, f)
        if os.path.isfile(p):
            shutil.copy2(p, os.path.join(dst, f))


def _so_list(root):
    out = []
    for r, d, fs in os.walk(os.path.join(root, "lib")):
        for f in fs:
            if f.endswith(".so"):
                out.append(os.path.relpath(os.path.join(r, f), root))
    return sorted(out)


def build(tag, flavour="normal", use_cache=True, log=None):
    """Return path of a fresh scratch tree with compiled extensions."""
    t0 = time.time()
    dst = os.path.join(SCRATCH_ROOT, "verif-%s-%d" % (tag, os.getpid()))
    if os.path.exists(dst):
        shutil.rmtree(dst)
    _copy_tree(dst)
    key = _src_hash(flavour)
    cdir = os.path.join(CACHE, key)
    cached = False
    if use_cache and os.path.isfile(os.path.join(cdir, "COMPLETE")):
        try:
            for rel in open(os.path.join(cdir, "COMPLETE")).read().split("\n"):
                if rel:
                    shutil.copy2(os.path.join(cdir, rel.replace("/", "__")),
                                 os.path.join(dst, rel))
            cached = True
        except OSError:
            cached = False
    if not cached:
        env = dict(os.environ)
        env.update(FLAVOURS[flavour])
        env.pop("PYTHONPATH", None)
        env.pop("LD_PRELOAD", None)            # a driver that runs under a sanitizer runtime must not compile under it
        if flavour == "sched":
            env["VSCHED_DIR"] = os.path.join(VERIF, "mc", "native")
        lf = os.path.join(dst, "build.log")
        with open(lf, "w") as fh:
            r = subprocess.run([PY, "setup.py", "build_ext", "--inplace", "-j16"],
                               cwd=dst, env=env, stdout=fh, stderr=subprocess.STDOUT,
                               stdin=subprocess.DEVNULL)
        sos = _so_list(dst)
        if r.returncode != 0 or len(sos) < 40:
            tail = open(lf).read()[-3000:]
            raise BuildError("build of %s (%s) failed rc=%d, %d .so\n%s"
                             % (REPO, flavour, r.returncode, len(sos), tail))
        shutil.rmtree(os.path.join(dst, "build"), ignore_errors=True)
        if use_cache:
            try:
                tmp = cdir + ".tmp%d" % os.getpid()
                os.makedirs(tmp, exist_ok=True)
                for rel in sos:
                    shutil.copy2(os.path.join(dst, rel),
                                 os.path.join(tmp, rel.replace("/", "__")))
                with open(os.path.join(tmp, "COMPLETE"), "w") as fh:
                    fh.write("\n".join(sos))
                os.makedirs(CACHE, exist_ok=True)
                if not os.path.exists(cdir):
                    os.rename(tmp, cdir)
                else:
                    shutil.rmtree(tmp, ignore_errors=True)
            except OSError:
                pass
    info = {"scratch": dst, "flavour": flavour, "cached_objects": cached,
            "src_hash": key, "build_s": round(time.time() - t0, 2),
            "extensions": len(_so_list(dst))}
    return dst, info


def cleanup(dst):
    if dst and dst.startswith(SCRATCH_ROOT) and "verif-" in dst:
        shutil.rmtree(dst, ignore_errors=True)


def prune_cache(keep=6):
    try:
        ents = sorted((os.path.getmtime(os.path.join(CACHE, e)), e)
                      for e in os.listdir(CACHE))
        for _, e in ents[:-keep]:
            shutil.rmtree(os.path.join(CACHE, e), ignore_errors=True)
    except OSError:
        pass
