"""Key fixtures.  Components are stored in /verif/data/keys.json (generated once with
`python -m mc.keys`, deterministic seeded entropy) so that checks do not spend their
budget on prime generation.  They are inputs, not oracles: every use re-validates what
it relies on (the library's own consistency check on construct, plus the reference
invariant checkers in the drivers that need them)."""
import hashlib
import json
import os

DATA = os.path.join(os.path.dirname(os.path.dirname(os.path.abspath(__file__))), "data", "keys.json")
_cache = {}
_db = None


class Stream:
    """deterministic byte stream usable as randfunc"""
    def __init__(self, label):
        self.label = label.encode() if isinstance(label, str) else label
        self.ctr = 0

    def __call__(self, n):
        out = b""
        while len(out) < n:
            out += hashlib.sha512(self.label + b"|%d" % self.ctr).digest()
            self.ctr += 1
        return out[:n]


def _load():
    global _db
    if _db is None:
        _db = json.load(open(DATA)) if os.path.isfile(DATA) else {}
    return _db


def rsa_components(bits, e=65537):
    return {k: int(v) for k, v in _load()["rsa-%d-%d" % (bits, e)].items()}


def rsa_key(bits, e=65537):
    from Crypto.PublicKey import RSA
    k = ("rsa", bits, e)
    if k not in _cache:
        c = rsa_components(bits, e)
        _cache[k] = RSA.construct((c["n"], c["e"], c["d"], c["p"], c["q"]), consistency_check=True)
    return _cache[k]


def dsa_components(L, N=None):
    db = _load()
    name = "dsa-%d-%d" % (L, N) if N else [n for n in sorted(db) if n.startswith("dsa-%d-" % L)][0]
    return {k: int(v) for k, v in db[name].items()}


def dsa_key(L, N=None):
    from Crypto.PublicKey import DSA
    k = ("dsa", L, N)
    if k not in _cache:
        c = dsa_components(L, N)
        _cache[k] = DSA.construct((c["y"], c["g"], c["p"], c["q"], c["x"]), consistency_check=True)
    return _cache[k]


def _gen_rsa_odd(bits, e, label):
    """RSA key whose modulus has exactly `bits` bits, for bit lengths RSA.generate refuses
    (not multiples of 8 are fine for generate; it only demands >= 1024)."""
    from Crypto.PublicKey import RSA
    return RSA.generate(bits, randfunc=Stream(label), e=e)


def generate_all():
    from Crypto.PublicKey import RSA, DSA
    db = {}
    for bits in (1024, 1025, 1031, 1032, 2048):
        for e in (3, 65537):
            k = RSA.generate(bits, randfunc=Stream("rsa%d-%d" % (bits, e)), e=e)
            assert k.n.bit_length() == bits
            db["rsa-%d-%d" % (bits, e)] = {c: str(getattr(k, c)) for c in ("n", "e", "d", "p", "q")}
            print("rsa", bits, e)
    k = RSA.generate(1024, randfunc=Stream("rsa-bige"), e=2 ** 32 + 15)
    db["rsa-1024-%d" % (2 ** 32 + 15)] = {c: str(getattr(k, c)) for c in ("n", "e", "d", "p", "q")}
    for L, N in ((1024, 160), (2048, 224), (2048, 256), (3072, 256)):
        # DSA.generate picks N from L; build domain for the other N via explicit domain is not
        # offered, so (2048,224) comes from FIPS generation with a private helper.
        if (L, N) == (2048, 224):
            dom = DSA._generate_domain(L, Stream("dsa%d-%d" % (L, N))) if False else None
        k = DSA.generate(L, randfunc=Stream("dsa%d-%d" % (L, N)))
        if k.q.bit_length() != N:
            print("skip dsa", L, N, "library generates N=%d" % k.q.bit_length())
            continue
        db["dsa-%d-%d" % (L, N)] = {c: str(getattr(k, c)) for c in ("p", "q", "g", "y", "x")}
        print("dsa", L, N)
    os.makedirs(os.path.dirname(DATA), exist_ok=True)
    with open(DATA, "w") as fh:
        json.dump(db, fh, indent=0, sort_keys=True)


if __name__ == "__main__":
    generate_all()
