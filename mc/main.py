"""./check <PROP> <quick|thorough> [--replay FILE] [--keep] [--no-cache]

Builds a scratch copy of /repo's working tree, runs the property driver in it,
confirms every violation by replaying it twice from its replay file in fresh
processes, matches violations against known_findings.json, writes the evidence
file and prints the verdict lines.
"""
import fnmatch
import hashlib
import importlib
import json
import os
import subprocess
import sys
import tempfile
import time

from . import build

VERIF = build.VERIF
PY = build.PY


def _env(scratch, extra=None):
    env = dict(os.environ)
    env["PYTHONPATH"] = os.path.join(scratch, "lib") + os.pathsep + VERIF
    env["PYTHONHASHSEED"] = "0"
    env["PYTHONDONTWRITEBYTECODE"] = "1"
    env[build.GUARD] = "1"
    env.setdefault("VERIF_SEED", "0")
    if extra:
        env.update(extra)
    return env


def load_known(prop):
    p = os.path.join(VERIF, "known_findings.json")
    if not os.path.isfile(p):
        return []
    return [f for f in json.load(open(p))["findings"] if f["property"] == prop]


def match_known(known, key):
    """exact match, or glob match where only '*' is a wildcard (keys contain literal brackets)"""
    for f in known:
        if f.get("status") != "known":
            continue
        pat = f["key"].replace("[", "[[]").replace("?", "[?]")
        if key == f["key"] or fnmatch.fnmatchcase(key, pat):
            return f
    return None


def run_replay(prop, scratch, replay_file, extra_env=None):
    fd, out = tempfile.mkstemp(prefix="vreplay", suffix=".json", dir=scratch)
    os.close(fd)
    r = subprocess.run([PY, "-m", "mc.driver", "replay", prop, scratch, replay_file, out],
                       cwd=VERIF, env=_env(scratch, extra_env), stdin=subprocess.DEVNULL,
                       stdout=subprocess.PIPE, stderr=subprocess.STDOUT, timeout=1800)
    try:
        res = json.load(open(out))
    except Exception:
        res = {"keys": [], "errors": ["replay produced no result: rc=%d %s"
                                      % (r.returncode, r.stdout.decode(errors="replace")[-2000:])]}
    os.unlink(out)
    return res


def main(argv):
    if len(argv) < 2:
        print(__doc__)
        return 3
    prop = argv[0].upper()
    rest = argv[1:]
    tier = os.environ.get("VERIF_TIER") or "quick"
    if rest and rest[0] in ("quick", "thorough"):
        tier = rest.pop(0)
    replay = None
    keep = "--keep" in rest
    use_cache = "--no-cache" not in rest
    if "--replay" in rest:
        replay = os.path.abspath(rest[rest.index("--replay") + 1])
    seed = int(os.environ.get("VERIF_SEED", "0") or 0)
    t0 = time.time()
    try:
        mod = importlib.import_module("mc.props." + prop.lower())
    except ImportError as e:
        print("harness error: no driver for %s (%s)" % (prop, e))
        return 3
    flavour = getattr(mod, "FLAVOUR", "normal")
    extra_env = getattr(mod, "ENV", None)
    if callable(extra_env):
        extra_env = extra_env()
    try:
        scratch, binfo = build.build(prop, flavour, use_cache)
    except build.BuildError as e:
        print("harness error: %s" % e)
        return 3
    try:
        return _main2(prop, tier, seed, replay, scratch, binfo, mod, extra_env, t0)
    finally:
        if not keep:
            build.cleanup(scratch)
        else:
            print("kept scratch tree", scratch)


def _main2(prop, tier, seed, replay, scratch, binfo, mod, extra_env, t0):
    known = load_known(prop)
    if replay:
        res = run_replay(prop, scratch, replay, extra_env)
        if res["errors"]:
            print("harness error during replay:\n" + "\n".join(res["errors"]))
            return 3
        if res["keys"]:
            for k in res["keys"]:
                print("REPRODUCED key=%s :: %s" % (k, res["what"][k]))
                print("VIOLATION property=%s replay=%s" % (prop, replay))
            return 1
        print("replay of %s: property holds on this tree" % replay)
        return 0

    out = os.path.join(scratch, "result.json")
    logf = os.path.join(scratch, "driver.log")
    with open(logf, "w") as lf:
        r = subprocess.run([PY, "-m", "mc.driver", "run", prop, tier, scratch, out],
                           cwd=VERIF, env=_env(scratch, extra_env), stdin=subprocess.DEVNULL,
                           stdout=lf, stderr=subprocess.STDOUT)
    log = open(logf).read()
    if log.strip():
        sys.stdout.write(log[-6000:] + ("\n" if not log.endswith("\n") else ""))
    if not os.path.isfile(out):
        print("harness error: driver produced no result (rc=%d)" % r.returncode)
        return 3
    res = json.load(open(out))

    # ---- confirm + classify violations -------------------------------------
    rdir = os.path.join(VERIF, "replays", prop)
    new, knownhits, flaky = [], [], []
    for v in res["violations"]:
        key = v["key"]
        os.makedirs(rdir, exist_ok=True)
        h = hashlib.sha256(key.encode()).hexdigest()[:12]
        rf = os.path.join(rdir, h + ".json")
        with open(rf, "w") as fh:
            json.dump({"property": prop, "key": key, "what": v["what"], "case": v["case"],
                       "failing_cases_in_run": v.get("cases", 1)}, fh, indent=1)
        if v.get("script"):
            with open(os.path.join(rdir, h + ".py"), "w") as fh:
                fh.write(v["script"])
        ok = 0
        errs = []
        for _ in range(2):
            rr = run_replay(prop, scratch, rf, extra_env)
            errs += rr["errors"]
            if key in rr["keys"]:
                ok += 1
        if ok == 2:
            f = match_known(known, key)
            (knownhits if f else new).append((v, rf, f))
        else:
            flaky.append((v, rf, ok, errs))

    nonneg = lambda d: {k: v for k, v in d.items() if not k.startswith("_")}
    cov = {}
    cov.update(nonneg(res["counters"]))
    cov.update({"distinct_" + k: v for k, v in res["distinct"].items()})
    cov.update(res["coverage_extra"])
    cov.setdefault("rule", res.get("rule", ""))
    cov["samples"] = res["samples"] or cov.get("samples", [])
    cov["caps_hit"] = res["caps"]
    cov["observations"] = res["observations"]
    cov["known_findings_observed"] = sorted(v["key"] for v, _, _ in knownhits)
    cov["new_violation_keys"] = sorted(v["key"] for v, _, _ in new)
    cov["build"] = {k: binfo[k] for k in ("flavour", "src_hash", "extensions", "cached_objects")}
    cov["cpu_s"] = round(res["counters"].get("_cpu_s", 0), 1)
    ev = {
        "property_id": prop, "tier": tier, "seed": seed, "level": res["level"],
        "coverage": cov, "assumptions": res["assumptions"],
        "wall_s": round(time.time() - t0, 2), "violations": len(new),
    }
    # runs against another tree than /repo (seeded changes) must not overwrite the evidence of /repo
    evdir = os.path.join(VERIF, "evidence") if build.REPO == "/repo" else os.path.join(VERIF, "evidence", "_other_tree")
    os.makedirs(evdir, exist_ok=True)
    evf = os.path.join(evdir, prop + ".json")
    with open(evf + ".tmp", "w") as fh:
        json.dump(ev, fh, indent=1, sort_keys=True)
    os.replace(evf + ".tmp", evf)

    # ---- verdict -------------------------------------------------------------
    head = "%s %s seed=%d: " % (prop, tier, seed)
    keys = ("evaluations", "states", "transitions", "traces_validated_against_impl",
            "distinct_nontrivial", "exhaustive")
    print(head + " ".join("%s=%s" % (k, cov[k]) for k in keys if k in cov)
          + " wall=%.1fs" % (time.time() - t0))
    for v, rf, f in knownhits:
        print("KNOWN-FINDING: property=%s %s [key=%s, %d failing cases, replay=%s]"
              % (prop, f["what"], v["key"], v.get("cases", 1), rf))
    rc = 0
    if res["errors"] or flaky:
        for e in res["errors"]:
            print("harness error: " + e)
        for v, rf, ok, errs in flaky:
            print("harness error: violation %s did not replay deterministically (%d/2) %s"
                  % (v["key"], ok, "; ".join(errs)[-800:]))
        rc = 3
    for v, rf, _ in new:
        print("  %s :: %s (%d failing cases)" % (v["key"], v["what"], v.get("cases", 1)))
        print("VIOLATION property=%s replay=%s" % (prop, rf))
        rc = 1
    return rc


if __name__ == "__main__":
    sys.exit(main(sys.argv[1:]))
