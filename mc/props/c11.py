"""C11 - no keystream block or nonce is used twice in one object; limits are enforced.

Explicit-state exploration over *positions*: CTR counter layouts x initial values x call patterns
crossing the wrap limit (complete for counter widths 1 and 2, width 3 in thorough, zero-crossing
windows for widths 4..16), all ChaCha20 {seek, encrypt} histories over boundary positions up to a
depth bound, CCM message-length limits, HPKE per-message nonces.  Oracle: reference counter/keystream
sequence for every byte returned; an exception exactly when the next block would repeat.
"""
import itertools

from ..common import Acc, short, seeded, chunks
from ..ref import aes as RAES
from ..ref import des as RDES
from ..ref import chacha as RCH
from ..ref import modes as RM

LEVEL = "model_checking"
RULE = ("CTR: every (layout, endianness, initial value, call pattern) of the stated grids, each a history of encrypt() "
        "calls up to and across the wrap limit; ChaCha20: every history over {seek(pos), encrypt(n)} with boundary "
        "positions/lengths up to the stated depth (prefix replay on fresh objects); states = positions/histories reached, "
        "transitions = calls on real objects, traces = complete histories compared byte-for-byte with the reference")
BUDGET = {"quick": 200, "thorough": 2400}

KEY16 = bytes(range(16))
KEY32 = bytes(range(32, 64))
KEY24 = bytes(range(1, 25))


def excname(fn, *a, **kw):
    try:
        return ("ok", fn(*a, **kw))
    except Exception as e:  # noqa
        return ("exc", type(e).__name__)


# ---------------------------------------------------------------------------
# CTR
# ---------------------------------------------------------------------------
def _mk_ctr(cipher, layout, w, iv, little):
    """-> (real cipher object, prefix, suffix)"""
    from Crypto.Cipher import AES, DES3
    from Crypto.Util import Counter
    mod, key, bs = (AES, KEY16, 16) if cipher == "AES" else (DES3, KEY24, 8)
    fill = bytes(range(0xA0, 0xA0 + bs))
    if layout == "nonce":
        if little:
            return None
        pre, suf = fill[:bs - w], b""
        return mod.new(key, mod.MODE_CTR, nonce=pre, initial_value=iv), pre, suf
    if layout == "nonce-bytes-iv":
        if little:
            return None
        pre, suf = fill[:bs - w], b""
        return mod.new(key, mod.MODE_CTR, nonce=pre, initial_value=iv.to_bytes(w, "big")), pre, suf
    if layout == "prefix":
        pre, suf = fill[:bs - w], b""
    elif layout == "suffix":
        pre, suf = b"", fill[:bs - w]
    elif layout == "both":
        pre, suf = fill[:(bs - w) // 2], fill[8:8 + (bs - w) - (bs - w) // 2]
    else:
        raise ValueError(layout)
    if len(pre) + len(suf) + w != bs:
        return None
    ctr = Counter.new(8 * w, prefix=pre, suffix=suf, initial_value=iv, little_endian=little)
    return mod.new(key, mod.MODE_CTR, counter=ctr), pre, suf


def _ecb(cipher):
    from Crypto.Cipher import AES, DES3
    return AES.new(KEY16, AES.MODE_ECB) if cipher == "AES" else DES3.new(KEY24, DES3.MODE_ECB)


def _refblock(cipher):
    return RAES.AES(KEY16) if cipher == "AES" else RDES.TDES(KEY24)


def ctr_case(cipher, layout, w, iv, little, pattern, acc, deep_ref=True):
    """pattern: list of call lengths; runs them on one real object.  The reference keystream is
    E(counter block i), i = 0..2^(8w)-1; a call that needs a byte beyond block 2^(8w)-1 must raise
    OverflowError; after a failure any call returning data must return correct, never-used keystream."""
    bs = 16 if cipher == "AES" else 8
    r = _mk_ctr(cipher, layout, w, iv, little)
    if r is None:
        return
    obj, pre, suf = r
    limit = bs << (8 * w)
    case = {"part": "ctr", "cipher": cipher, "layout": layout, "w": w, "iv": iv, "little": little, "pattern": pattern}
    tag = "%s/w%d" % (cipher, w) if w <= 3 else "%s/w>=4" % cipher
    pos = 0
    failed = False
    out = []
    acc.count("traces")
    for n in pattern:
        acc.count("transitions")
        acc.count("states")
        res = excname(obj.encrypt, bytes(n))
        must_fail = pos + n > limit
        acc.seen("classes", ("ctr", cipher, w if w < 4 else 4, little, must_fail, res[0] if res[0] == "ok" else res[1], failed))
        if res[0] == "ok":
            if must_fail and n > 0:
                acc.violation("C11/CTR/%s/no-exception-at-wrap" % tag,
                              "CTR %s counter_len=%d iv=%d little=%s layout=%s: encrypt(%d) at byte %d crosses the %d-byte "
                              "limit (counter block would repeat) but returned data"
                              % (cipher, w, iv, little, layout, n, pos, limit), case, size=w * 1000 + len(pattern))
                return
            out.append((pos, res[1]))
            pos += n
        else:
            if not must_fail and not failed:
                acc.violation("C11/CTR/%s/spurious-%s" % (tag, res[1]),
                              "CTR %s counter_len=%d iv=%d little=%s layout=%s: encrypt(%d) at byte %d (limit %d) raised %s"
                              % (cipher, w, iv, little, layout, n, pos, limit, res[1]), case, size=w * 1000 + len(pattern))
                return
            if must_fail and res[1] != "OverflowError":
                acc.violation("C11/CTR/%s/wrap-raises-%s" % (tag, res[1]),
                              "CTR wrap reported as %s instead of OverflowError" % res[1], case, size=w * 1000 + len(pattern))
                return
            failed = True
    # verify every returned byte: recover counter blocks with the library's ECB decryption (fast), compare with the
    # arithmetic counter sequence; plus the independent reference cipher on the first/last blocks of each chunk
    ecb = _ecb(cipher)
    ref = _refblock(cipher)
    order = "little" if little else "big"
    mod = 1 << (8 * w)
    seen_blocks = set()
    for p, data in out:
        if not data:
            continue
        # align to blocks: need keystream for whole blocks; handle partial head/tail through the reference
        first = p // bs
        last = (p + len(data) - 1) // bs
        head_off = p - first * bs
        # full blocks strictly inside
        a = first + (1 if head_off else 0)
        b = last if (p + len(data)) % bs else last + 1        # exclusive
        if b > a:
            seg = data[(a * bs - p):(b * bs - p)]
            ctrs = ecb.decrypt(seg)
            exp = b"".join(pre + ((iv + i) % mod).to_bytes(w, order) + suf for i in range(a, b))
            acc.count("blocks_checked", b - a)
            if ctrs != exp:
                # locate first differing block
                j = next(i for i in range(b - a) if ctrs[i * bs:(i + 1) * bs] != exp[i * bs:(i + 1) * bs])
                acc.violation("C11/CTR/%s/wrong-counter-block" % tag,
                              "CTR %s counter_len=%d iv=%d little=%s layout=%s: keystream block %d is E(%s), expected E(%s)"
                              % (cipher, w, iv, little, layout, a + j, ctrs[j * bs:(j + 1) * bs].hex(), exp[j * bs:(j + 1) * bs].hex()),
                              case, size=w * 1000 + len(pattern))
                return
        # reference cipher on edge blocks (and partial head/tail)
        edges = {first, last}
        if deep_ref:
            edges |= set(range(first, min(last + 1, first + 3))) | set(range(max(first, last - 2), last + 1))
        for i in sorted(edges):
            cb = pre + ((iv + i) % mod).to_bytes(w, order) + suf
            ks = ref.encrypt_block(cb)
            lo = max(p, i * bs)
            hi = min(p + len(data), (i + 1) * bs)
            if data[lo - p:hi - p] != ks[lo - i * bs:hi - i * bs]:
                acc.violation("C11/CTR/%s/wrong-keystream" % tag,
                              "CTR %s counter_len=%d iv=%d little=%s layout=%s: bytes %d..%d are not E_ref(counter block %d)"
                              % (cipher, w, iv, little, layout, lo, hi, i), case, size=w * 1000 + len(pattern))
                return
        for i in range(first, last + 1):
            seen_blocks.add((iv + i) % mod)
    acc.seen("ctr_layouts", (cipher, layout, w, little))


def ctr_output_case(cipher, layout, iv, little, before, ask, acc):
    """Counter width 1 (256 blocks): `before` bytes are consumed, then ONE call asks for `ask` bytes with a caller-supplied
    output buffer pre-filled with a marker.  Whatever the call does (return or raise), the buffer must hold no key stream past
    the point where the counter repeats: positions past the limit keep the marker, positions below it hold the marker or
    the correct key stream for their position."""
    made = _mk_ctr(cipher, layout, 1, iv, little)
    if made is None:
        return
    c, pre, suf = made
    bs = 16 if cipher == "AES" else 8
    limit = 256 * bs
    acc.count("evaluations")
    acc.count("ctr_output_cases")
    acc.count("traces")
    acc.count("transitions", 2)
    case = {"part": "ctr-output", "cipher": cipher, "layout": layout, "iv": iv, "little": little, "before": before, "ask": ask}
    ecb = _ecb(cipher)
    ref = b"".join(ecb.encrypt(pre + bytes([(iv + i) & 255]) + suf) for i in range(256))
    try:
        if before:
            c.encrypt(bytes(before))
        buf = bytearray(b"\xa5" * ask)
        try:
            c.encrypt(bytes(ask), output=buf)
            out = "ok"
        except OverflowError:
            out = "OverflowError"
    except Exception as e:  # noqa
        acc.violation("C11/CTR-w1/output-buffer/%s" % type(e).__name__, "unexpected %r" % e, case)
        return
    acc.seen("ctr_output_classes", (cipher, layout, out, before + ask > limit))
    room = max(0, limit - before)
    what = "%s CTR, 1-byte counter (%s, iv %d): %d bytes used, then encrypt(%d bytes, output=buf) -> %s" % (cipher, layout, iv, before, ask, out)
    if (before + ask > limit) != (out == "OverflowError"):
        acc.violation("C11/CTR-w1/output-buffer/limit-not-enforced-exactly", what, case, size=ask)
        return
    past = bytes(buf[room:])
    if past.strip(b"\xa5"):
        pos = next(i for i, x in enumerate(past) if x != 0xA5) + room
        blk = bytes(buf[pos - pos % bs:pos - pos % bs + bs])
        again = ref.find(blk) if len(blk) == bs else -1
        acc.violation("C11/CTR-w1/output-buffer/keystream-past-the-limit-written",
                      "%s: the caller's buffer holds data at offset %d, past the last usable key-stream byte%s"
                      % (what, pos, " (it is the key stream of block %d again)" % (again // bs) if again >= 0 else ""), case, size=ask)
    ok = bytes(buf[:room])
    if out == "ok" and ok != ref[before:before + len(ok)]:
        acc.violation("C11/CTR-w1/output-buffer/wrong-keystream", what, case, size=ask)
    elif out != "ok":
        for i, x in enumerate(ok):
            if x != 0xA5 and x != ref[before + i]:
                acc.violation("C11/CTR-w1/output-buffer/wrong-keystream", what + ": byte %d of the buffer is neither untouched nor key stream" % i,
                              case, size=ask)
                break


def ctr_output_worker(shards):
    acc = Acc()
    for cipher, layout, iv, little in shards:
        bs = 16 if cipher == "AES" else 8
        limit = 256 * bs
        for before in (0, 1, bs, limit - 9 * bs, limit - 8 * bs, limit - bs - 1, limit - bs, limit - 1, limit):
            for ask in (1, bs - 1, bs, bs + 1, 8 * bs, 8 * bs + 1, 9 * bs, limit - before, limit - before + 1, limit + bs):
                if ask > 0:
                    ctr_output_case(cipher, layout, iv, little, before, ask, acc)
    return acc


def ctr_patterns_w1(bs):
    L = bs * 256
    return [
        [L, 1, 1],                         # exactly to the limit, then one more byte (twice)
        [L + 1, 1],                        # one call across the limit
        [bs] * 256 + [bs],                 # block by block, 257th fails
        [L - 6, 7, 6],                     # crossing inside the last block; then a call that would have fitted
        [L - 3 * bs - 5] + [1] * (3 * bs + 7),   # 1-byte calls across the limit
        [bs * 8 - 3, bs * 8 + 3, L - 16 * bs, 1],   # cuts inside the 8-block look-ahead window
        [0, L, 0, 1],                      # empty calls around the limit
    ] + [
        # the call that crosses the limit, systematically: it starts k bytes before the limit and asks for b bytes, k and b on
        # both sides of the block size and of the native 8-block key-stream batch (whole batches take their own path)
        [L - k, b, 1]
        for k in (0, 1, bs - 1, bs, bs + 1, 8 * bs - 1, 8 * bs, 8 * bs + 1, 16 * bs, 19 * bs + 3)
        for b in (1, bs - 1, bs, bs + 1, 8 * bs - 1, 8 * bs, 8 * bs + 1, 16 * bs, 16 * bs + 1, 24 * bs)
    ] + [
        # ... and reached by whole batches only
        [8 * bs] * 32 + [8 * bs], [16 * bs] * 16 + [bs], [8 * bs] * 31 + [16 * bs], [L + 8 * bs], [L + 16 * bs], [L + bs],
    ]


def ctr_worker(shards):
    acc = Acc()
    for sh in shards:
        kind = sh[0]
        if kind == "w1":
            _, cipher, iv = sh
            bs = 16 if cipher == "AES" else 8
            for layout in ("nonce", "nonce-bytes-iv", "prefix", "suffix", "both"):
                for little in (False, True):
                    for pat in ctr_patterns_w1(bs):
                        ctr_case(cipher, layout, 1, iv, little, pat, acc)
        elif kind == "w2":
            _, cipher, iv, little, layout = sh
            bs = 16 if cipher == "AES" else 8
            L = bs << 16
            for pat in ([L, 1], [L + 1], [L - 100, 100, 1], [L // 2 + 5, L // 2 - 5, 0, 1]):
                ctr_case(cipher, layout, 2, iv, little, pat, acc)
        elif kind == "w3":
            _, cipher, iv, little = sh
            bs = 16 if cipher == "AES" else 8
            L = bs << 24
            ctr_case(cipher, "prefix", 3, iv, little, [L // 4] * 4 + [1], acc)
        elif kind == "zero":
            _, cipher, w, little = sh
            bs = 16 if cipher == "AES" else 8
            for k in (1, 2, 5, 8, 9, 20):
                for layout in ("prefix", "suffix", "both", "nonce"):
                    if w == bs and layout != "prefix":
                        continue
                    iv = (1 << (8 * w)) - k
                    ctr_case(cipher, layout, w, iv, little, [bs * 3 + 1, bs * 30 - 1, 5, bs * 31], acc)
            # carry across every byte: initial values 2^(8j)-1
            for j in range(1, w):
                iv = (1 << (8 * j)) - 1
                ctr_case(cipher, "prefix", w, iv, little, [bs * 2, bs * 10], acc)
    acc.sample({"part": "ctr", "last_shard": list(sh)})
    return acc


# ---------------------------------------------------------------------------
# ChaCha20 / XChaCha20 histories
# ---------------------------------------------------------------------------
def chacha_alphabet(nlen):
    W = 64 if nlen == 8 else 32
    top = 1 << W
    pos = [0, 63, 64, 64 * (top - 2), 64 * (top - 2) + 63, 64 * (top - 1), 64 * (top - 1) + 63, 64 * top, 64 * top + 64,
           1 << (W + 10)]
    if nlen == 8:
        pos += [64 * ((1 << 32) - 1), 64 * (1 << 32), 64 * ((1 << 64) + (1 << 32))]
    ops = [("encrypt", n) for n in (1, 63, 64, 65, 129)] + [("seek", p) for p in pos]
    return ops


class ChaChaRef:
    """reference positions; `pos=None` means position undefined (after a failed encrypt)."""

    def __init__(self, nlen):
        self.nlen = nlen
        self.nonce = bytes(range(0x40, 0x40 + nlen))
        self.W = 64 if nlen == 8 else 32
        self.top = 1 << self.W
        self.pos = 0
        self.failed_at = None
        self._memo = {}

    def ks(self, pos, n):
        k = (pos, n)
        r = self._memo.get(k)
        if r is None:
            r = self._memo[k] = RCH.chacha20_stream(KEY32, self.nonce, n, pos)
        return r


def chacha_history(nlen, hist, acc, name):
    """run one history on a fresh object; returns False when a violation was recorded"""
    from Crypto.Cipher import ChaCha20
    ref = ChaChaRef(nlen)
    obj = ChaCha20.new(key=KEY32, nonce=ref.nonce)
    top = ref.top
    case = {"part": "chacha", "nlen": nlen, "history": [list(o) for o in hist]}

    def viol(key, what):
        acc.violation("C11/%s/%s" % (name, key), "%s: history %s : %s"
                      % (name, " ; ".join("%s(%s)" % (o[0], _fmtpos(o[1], ref.W)) for o in hist), what), case, size=len(hist))
        return False
    for idx, (op, arg) in enumerate(hist):
        acc.count("transitions")
        last_op = idx == len(hist) - 1
        if op == "seek":
            res = excname(obj.seek, arg)
            blk = arg // 64
            acc.seen("classes", (name, "seek", "beyond" if blk >= top else ("last" if blk == top - 1 else "in"), res[0] if res[0] == "ok" else "exc"))
            if blk >= top:
                if res[0] == "ok":
                    return viol("seek-beyond-counter-range-accepted",
                                "seek to block 2^%d%+d is outside the %d-bit block counter but was accepted (silent wrap-around)"
                                % (ref.W, blk - top, ref.W)) if True else None
                # refused: position unchanged
            elif blk == top - 1:
                if res[0] == "ok":
                    ref.pos, ref.failed_at = arg, None
                else:
                    # refused one block early: the limit is to be enforced "at the point where a block would repeat",
                    # and the last block of the range has not been used
                    return viol("last-block-refused", "seek(%s) into the last block of the counter range is refused with %s "
                                "although no block would repeat" % (_fmtpos(arg, ref.W), res[1]))
            else:
                if res[0] != "ok":
                    return viol("seek-in-range-refused", "seek(%d) refused with %s" % (arg, res[1]))
                ref.pos, ref.failed_at = arg, None
        else:
            n = arg
            res = excname(obj.encrypt, bytes(n))
            if ref.failed_at is not None:
                # position undefined after a failure: data, if any, must be correct keystream of a position that
                # was never produced and is not a wrapped position
                if res[0] == "ok":
                    where = _locate(ref, res[1])
                    acc.seen("classes", (name, "encrypt-after-failure", where[0]))
                    if where[0] == "wrapped":
                        return viol("keystream-after-exhaustion-wraps",
                                    "after the counter-exhausted exception, encrypt(%d) silently returned keystream of block %d "
                                    "(wrap-around) instead of raising" % (n, where[1]))
                    if where[0] == "short":
                        pass
                    elif where[0] == "unknown":
                        acc.observe("%s: data returned after an exhaustion failure matches no keystream position" % name)
                    else:
                        acc.observe("%s: encrypt after an exhaustion failure returns not-yet-used keystream near the end" % name)
                continue
            first, last = ref.pos // 64, (ref.pos + n - 1) // 64
            if last >= top:
                acc.seen("classes", (name, "encrypt", "beyond", res[0] if res[0] == "ok" else "exc"))
                if res[0] == "ok":
                    return viol("encrypt-beyond-counter-range",
                                "encrypt(%d) at position %s needs block 2^%d%+d but returned data"
                                % (n, _fmtpos(ref.pos, ref.W), ref.W, last - top))
                ref.failed_at = ref.pos
            elif last == top - 1:
                acc.seen("classes", (name, "encrypt", "last", res[0] if res[0] == "ok" else "exc"))
                if res[0] == "ok":
                    if res[1] != ref.ks(ref.pos, n):
                        return viol("wrong-keystream", "encrypt(%d) at %s returned wrong keystream" % (n, _fmtpos(ref.pos, ref.W)))
                    ref.pos += n
                else:
                    return viol("last-block-refused", "encrypt(%d) at %s only needs blocks up to the last one of the counter "
                                "range but raised %s (no block would repeat)" % (n, _fmtpos(ref.pos, ref.W), res[1]))
            else:
                acc.seen("classes", (name, "encrypt", "in", res[0] if res[0] == "ok" else "exc"))
                if res[0] != "ok":
                    return viol("encrypt-in-range-raises-%s" % res[1], "encrypt(%d) at %s raised %s" % (n, _fmtpos(ref.pos, ref.W), res[1]))
                if res[1] != ref.ks(ref.pos, n):
                    return viol("wrong-keystream", "encrypt(%d) at %s returned %s, reference %s"
                                % (n, _fmtpos(ref.pos, ref.W), short(res[1]), short(ref.ks(ref.pos, n))))
                ref.pos += n
    return True


def _fmtpos(p, W):
    top = 64 << W
    if p >= top - 64 * 8 and p < top + 64 * 8:
        return "64*2^%d%+d" % (W, p - top)
    return str(p)


def _ks_wrap(ref, p, n):
    """keystream of the *wrapping* stream: positions taken modulo 64*2^W (what a silently wrapping counter emits)"""
    total = 64 * ref.top
    out = b""
    while n > 0:
        p %= total
        b, off = divmod(p, 64)
        take = min(n, 64 - off)
        out += ref.ks(b * 64, 64)[off:off + take]
        p += take
        n -= take
    return out


def _locate(ref, data):
    """Where does `data` (returned after a failure) come from?  ('short',) when too short to tell;
    ('wrapped', block) when it contains keystream of a wrapped-around block; ('end', block) when it is
    not-yet-wrapped keystream near the end of the range; ('unknown',) otherwise."""
    n = len(data)
    if n < 16:
        return ("short", None)
    top = ref.top
    total = 64 * top
    for b in list(range(top - 4, top)) + [0, 1, 2, 3]:
        for off in range(64):
            p = b * 64 + off
            if _ks_wrap(ref, p, n) == data:
                if b < 4:
                    return ("wrapped", b)
                if p + n > total:
                    return ("wrapped", 0)
                return ("end", b)
    return ("unknown", None)


def chacha_worker(shards):
    acc = Acc()
    for nlen, depth, first in shards:
        name = {8: "ChaCha20[n8]", 12: "ChaCha20[n12]", 24: "XChaCha20"}[nlen]
        ops = chacha_alphabet(nlen)

        def dfs(hist):
            acc.count("states")
            ok = chacha_history(nlen, hist, acc, name)
            if not ok or len(hist) >= depth:
                acc.count("traces")
                return
            for o in ops:
                dfs(hist + (o,))
        dfs((ops[first],))
    acc.sample({"part": "chacha", "nonce_len": nlen, "depth": depth, "first_op": list(ops[first])})
    return acc


# ---------------------------------------------------------------------------
# CCM length limits, HPKE nonces
# ---------------------------------------------------------------------------
def ccm_worker(shards):
    from Crypto.Cipher import AES
    acc = Acc()
    for nlen, thorough in shards:
        q = 15 - nlen
        lim = (1 << (8 * q)) - 1
        if lim > (1 << 24):
            continue
        if lim > 70000 and not thorough:
            continue
        nonce = bytes(range(nlen))
        ref = RAES.AES(KEY16)
        case = {"part": "ccm", "nlen": nlen, "thorough": thorough}

        def mk(**kw):
            return AES.new(KEY16, AES.MODE_CCM, nonce=nonce, **kw)
        # declared
        acc.count("transitions", 2)
        r1 = excname(mk, msg_len=lim)
        r2 = excname(mk, msg_len=lim + 1)
        acc.seen("classes", ("ccm", nlen, "declared", r1[0], r2[0]))
        if r1[0] != "ok":
            acc.violation("C11/CCM/max-length-refused", "CCM nonce %d bytes: msg_len=%d refused" % (nlen, lim), case)
        if r2[0] == "ok":
            acc.violation("C11/CCM/declared-length-beyond-limit-accepted",
                          "CCM nonce %d bytes: msg_len=%d accepted (limit %d)" % (nlen, lim + 1, lim), case)
        # undeclared, one shot at limit and limit+1
        for n, want in ((lim, "ok"), (lim + 1, "exc")):
            acc.count("transitions")
            c = mk()
            r = excname(c.encrypt, bytes(n))
            acc.seen("classes", ("ccm", nlen, "oneshot", want, r[0]))
            if r[0] != want:
                acc.violation("C11/CCM/%s" % ("limit-not-enforced" if want == "exc" else "max-length-refused"),
                              "CCM nonce %d bytes: encrypt(%d bytes) -> %s (limit %d)" % (nlen, n, r[0] if r[0] == "ok" else r[1], lim), case)
            elif want == "ok" and lim <= 70000:
                # keystream correctness at the far end: last 3 blocks against the reference counter blocks
                ct = r[1]
                nb = -(-n // 16)
                for i in (1, 2, nb - 1, nb):
                    cb = bytes([q - 1]) + nonce + i.to_bytes(q, "big")
                    ks = ref.encrypt_block(cb)
                    seg = ct[(i - 1) * 16:i * 16]
                    if seg != ks[:len(seg)]:
                        acc.violation("C11/CCM/wrong-keystream", "CCM nonce %d: keystream block %d wrong" % (nlen, i), case)
                        break
        # one object, no msg_len: a refused over-long call must not disarm the limit for later calls
        for first, second in ((lim + 2, lim + 1), (lim + 300, lim + 1), (2 * lim + 2, lim + 2)):
            for meth in ("encrypt", "decrypt"):
                acc.count("transitions", 2)
                c = mk()
                r1 = excname(getattr(c, meth), bytes(first))
                r2 = excname(getattr(c, meth), bytes(second))
                acc.seen("classes", ("ccm", nlen, "refused-then-again", meth, r1[0], r2[0]))
                if r1[0] == "ok" or r2[0] == "ok":
                    acc.violation("C11/CCM/limit-disarmed-after-refused-call",
                                  "CCM nonce %d bytes (limit %d): %s(%d bytes) -> %s, then %s(%d bytes) on the same object -> %s"
                                  % (nlen, lim, meth, first, r1[0] if r1[0] == "ok" else r1[1], meth, second,
                                     "data returned" if r2[0] == "ok" else r2[1]), case)
        # declared + split across the limit
        acc.count("transitions", 3)
        c = mk(msg_len=lim)
        a = excname(c.encrypt, bytes(lim - 10))
        b = excname(c.encrypt, bytes(10))
        d = excname(c.encrypt, bytes(1))
        acc.seen("classes", ("ccm", nlen, "split", a[0], b[0], d[0]))
        if a[0] != "ok" or b[0] != "ok" or d[0] == "ok":
            acc.violation("C11/CCM/split-limit", "CCM nonce %d: split encrypt around the limit: %s %s %s" % (nlen, a[0], b[0], d[0]), case)
        acc.count("traces", 5)
        acc.count("states", 8)
    acc.sample({"part": "ccm", "nonce_lengths": [s[0] for s in shards]})
    return acc


def hpke_worker(shards):
    from Crypto.Protocol import HPKE
    from Crypto.PublicKey import ECC
    acc = Acc()
    for aead in shards:
        rk = ECC.construct(curve="curve25519", seed=seeded("c11-hpke", 32))
        s = HPKE.new(receiver_key=rk.public_key(), aead_id=HPKE.AEAD(aead), info=b"c11")
        r = HPKE.new(receiver_key=rk, aead_id=HPKE.AEAD(aead), enc=s.enc, info=b"c11")
        case = {"part": "hpke", "aead": aead}
        base = r._base_nonce
        nonces = set()
        N = 300
        for i in range(N):
            acc.count("transitions")
            ct = s.seal(b"m", b"a")
            # recover the nonce actually used: the (key, nonce) pair that opens ct
            from Crypto.Cipher import AES, ChaCha20_Poly1305
            found = None
            for cand in (i, i + 1, i - 1, 0):
                if cand < 0:
                    continue
                nonce = bytes(x ^ y for x, y in zip(base, cand.to_bytes(12, "big")))
                c = AES.new(r._key, AES.MODE_GCM, nonce=nonce) if aead in (1, 2) else ChaCha20_Poly1305.new(key=r._key, nonce=nonce)
                c.update(b"a")
                try:
                    c.decrypt_and_verify(ct[:-16], ct[-16:])
                    found = cand
                    break
                except ValueError:
                    pass
            if found != i:
                acc.violation("C11/HPKE/nonce-sequence", "HPKE aead %d: message #%d sealed with nonce of sequence %r" % (aead, i, found), case)
                break
            nonces.add(found)
        if len(nonces) == N:
            acc.seen("classes", ("hpke", aead, "distinct"))
        # exhaustion boundary
        mx = (1 << 96) - 1
        for start in (mx - 2, mx - 1, mx):
            s2 = HPKE.new(receiver_key=rk.public_key(), aead_id=HPKE.AEAD(aead), info=b"c11")
            s2._sequence = start
            oks = 0
            for _ in range(3):
                acc.count("transitions")
                if excname(s2.seal, b"m")[0] == "ok":
                    oks += 1
            acc.seen("classes", ("hpke", aead, "limit", mx - start, oks))
            if oks != max(0, (mx - start)):
                acc.violation("C11/HPKE/sequence-limit", "HPKE aead %d: from sequence 2^96-1-%d, %d seals succeeded (expected %d)"
                              % (aead, mx - start, oks, max(0, mx - start)), case)
        acc.count("traces", 4)
        acc.count("states", N + 9)
    acc.sample({"part": "hpke", "aeads": list(shards)})
    return acc


# ---------------------------------------------------------------------------
def run(ctx):
    q = ctx.quick
    RAES.selftest(); RDES.selftest(); RCH.selftest()
    sh = []
    for cipher in ("AES", "DES3"):
        ivs = range(256) if (cipher == "AES" or not q) else (0, 1, 127, 128, 254, 255)
        for iv in ivs:
            sh.append([("w1", cipher, iv)])
    for cipher in ("AES", "DES3"):
        for iv in (0, 1, 255, 256, 65279, 65535):
            for little in (False, True):
                for layout in (("prefix", "nonce") if q else ("prefix", "suffix", "both", "nonce")):
                    if q and cipher == "DES3" and iv not in (0, 65535):
                        continue
                    sh.append([("w2", cipher, iv, little, layout)])
    if not q:
        for little in (False, True):
            sh.append([("w3", "AES", (1 << 24) - 77, little)])
    for cipher, maxw in (("AES", 16), ("DES3", 8)):
        for w in range(4, maxw + 1):
            for little in (False, True):
                sh.append([("zero", cipher, w, little)])
    ctx.pmap(ctr_worker, sh)
    osh = [[(cipher, layout, iv, little)] for cipher in ("AES", "DES3") for layout in (("prefix", "nonce") if q else ("prefix", "suffix", "both", "nonce"))
           for iv in ((0, 255) if q else (0, 1, 128, 255)) for little in (False, True) if not (little and layout == "nonce")]
    ctx.pmap(ctr_output_worker, osh)
    ctx.require(ctx.acc.n.get("ctr_output_cases", 0) >= 80 * len(osh) // 2, "CTR output-buffer cases: only %d" % ctx.acc.n.get("ctr_output_cases", 0))
    depth = 4 if q else 5
    sh = []
    for nlen in (8, 12, 24):
        for first in range(len(chacha_alphabet(nlen))):
            sh.append([(nlen, depth, first)])
    ctx.pmap(chacha_worker, sh)
    ctx.pmap(ccm_worker, [[(n, not q)] for n in range(7, 14)])
    ctx.pmap(hpke_worker, [[1], [2], [3]])
    a = ctx.acc
    cl = a.distinct.get("classes", set())
    ctx.require(any(c[0] == "ctr" and c[4] and c[5] == "OverflowError" for c in cl), "no CTR wrap was ever reached")
    ctx.require(any(c[1] == "seek" and c[2] == "beyond" for c in cl if len(c) == 4), "no ChaCha20 seek beyond the range explored")
    ctx.require(a.n.get("blocks_checked", 0) > 100000, "fewer than 1e5 CTR counter blocks verified")
    ctx.coverage_extra.update({
        "states": a.n.get("states", 0), "transitions": a.n.get("transitions", 0),
        "traces_validated_against_impl": a.n.get("traces", 0),
        "ctr_counter_blocks_verified": a.n.get("blocks_checked", 0),
        "distinct_ctr_layouts": len(a.distinct.get("ctr_layouts", ())),
        "distinct_outcome_classes": len(cl),
        "chacha_history_depth": depth, "chacha_alphabet_sizes": {n: len(chacha_alphabet(n)) for n in (8, 12, 24)},
        "exhaustive": not a.caps,
        "ctr_grid": "width 1: all 256 initial values x 5 layouts x 2 endiannesses x 7 call patterns (AES; 3DES %s); width 2: 6 initial "
                    "values run to the full 2^16 blocks; %swidths 4..16 (AES) / 4..8 (3DES): zero-crossing windows and carry chains"
                    % ("all 256" if not q else "6 values", "width 3: full 2^24 blocks (AES); " if not q else ""),
    })
    ctx.assume("limits that need more than 2^30 bytes of traffic are not reached: CTR counter widths >= 4 (only the zero "
               "crossing is checked there), GCM 2^39-256 bits, Salsa20 2^64 blocks, ChaCha20 without seek()")
    ctx.assume("CTR counter blocks are recovered with the library's own ECB decryption and cross-checked with the reference "
               "cipher on the first and last blocks of every call")
    ctx.assume("the last block of the ChaCha20 counter range must be usable: the limit is enforced at the point where a "
               "block would repeat, not one block early")


def replay(case, acc):
    p = case["part"]
    if p == "ctr":
        ctr_case(case["cipher"], case["layout"], case["w"], case["iv"], case["little"], case["pattern"], acc)
    elif p == "ctr-output":
        ctr_output_case(case["cipher"], case["layout"], case["iv"], case["little"], case["before"], case["ask"], acc)
    elif p == "chacha":
        name = {8: "ChaCha20[n8]", 12: "ChaCha20[n12]", 24: "XChaCha20"}[case["nlen"]]
        chacha_history(case["nlen"], tuple(tuple(o) for o in case["history"]), acc, name)
    elif p == "ccm":
        acc.merge(ccm_worker([(case["nlen"], case["thorough"])]))
    elif p == "hpke":
        acc.merge(hpke_worker([case["aead"]]))
