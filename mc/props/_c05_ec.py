"""Helpers for the C05 driver: polynomial root finding over F_p (to find curve points with a
prescribed small ordinate), the per-curve coordinate alphabets of DESIGN section 3/C05, and the
byte-level key encodings that are crafted by hand (SEC 1, RFC 8032 / RFC 7748 raw, OpenSSH).

Nothing here imports Crypto: every value is computed with mc.ref.ec on Python ints.
"""
import base64
import struct

from ..ref import ec as E

WEIER = ("p192", "p224", "p256", "p384", "p521")
EDW = ("ed25519", "ed448")
MONT = ("curve25519", "curve448")
ALL = WEIER + EDW + MONT

# name used by the library's ECC.construct(curve=...)
LIBNAME = {"p192": "p192", "p224": "p224", "p256": "p256", "p384": "p384", "p521": "p521",
           "ed25519": "Ed25519", "ed448": "Ed448", "curve25519": "Curve25519", "curve448": "Curve448"}
OPENSSH = {"p256": "nistp256", "p384": "nistp384", "p521": "nistp521"}


def family(cn):
    return "weierstrass" if cn in WEIER else cn


# ---------------------------------------------------------------------------
# polynomials over F_p as lists of coefficients, lowest degree first
# ---------------------------------------------------------------------------
def _trim(a):
    while a and a[-1] == 0:
        a.pop()
    return a


def _pmod(a, f, p):
    a = _trim([c % p for c in a])
    df = len(f) - 1
    inv = pow(f[-1], -1, p)
    while len(a) - 1 >= df and a:
        k = a[-1] * inv % p
        sh = len(a) - 1 - df
        for i, c in enumerate(f):
            a[sh + i] = (a[sh + i] - k * c) % p
        _trim(a)
    return a


def _pmul(a, b, p):
    if not a or not b:
        return []
    r = [0] * (len(a) + len(b) - 1)
    for i, x in enumerate(a):
        if x:
            for j, y in enumerate(b):
                r[i + j] = (r[i + j] + x * y) % p
    return _trim(r)


def _pgcd(a, b, p):
    a, b = _trim(list(a)), _trim(list(b))
    while b:
        a, b = b, _pmod(a, b, p)
    if a:
        inv = pow(a[-1], -1, p)
        a = [c * inv % p for c in a]
    return a


def _ppow(base, e, f, p):
    r = [1]
    b = _pmod(base, f, p)
    while e:
        if e & 1:
            r = _pmod(_pmul(r, b, p), f, p)
        b = _pmod(_pmul(b, b, p), f, p)
        e >>= 1
    return r


def _split_roots(g, p, out, shift=1):
    """g is monic, squarefree and splits into linear factors over F_p"""
    d = len(g) - 1
    if d <= 0:
        return
    if d == 1:
        out.append((-g[0]) % p)
        return
    if d == 2:
        # x^2 + bx + c
        b, c = g[1], g[0]
        s = E.sqrt_mod((b * b - 4 * c) % p, p)
        assert s is not None
        i2 = pow(2, -1, p)
        out.append((-b + s) * i2 % p)
        out.append((-b - s) * i2 % p)
        return
    while True:
        h = _ppow([shift, 1], (p - 1) // 2, g, p)
        h = list(h) + [0] * (1 - len(h))
        h[0] = (h[0] - 1) % p
        k = _pgcd(g, h, p)
        shift += 1
        if 0 < len(k) - 1 < d:
            break
    _split_roots(k, p, out, shift)
    q = _pdivexact(g, k, p)
    _split_roots(q, p, out, shift)


def _pdivexact(a, b, p):
    a = list(a)
    q = [0] * (len(a) - len(b) + 1)
    inv = pow(b[-1], -1, p)
    for sh in range(len(a) - len(b), -1, -1):
        k = a[sh + len(b) - 1] * inv % p
        q[sh] = k
        for i, c in enumerate(b):
            a[sh + i] = (a[sh + i] - k * c) % p
    assert not _trim(a)
    return _trim(q)


def poly_roots(f, p):
    """all roots in F_p of the polynomial f (coefficients lowest degree first), ascending"""
    f = _trim([c % p for c in f])
    if len(f) <= 1:
        return []
    xp = _ppow([0, 1], p, f, p)
    g = list(xp) + [0] * (2 - len(xp))
    g[1] = (g[1] - 1) % p
    g = _pgcd(f, g, p) if _trim(list(g)) else [c * pow(f[-1], -1, p) % p for c in f]
    out = []
    _split_roots(g, p, out)
    out = sorted(set(out))
    for r in out:
        assert sum(c * pow(r, i, p) for i, c in enumerate(f)) % p == 0
    return out


# ---------------------------------------------------------------------------
# small points
# ---------------------------------------------------------------------------
_SMALL = {}


def small_points(cn, count=4):
    """(points with the smallest x, points with the smallest y); each entry (x, y) is on the curve by
    the reference; both square roots / all cube roots are listed; the neutral element is left out"""
    if cn in _SMALL:
        return _SMALL[cn]
    c = E.CURVES[cn]
    p = c.p
    byx, byy = [], []
    if c.kind == "weierstrass":
        x = 0
        while len(byx) < count:
            y = E.sqrt_mod((x * x * x + c.a * x + c.b) % p, p)
            if y is not None:
                for yy in sorted({y, (p - y) % p}):
                    byx.append((x, yy))
            x += 1
        y = 0
        while len(byy) < count:
            for x in poly_roots([(c.b - y * y) % p, c.a % p, 0, 1], p):
                byy.append((x, y))
            y += 1
    elif c.kind == "edwards":
        x = 0
        while len(byx) < count:
            den = (1 - c.d * x * x) % p
            y2 = (1 - c.a * x * x) * pow(den, -1, p) % p
            y = E.sqrt_mod(y2, p)
            if y is not None:
                for yy in sorted({y, (p - y) % p}):
                    if (x, yy) != (0, 1):
                        byx.append((x, yy))
            x += 1
        y = 0
        while len(byy) < count:
            for s in (0, 1):
                xx = E._ed_recover_x(p, c.a, c.d, y, s)
                if xx is not None and (xx, y) != (0, 1) and (xx, y) not in byy:
                    byy.append((xx, y))
            y += 1
    for P in byx + byy:
        assert E.on_curve(c, P), (cn, P)
    _SMALL[cn] = (byx[:count], byy[:count])
    return _SMALL[cn]


def fits(v, nbytes):
    return 0 <= v < (1 << (8 * nbytes))


def coord_alphabets(cn):
    """-> (X, Y) ordered simplest-first, without duplicates.  Values that do not fit the byte width of
    the curve are kept (they must be refused by the integer entry points) except where noted."""
    c = E.CURVES[cn]
    p, n = c.p, c.size_bytes
    top = (1 << (8 * n)) - 1
    byx, byy = small_points(cn)
    X = [0, 1, 2, c.Gx, c.Gx - 1, c.Gx + 1, p - 1, p, p + 1, p + c.Gx, top, -1, p - c.Gx]
    Y = [0, 1, 2, c.Gy, c.Gy - 1, c.Gy + 1, p - 1, p, p + 1, p + c.Gy, top, -1, p - c.Gy]
    for (x, y) in byx + byy:
        X += [x, x + p]
        Y += [y, y + p, p - y]
    if c.kind == "edwards":
        X += [top + 1]
        Y += [top + 1]
    def uniq(L):
        out = []
        for v in L:
            if v not in out:
                out.append(v)
        return out
    return uniq(X), uniq(Y)


def mont_alphabet(cn):
    """u values for the Montgomery curves, simplest first: boundary values, every listed low-order u with its
    aliases u+p, u+2p (and with bit 255 set on curve25519), the base point and its aliases, small u on the curve
    and on the twist, one value that does not fit the byte width"""
    c = E.CURVES[cn]
    p, n = c.p, c.size_bytes
    top = (1 << (8 * n)) - 1
    low = E.LOW_ORDER_U_25519 if cn == "curve25519" else E.LOW_ORDER_U_448
    U = [0, 1, 2, c.Gu, c.Gu - 1, c.Gu + 1, p - 1, p, p + 1, p + c.Gu, top, -1, top + 1]
    for u in low:
        U += [u, u + p, u + 2 * p]
        if cn == "curve25519":
            U += [u | (1 << 255), (u + p) | (1 << 255)]
    U += [3, 5, 6, 7, 8, 9, 10, 2 * p + c.Gu]
    if cn == "curve25519":
        U += [(1 << 255), (1 << 255) + 9, (1 << 255) + 19 + 9]
    out = []
    for v in U:
        if v not in out:
            out.append(v)
    return out


def mont_on_curve(cn, u):
    c = E.CURVES[cn]
    u %= c.p
    return E.sqrt_mod((u * u * u + c.A * u * u + u) % c.p, c.p) is not None


def low_order_u(cn):
    return E.LOW_ORDER_U_25519 if cn == "curve25519" else E.LOW_ORDER_U_448


# ---------------------------------------------------------------------------
# byte encodings crafted by hand
# ---------------------------------------------------------------------------
def sec1_raw(cn, x, y):
    n = E.CURVES[cn].size_bytes
    return b"\x04" + x.to_bytes(n, "big") + y.to_bytes(n, "big")


def sec1_comp(cn, x, prefix):
    n = E.CURVES[cn].size_bytes
    return bytes([prefix]) + x.to_bytes(n, "big")


def ssh_string(b):
    return struct.pack(">I", len(b)) + b


def openssh_ecdsa(cn, point):
    nm = OPENSSH[cn].encode()
    kt = b"ecdsa-sha2-" + nm
    blob = ssh_string(kt) + ssh_string(nm) + ssh_string(point)
    return kt + b" " + base64.b64encode(blob)


def openssh_ed25519(enc):
    kt = b"ssh-ed25519"
    return kt + b" " + base64.b64encode(ssh_string(kt) + ssh_string(enc))


def ed_raw(cn, y, sign, spare=0):
    """RFC 8032 encoding of (sign, y); `spare` are the 7 unused bits of the last octet of Ed448"""
    c = E.CURVES[cn]
    nb = c.enc_bytes
    if cn == "ed25519":
        v = y | (sign << 255)
    else:
        v = y | (spare << 448) | (sign << 455)
    return v.to_bytes(nb, "little")


def selftest():
    # cubic solver against brute force on a small prime
    p = 1009
    for f in ([5, 1006, 0, 1], [1, 0, 0, 1], [7, 3, 2, 1], [0, 1006, 0, 1], [1008, 0, 0, 1]):
        want = [x for x in range(p) if sum(c * x ** i for i, c in enumerate(f)) % p == 0]
        got = poly_roots(f, p)
        assert got == want, (f, got, want)
    for cn in WEIER + EDW:
        byx, byy = small_points(cn)
        assert len(byx) == 4 and len(byy) == 4
