"""Reference-side helpers for C06 (no import of Crypto here).

* cached reference scalar multiplication (mc.ref.ec.mul with the scalar reduced modulo the full
  group order h*n, which is a multiple of the order of every point of E(F_p)),
* the torsion points of the Edwards curves,
* an *exact* x-only model for the Montgomery curves: affine arithmetic on the curve or on its
  quadratic twist  B v^2 = u^3 + A u^2 + u  (the RFC 7748 ladder formulas are not the group law for
  u = 0, the point of order 2; the ladder of mc.ref.ec is used as a second opinion for u != 0),
* the scalar alphabet of DESIGN C06.
"""
from ..common import seeded_int
from ..ref import ec as R

WEIER = ("p192", "p224", "p256", "p384", "p521")
EDW = ("ed25519", "ed448")
MONT = ("curve25519", "curve448")
LIBNAME = {"p192": "P-192", "p224": "P-224", "p256": "P-256", "p384": "P-384", "p521": "P-521",
           "ed25519": "Ed25519", "ed448": "Ed448", "curve25519": "Curve25519", "curve448": "Curve448"}


def tup(x):
    """lists (from JSON) -> tuples, recursively"""
    if isinstance(x, (list, tuple)):
        return tuple(tup(v) for v in x)
    return x


def group_order(c):
    return c.order * c.cofactor


# ---------------------------------------------------------------------------
# cached reference multiplication on Weierstrass / Edwards curves
# ---------------------------------------------------------------------------
_MUL = {}
_DBL = {}       # (cname, P) -> [P, 2P, 4P, ...]; only for points registered with use_doubling_table()


def use_doubling_table(cname, P):
    """thorough tier, scalar grid: many scalars meet the same point P, so k*P is summed from a cached table of the doublings
    2^i*P (mc.ref.ec.add only; validated against mc.ref.ec.mul in selfcheck())"""
    c = R.CURVES[cname]
    if not R.is_neutral(c, P) and (cname, P) not in _DBL:
        _DBL[(cname, P)] = [P]


def _mul_small(cname, c, kk, P):
    """kk*P for 0 <= kk <= #E/2"""
    D = _DBL.get((cname, P))
    if D is None:
        return R.mul(c, kk, P)
    while len(D) < kk.bit_length():
        D.append(R.add(c, D[-1], D[-1]))
    r = c.neutral
    i = 0
    while kk:
        if kk & 1:
            r = R.add(c, r, D[i])
        kk >>= 1
        i += 1
    return r


def refmul(cname, k, P):
    """k*P by the reference; k >= 0 of any size.  k is reduced modulo #E = h*n first (every point's order
    divides #E; validated in selfcheck()); the upper half of the range is computed as -((#E - k)*P)."""
    c = R.CURVES[cname]
    if R.is_neutral(c, P):
        return c.neutral
    N = group_order(c)
    kk = k % N
    key = (cname, P, kk)
    r = _MUL.get(key, 0)
    if r == 0:
        if 2 * kk > N:
            r = R.neg(c, _mul_small(cname, c, N - kk, P))
        else:
            r = _mul_small(cname, c, kk, P)
        _MUL[key] = r
    return r


def refG(cname, m):
    return refmul(cname, m, R.CURVES[cname].G)


# ---------------------------------------------------------------------------
# torsion of the Edwards curves
# ---------------------------------------------------------------------------
_TORS = {}


def torsion_generator(cname):
    """a point whose order is exactly the cofactor (8 for Ed25519, 4 for Ed448)"""
    if cname in _TORS:
        return _TORS[cname]
    c = R.CURVES[cname]
    p = c.p
    if cname == "ed448":
        T = (1, 0)
    else:
        T = None
        for y in range(2, 400):
            x = R._ed_recover_x(p, c.a, c.d, y, 0)
            if x is None:
                continue
            cand = R.mul(c, c.order, (x, y))
            if R.mul(c, c.cofactor // 2, cand) != (0, 1):
                T = cand
                break
    assert T is not None and R.on_curve(c, T)
    assert R.mul(c, c.cofactor, T) == (0, 1) and R.mul(c, c.cofactor // 2, T) == (0, p - 1)
    _TORS[cname] = T
    return T


def torsion_points(cname):
    """[(label, order, point)] for i*T, i = 1..h-1 (ordered: order 2 first, then 4, then 8)"""
    c = R.CURVES[cname]
    T = torsion_generator(cname)
    h = c.cofactor
    out = []
    for i in range(1, h):
        P = R.mul(c, i, T)
        g = h
        # order of i*T in Z/h
        o = h
        while o % 2 == 0 and R.mul(c, o // 2, P) == (0, 1):
            o //= 2
        out.append(("T%d[%d]" % (o, i), o, i, P))
    out.sort(key=lambda t: (t[1], t[2]))
    return out


# ---------------------------------------------------------------------------
# exact x-only model of the Montgomery curves (curve and twist)
# ---------------------------------------------------------------------------
_NONRES = {}


def _nonresidue(p):
    r = _NONRES.get(p)
    if r is None:
        r = 2
        while pow(r, (p - 1) // 2, p) != p - 1:
            r += 1
        _NONRES[p] = r
    return r


def _lift(c, u):
    """-> (B, (u, v)) with B v^2 = u^3 + A u^2 + u ; B = 1 on the curve, a non-residue on the twist"""
    p, A = c.p, c.A
    u %= p
    rhs = (u * u * u + A * u * u + u) % p
    if rhs == 0:
        return 1, (u, 0)
    v = R.sqrt_mod(rhs, p)
    if v is not None:
        return 1, (u, v)
    B = _nonresidue(p)
    v = R.sqrt_mod(rhs * pow(B, -1, p) % p, p)
    assert v is not None
    return B, (u, v)


def _tw_add(c, B, P, Q):
    if P is None:
        return Q
    if Q is None:
        return P
    p, A = c.p, c.A
    x1, y1 = P
    x2, y2 = Q
    if x1 == x2:
        if (y1 + y2) % p == 0:
            return None
        lam = (3 * x1 * x1 + 2 * A * x1 + 1) * pow(2 * B * y1 % p, -1, p) % p
    else:
        lam = (y2 - y1) * pow((x2 - x1) % p, -1, p) % p
    x3 = (B * lam * lam - A - x1 - x2) % p
    y3 = (lam * (x1 - x3) - y1) % p
    return (x3, y3)


_XMUL = {}


def xmul(cname, k, u):
    """x-coordinate of k*(u, .) by the exact group law; u = None is the neutral element; result None = neutral.
    Non-canonical u (>= p) denotes u mod p (RFC 7748 section 5)."""
    if u is None:
        return None
    c = R.CURVES[cname]
    u %= c.p
    key = (cname, k, u)
    if key in _XMUL:
        return _XMUL[key]
    B, P = _lift(c, u)
    acc = None
    for i in range(k.bit_length() - 1, -1, -1):
        acc = _tw_add(c, B, acc, acc)
        if (k >> i) & 1:
            acc = _tw_add(c, B, acc, P)
    r = None if acc is None else acc[0]
    # second opinion: the RFC 7748 ladder (valid for u != 0)
    if u != 0:
        lad = R.mont_mul_x(c, k, u)
        if lad != r:
            raise AssertionError("reference disagreement on %s: %d * u=%d: affine %r, ladder %r" % (cname, k, u, r, lad))
    _XMUL[key] = r
    return r


def x_low_order(cname):
    return list(R.LOW_ORDER_U_25519 if cname == "curve25519" else R.LOW_ORDER_U_448)


# ---------------------------------------------------------------------------
# scalar alphabet (DESIGN C06), ordered simplest-first
# ---------------------------------------------------------------------------
def scalar_alphabet(cname, reduced=False, deep=False):
    """-> list of (label, k); deep (thorough tier only) appends further boundary families to the full alphabet"""
    c = R.CURVES[cname]
    n, h, bits = c.order, c.cofactor, c.bits
    nb = c.size_bytes
    S = [("0", 0), ("1", 1), ("2", 2), ("3", 3)]
    if not reduced:
        S += [("15", 15), ("16", 16), ("17", 17)]
    ks = (8, 64, bits - 1) if reduced else (8, 63, 64, 65, bits - 1)
    for k in ks:
        for d in (-1, 0, 1):
            if reduced and d != 0 and k != bits - 1:
                continue
            S.append(("2^%s%s" % ("(bits-1)" if k == bits - 1 else k, {-1: "-1", 0: "", 1: "+1"}[d]), (1 << k) + d))
    S += [("n-1", n - 1), ("n", n), ("n+1", n + 1), ("2n", 2 * n)]
    if h > 1:
        S += [("h", h), ("h*n", h * n), ("h*n+1", h * n + 1)]
    S += [("2^bits-1", (1 << bits) - 1), ("2^bits", 1 << bits), ("2^bits+1", (1 << bits) + 1)]
    if 8 * nb != bits:
        S += [("2^(8*bytes)-1", (1 << (8 * nb)) - 1), ("2^(8*bytes)", 1 << (8 * nb))]
    S += [("2^(bits+9)+5", (1 << (bits + 9)) + 5)]
    # all-ones scalars that fill whole 64-bit words, up to four words more than the field: adding a multiple of the
    # order to such a scalar (scalar blinding) carries out of its top word
    words = (bits + 63) // 64
    for w in (range(words + 1, words + 4) if reduced else range(1, words + 5)):
        S.append(("2^(64*%d)-1" % w, (1 << (64 * w)) - 1))
    S += [("0x0f0f..", int.from_bytes(b"\x0f" * nb, "big") % n), ("0xf0f0..", int.from_bytes(b"\xf0" * nb, "big") >> (8 * nb - bits + 1)),
          ("seeded", 1 + seeded_int("c06/scalar/" + cname, bits + 64) % (n - 1))]
    if not reduced:
        S += [("0xffff..(bits+64)", (1 << (bits + 64)) - 1), ("seeded*2^72", (1 + seeded_int("c06/scalar2/" + cname, bits) % (n - 1)) << 72),
              ("2^1031+n", (1 << 1031) + n)]
    if deep and not reduced:
        # every 64-bit word boundary of the scalar, up to one word above the field size
        for j in range(1, words + 2):
            for d in (-1, 0, 1):
                S.append(("2^(64*%d)%s" % (j, {-1: "-1", 0: "", 1: "+1"}[d]), (1 << (64 * j)) + d))
        # each value of the 4-bit window digit repeated over the whole width (src/ec_ws.c WINDOW_SIZE_BITS = 4)
        for d in range(1, 16):
            S.append(("0x%x%x.." % (d, d), int("%x" % d * (bits // 4), 16)))
        # neighbours, halves and multiples of the order (the scalar blinding adds R*n with a 32-bit R)
        S += [("n-2", n - 2), ("n+2", n + 2), ("(n-1)/2", (n - 1) // 2), ("(n+1)/2", (n + 1) // 2), ("2n-1", 2 * n - 1), ("2n+1", 2 * n + 1),
              ("3n", 3 * n), ("(2^32-1)*n", ((1 << 32) - 1) * n), ("2^32*n", n << 32), ("2^32*n+1", (n << 32) + 1), ("2^64*n-1", (n << 64) - 1)]
        if h > 1:
            S += [("h*n-1", h * n - 1), ("2*h*n", 2 * h * n), ("n+h", n + h)]
        # long scalars (several times the field size)
        S += [("2^2048-1", (1 << 2048) - 1), ("2^2048", 1 << 2048), ("2^4096+n", (1 << 4096) + n)]
    seen, out = set(), []
    for lab, k in S:
        if k not in seen:
            seen.add(k)
            out.append((lab, k))
    return out


# ---------------------------------------------------------------------------
# structured scalar sweeps (thorough tier): complete families, reference by addition chains of the affine group law
# ---------------------------------------------------------------------------
# window size / number of tables of the pre-computed generator tables (src/p256_table.c, p384_table.c, p521_table.c);
# every other scalar multiplication on the Weierstrass curves uses 4-bit windows (src/ec_ws.c WINDOW_SIZE_BITS)
GTABLE = {"p256": (5, 52), "p384": (5, 77), "p521": (4, 131)}
SWEEP_EXTRA_BITS = 72           # scalars up to 2^(bits+72): one 64-bit word and one byte above the field size


def sweep_families(cname):
    """-> list of (family name, parameter, number of steps).
    ('digit', w, npos): d * 2^(w*i) for every window position i < npos and every digit 0 < d < 2^w  (one non-zero w-bit window:
                        every entry of every pre-computed generator table, every entry of the run-time window in every position)
    ('pow2', 0, nk):    2^k - 1, 2^k, 2^k + 1 for every k < nk  (every bit length / byte length / word length of the scalar)"""
    c = R.CURVES[cname]
    ws = sorted({4, GTABLE.get(cname, (4, 0))[0]})
    fam = [("digit", w, (c.bits + 8) // w + 1) for w in ws]
    fam.append(("pow2", 0, c.bits + SWEEP_EXTRA_BITS + 1))
    return fam


def sweep_chunks(cname, chunk_scalars=96):
    """-> list of (family, w, lo, hi): contiguous step ranges with about chunk_scalars scalars each"""
    out = []
    for fam, w, steps in sweep_families(cname):
        per = ((1 << w) - 1) if fam == "digit" else 3
        st = max(1, chunk_scalars // per)
        for lo in range(0, steps, st):
            out.append((fam, w, lo, min(steps, lo + st)))
    return out


def sweep_count(cname):
    return sum((((1 << w) - 1) if fam == "digit" else 3) * steps for fam, w, steps in sweep_families(cname))


def _chain(dbl, add, neg, P, fam, w, lo, hi):
    """generic addition chain: yields (label, k, k*P) for the steps lo..hi-1 of a family; dbl/add/neg are the group operations"""
    if fam == "digit":
        B = P
        for _ in range(w * lo):
            B = dbl(B)
        for i in range(lo, hi):
            M = B
            for d in range(1, 1 << w):
                yield ("%d*2^(%d*%d)" % (d, w, i), d << (w * i), M)
                M = add(M, B)
            for _ in range(w):
                B = dbl(B)
    else:
        B = P
        for _ in range(lo):
            B = dbl(B)
        mP = neg(P)
        for k in range(lo, hi):
            yield ("2^%d-1" % k, (1 << k) - 1, add(B, mP))
            yield ("2^%d" % k, 1 << k, B)
            yield ("2^%d+1" % k, (1 << k) + 1, add(B, P))
            B = dbl(B)


def sweep_ref(cname, P, fam, w, lo, hi):
    """-> list of (label, k, k*P) on a Weierstrass / Edwards curve, computed with mc.ref.ec.add only (no scalar reduction);
    the values are entered into the refmul cache; the last one is cross-checked against refmul's double-and-add"""
    c = R.CURVES[cname]
    out = list(_chain(lambda A: R.add(c, A, A), lambda A, B: R.add(c, A, B), lambda A: R.neg(c, A), P, fam, w, lo, hi))
    lab, k, V = out[-1]
    if not R.is_neutral(c, P):
        _MUL.pop((cname, P, k % group_order(c)), None)
        if refmul(cname, k, P) != V:
            raise AssertionError("reference disagreement on %s: addition chain and double-and-add differ for %s" % (cname, lab))
        for lab, k, V in out:
            _MUL[(cname, P, k % group_order(c))] = V
    return out


def xsweep_ref(cname, u, fam, w, lo, hi):
    """-> list of (label, k, x(k*(u,.)) or None) on a Montgomery curve or its twist by the exact affine group law;
    the values are entered into the xmul cache; the last one is cross-checked against xmul (affine double-and-add + RFC 7748 ladder)"""
    c = R.CURVES[cname]
    u %= c.p
    B, P = _lift(c, u)

    def neg(A):
        return None if A is None else (A[0], (-A[1]) % c.p)
    out = [(lab, k, None if V is None else V[0])
           for lab, k, V in _chain(lambda A: _tw_add(c, B, A, A), lambda A, Q: _tw_add(c, B, A, Q), neg, P, fam, w, lo, hi)]
    lab, k, V = out[-1]
    _XMUL.pop((cname, k, u), None)
    if xmul(cname, k, u) != V:
        raise AssertionError("reference disagreement on %s: addition chain and double-and-add differ for %s" % (cname, lab))
    for lab, k, V in out:
        _XMUL[(cname, k, u)] = V
    return out


def seeded_multiples(cname, count=5):
    c = R.CURVES[cname]
    return [2 + seeded_int("c06/mult/%s/%d" % (cname, i), c.bits + 64) % (c.order - 3) for i in range(count)]


def selfcheck():
    """validates the helpers of this file against mc.ref.ec (harness errors, never verdicts)"""
    R.selftest()
    for cname in WEIER + EDW:
        c = R.CURVES[cname]
        N = group_order(c)
        assert R.is_neutral(c, R.mul(c, N, c.G))
        if cname in EDW:
            T = torsion_generator(cname)
            M = R.add(c, c.G, T)
            assert R.is_neutral(c, R.mul(c, N, M)) and not R.is_neutral(c, R.mul(c, c.order, M))
            assert len(torsion_points(cname)) == c.cofactor - 1
    # the reduction used by refmul, checked unreduced on the cheapest curves
    for cname in ("p192", "ed25519"):
        c = R.CURVES[cname]
        P = R.mul(c, 7, c.G)
        if cname in EDW:
            P = R.add(c, P, torsion_generator(cname))
        ks = ((1 << (c.bits + 9)) + 5, 2 * c.order, group_order(c) + 1, c.order - 1, group_order(c) - 3, 3 * group_order(c) - 1,
              group_order(c) // 2, group_order(c) // 2 + 1, 0x0f0f0f0f0f0f0f0f0f0f0f0f)
        for k in ks:
            assert R.mul(c, k, P) == refmul(cname, k, P)
        # the doubling-table variant (thorough tier) against plain double-and-add
        Q = R.mul(c, 11, P)
        use_doubling_table(cname, Q)
        for k in ks:
            assert R.mul(c, k, Q) == refmul(cname, k, Q)
        # the addition-chain references of the structured sweeps against plain double-and-add, value by value
        for fam, w, lo, hi in (("digit", 4, 0, 2), ("digit", 5, 3, 5), ("digit", 4, (c.bits + 8) // 4 - 1, (c.bits + 8) // 4 + 1), ("pow2", 0, 0, 5),
                               ("pow2", 0, c.bits - 2, c.bits + 3)):
            for lab, k, V in sweep_ref(cname, P, fam, w, lo, hi):
                assert R.mul(c, k, P) == V, (cname, lab)
    for cname in MONT:
        c = R.CURVES[cname]
        assert xmul(cname, c.order, c.Gu) is None and xmul(cname, 1, c.Gu) == c.Gu
        assert xmul(cname, 1, 0) == 0 and xmul(cname, 2, 0) is None and xmul(cname, 3, 0) == 0
        assert xmul(cname, 5, None) is None and xmul(cname, 0, c.Gu) is None
        for u in x_low_order(cname):
            assert xmul(cname, c.cofactor, u) is None, (cname, u)
        assert xmul(cname, 7, c.p + c.Gu) == xmul(cname, 7, c.Gu)
        # twist points are handled (u = 2 is on the twist of curve25519)
        for u in (2, 3, 4, 6, 7):
            assert xmul(cname, 1, u) == u
        # the addition-chain references of the structured sweeps against xmul (affine double-and-add + ladder), value by value
        for u in (c.Gu, 2 if cname == "curve25519" else 6, 1):
            for fam, w, lo, hi in (("digit", 4, 0, 1), ("digit", 4, 60, 61), ("pow2", 0, 0, 3), ("pow2", 0, c.bits - 1, c.bits + 1)):
                for lab, k, V in xsweep_ref(cname, u, fam, w, lo, hi):
                    _XMUL.pop((cname, k, u % c.p), None)
                    assert xmul(cname, k, u) == V, (cname, u, lab)
    return True
