"""C18 at cryptographic sizes: boundary tapes for the consumers of Integer.random / random_range.

Every check drives the real consumer with a byte stream `head || Stream(label)` where `head` is the exact
byte string the sampler reads for its first attempt(s) (0..0, F..F, bound-1, bound, bound+1, with and
without the masked-off top bits set).  Oracles: documented bounds; equality with the plain reference
rejection sampler on the same bytes (for the result and for every recorded Integer.random/random_range
call made on the way, including blinding factors drawn from the process RNG); same tape twice => same key."""
import hashlib

from ..common import SEED, seeded, seeded_int, short
from . import _c18_tape as T
from ._c18_tape import Feed, Recorder, Tripwire, check_recorded_call, ref_random, ref_random_range
from ._c18_targets import backend

P_CURVES = ("p192", "p224", "p256", "p384", "p521")
SEED_CURVES = {"ed25519": 32, "ed448": 57, "curve25519": 32, "curve448": 56}
DSA_SIZES = ((1024, 160), (2048, 224), (3072, 256))
SEED_KINDS = ("zero", "ones", "ascending", "seeded")


def boundary_heads(nm):
    """-> {kind: (head bytes, expected candidate of the accepted attempt or None when only the reference knows)}
    for a sampler of [0, nm] that reads bitlen(nm) bits per attempt, top byte first."""
    bits = max(1, nm.bit_length())
    nb = (bits + 7) // 8
    sig = bits - 8 * (nb - 1)
    dirty = (0xFF << sig) & 0xFF
    top = (1 << bits) - 1

    def enc(v, d=False):
        b = bytearray(v.to_bytes(nb, "big"))
        if d:
            b[0] |= dirty
        return bytes(b)
    H = {"zero": (enc(0), 0), "bound": (enc(nm), nm), "ones": (b"\xff" * nb, nm if nm == top else None)}
    if nm >= 1:
        H["one"] = (enc(1), 1)
        H["bound-1"] = (enc(nm - 1), nm - 1)
    if nm + 1 <= top:
        H["bound+1"] = (enc(nm + 1), None)
        H["bound+1,ones,bound"] = (enc(nm + 1) + b"\xff" * nb + enc(nm), nm)
    if dirty:
        H["zero/dirty-top-bits"] = (enc(0, True), 0)
        H["bound/dirty-top-bits"] = (enc(nm, True), nm)
        if nm + 1 <= top:
            H["bound+1/dirty-top-bits,zero"] = (enc(nm + 1, True) + enc(0), 0)
    return H


def head_kinds(nm):
    return sorted(boundary_heads(nm))


def _label(*a):
    return "c18/%d/%s" % (SEED, "/".join(str(x) for x in a))


def observe(op, head, label, sys_head=None):
    """run op(feed) with the recorder and the tripwire in place -> (result, feed, recorded calls, system RNG requests)"""
    elog = []
    feed = Feed(head, label, elog)
    sysfeed = Feed(sys_head, label + "/system", elog) if sys_head is not None else None
    with Tripwire(feed=sysfeed, log=None if sysfeed is not None else elog) as tw:
        with Recorder(elog) as rec:
            res = op(feed)
    return res, feed, rec.calls, tw.count


class _Chk(object):
    def __init__(self, fam, name, case, acc):
        self.fam, self.name, self.case, self.acc = fam, name, case, acc
        self.failed = False
        self.size = sum(x if isinstance(x, int) else len(str(x)) for x in case["spec"])

    def viol(self, tag, text, script=None):
        self.failed = True
        self.acc.violation("C18/%s/%s" % (self.fam, tag), "%s: %s" % (self.name, text), self.case, script=script, size=self.size)

    def calls(self, calls, want_rf=None):
        """every recorded Integer.random / random_range call must be in bounds and equal the reference"""
        for c in sorted(calls, key=lambda c: not c[2]):      # draws from the caller's tape first (deterministic)
            self.acc.count("recorded_integer_draws")
            self.acc.seen("recorded", (self.fam, c[0], c[2]))
            r = check_recorded_call(c)
            if r:
                self.viol("%s/%s" % ("internal-draw" if c[2] else "system-rng-draw",
                                     r[0] if r[0] == "out-of-range" else "not-the-reference-rejection-sampler"), r[1])
                return False
        return True


def _ref_curve(curve):
    from ..ref import ec as REC
    return REC, REC.CURVES[curve]


# ---------------------------------------------------------------------------
def check_ecgen(curve, kind, acc):
    from Crypto.PublicKey import ECC
    REC, c = _ref_curve(curve)
    n = c.order
    head, lit = boundary_heads(n - 2)[kind]
    label = _label("ecgen", curve, kind)
    ck = _Chk("ECC.generate", "ECC.generate(curve=%r, randfunc=tape[%s])" % (curve, kind),
              {"part": "consumer", "spec": ["ecgen", curve, kind]}, acc)
    acc.count("evaluations", 2)
    k1, f1, calls, sysn = observe(lambda f: ECC.generate(curve=curve, randfunc=f), head, label)
    k2, f2, _, _ = observe(lambda f: ECC.generate(curve=curve, randfunc=f), head, label)
    fr = Feed(head, label)
    dref = ref_random_range(1, n - 1, fr)
    d = int(k1.d)
    if f1.total == 0:
        return ck.viol("randfunc-ignored", "the supplied entropy source was never read")
    if not 1 <= d <= n - 1:
        return ck.viol("out-of-range", "private scalar d outside [1, order-1] (d-1=%s, order-1-d=%s)" % (short(d - 1), short(n - 1 - d)))
    if int(k2.d) != d or k2.pointQ != k1.pointQ:
        return ck.viol("not-a-function-of-the-tape", "the same tape twice gave two different keys")
    if d != dref:
        return ck.viol("differs-from-reference-rejection-sampler",
                       "d=%s, the plain rejection sampler on the same bytes gives %s" % (short(d), short(dref)))
    if lit is not None and d != 1 + lit:
        return ck.viol("wrong-offset", "boundary tape must give d = 1 + %s, got %s" % (short(lit), short(d)))
    Q = REC.mul(c, d, c.G)
    if (int(k1.pointQ.x), int(k1.pointQ.y)) != tuple(Q):
        return ck.viol("public-point-mismatch", "public point is not d*G for the generated d")
    if not ck.calls(calls):
        return
    if f1.total != fr.total:
        acc.observe("ECC.generate consumed a different number of bytes than the reference rejection sampler")
    if sysn:
        acc.observe("ECC.generate with randfunc consulted the process-wide RNG (result unaffected)")
    first_nb = ((n - 2).bit_length() + 7) // 8
    acc.seen("classes", ("ECC.generate", curve, "first-attempt-accepted" if f1.total == first_nb else "rejected-%d" % min(2, f1.total // first_nb - 1),
                         "dirty" in kind))
    acc.seen("configs", ("ecgen", curve, kind))


def check_ecseed(curve, kind, acc):
    from Crypto.PublicKey import ECC
    from ..ref import ec as REC
    L = SEED_CURVES[curve]
    head = {"zero": bytes(L), "ones": b"\xff" * L, "ascending": bytes(range(L)), "seeded": seeded("c18/ecseed/" + curve, L)}[kind]
    label = _label("ecseed", curve, kind)
    ck = _Chk("ECC.generate", "ECC.generate(curve=%r, randfunc=tape[%s])" % (curve, kind),
              {"part": "consumer", "spec": ["ecseed", curve, kind]}, acc)
    acc.count("evaluations", 2)
    k1, f1, calls, sysn = observe(lambda f: ECC.generate(curve=curve, randfunc=f), head, label)
    k2, f2, _, _ = observe(lambda f: ECC.generate(curve=curve, randfunc=f), head, label)
    if f1.total == 0:
        return ck.viol("randfunc-ignored", "the supplied entropy source was never read")
    pub1 = k1.public_key().export_key(format="raw")
    if k1.seed != k2.seed or pub1 != k2.public_key().export_key(format="raw"):
        return ck.viol("not-a-function-of-the-tape", "the same tape twice gave two different keys")
    if k1.seed != head or f1.total != L:
        return ck.viol("seed-is-not-the-tape", "seed %s is not the %d bytes read from the tape (%d bytes read)" % (short(k1.seed), L, f1.total))
    exp = {"ed25519": lambda s: REC.ed_public("ed25519", s), "ed448": lambda s: REC.ed_public("ed448", s),
           "curve25519": REC.x25519_base, "curve448": REC.x448_base}[curve](head)
    if pub1 != exp:
        return ck.viol("public-key-mismatch", "public key %s, reference derivation from the seed gives %s" % (short(pub1), short(exp)))
    ck.calls(calls)
    if sysn:
        acc.observe("ECC.generate with randfunc consulted the process-wide RNG (result unaffected)")
    acc.seen("classes", ("ECC.generate", curve, "seed", kind))
    acc.seen("configs", ("ecseed", curve, kind))


def check_ecdsa(curve, kind, acc):
    from Crypto.PublicKey import ECC
    from Crypto.Signature import DSS
    from Crypto.Hash import SHA512
    REC, c = _ref_curve(curve)
    n = c.order
    head, lit = boundary_heads(n - 2)[kind]
    label = _label("ecdsa", curve, kind)
    ck = _Chk("DSS.fips-186-3.ECDSA-nonce", "DSS.new(%s key, 'fips-186-3', randfunc=tape[%s]).sign" % (curve, kind),
              {"part": "consumer", "spec": ["ecdsa", curve, kind]}, acc)
    d = 1 + seeded_int("c18/ecdsa-key/" + curve, n.bit_length() + 64) % (n - 1)
    key = ECC.construct(curve=curve, d=d)
    h = SHA512.new(b"C18 message")

    def op(f):
        return DSS.new(key, "fips-186-3", randfunc=f).sign(h)
    acc.count("evaluations", 2)
    s1, f1, calls, sysn = observe(op, head, label)
    s2, f2, _, _ = observe(op, head, label)
    if f1.total == 0:
        return ck.viol("randfunc-ignored", "the supplied entropy source was never read")
    if s1 != s2:
        return ck.viol("not-a-function-of-the-tape", "the same tape twice gave two different signatures")
    fr = Feed(head, label)
    k = ref_random_range(1, n - 1, fr)
    if lit is not None and k != 1 + lit:
        acc.error("reference nonce for boundary tape %s is not 1+candidate" % kind)
    r, s = REC.ecdsa_sign(c, d, h.digest(), k)
    L = len(s1) // 2
    got = (int.from_bytes(s1[:L], "big"), int.from_bytes(s1[L:], "big"))
    if got != (r, s):
        return ck.viol("nonce-differs-from-reference-rejection-sampler",
                       "signature is not the ECDSA signature with the nonce k the plain rejection sampler draws from the same bytes "
                       "(k %s)" % ("= order-1" if k == n - 1 else "= %s" % short(k)))
    if not ck.calls(calls):
        return
    if not any(c_[2] for c_ in calls):
        acc.error("recorder saw no random_range call with the caller's randfunc during FIPS ECDSA signing")
    acc.seen("classes", ("ECDSA-nonce", curve, "accepted" if lit is not None and "," not in kind else "rejected-first", "dirty" in kind))
    acc.seen("configs", ("ecdsa", curve, kind))
    if sysn:
        acc.count("blinding_draws_from_system_rng", sysn)


def check_dsasig(L, kind, acc):
    from Crypto.Signature import DSS
    from Crypto.Hash import SHA256
    from ..keys import dsa_key
    from ..ref import dsa as RD
    N = dict(DSA_SIZES)[L]
    key = dsa_key(L, N)
    p, q, g, x = int(key.p), int(key.q), int(key.g), int(key.x)
    head, lit = boundary_heads(q - 2)[kind]
    label = _label("dsasig", L, kind)
    ck = _Chk("DSS.fips-186-3.DSA-nonce", "DSS.new(DSA-%d key, 'fips-186-3', randfunc=tape[%s]).sign" % (L, kind),
              {"part": "consumer", "spec": ["dsasig", L, kind]}, acc)
    h = SHA256.new(b"C18 message")

    def op(f):
        return DSS.new(key, "fips-186-3", randfunc=f).sign(h)
    acc.count("evaluations", 2)
    k = ref_random_range(1, q - 1, Feed(head, label))
    try:
        s1, f1, calls, sysn = observe(op, head, label)
    except ValueError as e:
        acc.seen("classes", ("DSA-nonce", L, "sign-raises", k == 1))
        return ck.viol("drawn-nonce-refused-by-signer",
                       "sign() raises ValueError(%r): FipsDsaSigScheme draws the nonce with random_range(min_inclusive=1, "
                       "max_exclusive=q) and this tape (first %d bytes %s) makes it draw k = %s, which DsaKey._sign does not "
                       "accept (it demands 1 < k < q)" % (str(e), len(head), short(head, 16), "1" if k == 1 else short(k)),
                       script=DSA_NONCE_SCRIPT % (p, q, g, x, head.hex()))
    s2, f2, _, _ = observe(op, head, label)
    if f1.total == 0:
        return ck.viol("randfunc-ignored", "the supplied entropy source was never read")
    if s1 != s2:
        return ck.viol("not-a-function-of-the-tape", "the same tape twice gave two different signatures")
    r, s = RD.dsa_sign(p, q, g, x, h.digest(), k)
    Lb = len(s1) // 2
    if (int.from_bytes(s1[:Lb], "big"), int.from_bytes(s1[Lb:], "big")) != (r, s):
        return ck.viol("nonce-differs-from-reference-rejection-sampler",
                       "signature is not the DSA signature with the nonce the plain rejection sampler draws from the same bytes")
    if not ck.calls(calls):
        return
    acc.seen("classes", ("DSA-nonce", L, "accepted" if lit is not None and "," not in kind else "rejected-first"))
    acc.seen("configs", ("dsasig", L, kind))
    if sysn:
        acc.count("blinding_draws_from_system_rng", sysn)


DSA_NONCE_SCRIPT = """from Crypto.PublicKey import DSA
from Crypto.Signature import DSS
from Crypto.Hash import SHA256
p, q, g, x = %d, %d, %d, %d
key = DSA.construct((pow(g, x, p), g, p, q, x))
head = bytes.fromhex("%s")          # the bytes the nonce sampler reads first
tape = iter(head + bytes(1000))
signer = DSS.new(key, "fips-186-3", randfunc=lambda n: bytes(next(tape) for _ in range(n)))
signer.sign(SHA256.new(b"C18 message"))   # ValueError: k is not between 2 and q-1  (the sampler drew k = 1)
"""

DSAGEN_KINDS = ("zero", "ones", "x=1", "x=2", "x=q-1", "seeded")


def check_dsagen(L, kind, acc):
    from Crypto.PublicKey import DSA
    from ..keys import dsa_key
    N = dict(DSA_SIZES)[L]
    base = dsa_key(L, N)
    p, q, g = int(base.p), int(base.q), int(base.g)
    nb = (N + 64) // 8
    lowest = 1 << (N + 63)

    def c_for(xm1):          # smallest c >= 2^(N+63) with c mod (q-1) == xm1
        return lowest + ((xm1 - lowest) % (q - 1))
    head, lit = {"zero": (bytes(nb), None), "ones": (b"\xff" * nb, None), "seeded": (seeded("c18/dsagen/%d" % L, nb), None),
                 "x=1": (c_for(0).to_bytes(nb, "big"), 1), "x=2": (c_for(1).to_bytes(nb, "big"), 2),
                 "x=q-1": (c_for(q - 2).to_bytes(nb, "big"), q - 1)}[kind]
    label = _label("dsagen", L, kind)
    ck = _Chk("DSA.generate", "DSA.generate(%d, randfunc=tape[%s], domain=stored)" % (L, kind),
              {"part": "consumer", "spec": ["dsagen", L, kind]}, acc)

    def op(f):
        return DSA.generate(L, randfunc=f, domain=(p, q, g))
    acc.count("evaluations", 2)
    k1, f1, calls, sysn = observe(op, head, label)
    k2, f2, _, _ = observe(op, head, label)
    x = int(k1.x)
    if f1.total == 0:
        return ck.viol("randfunc-ignored", "the supplied entropy source was never read")
    if not 1 <= x <= q - 1:
        return ck.viol("out-of-range", "private key x outside [1, q-1]")
    if int(k2.x) != x or int(k2.y) != int(k1.y):
        return ck.viol("not-a-function-of-the-tape", "the same tape twice gave two different keys")
    fr = Feed(head, label)
    xref = ref_random(N + 64, True, fr) % (q - 1) + 1
    if x != xref:
        return ck.viol("differs-from-reference", "x differs from (c mod (q-1)) + 1 with c the N+64-bit integer read from the same bytes")
    if lit is not None and x != lit:
        return ck.viol("wrong-offset", "boundary tape must give %s" % kind)
    if int(k1.y) != pow(g, x, p):
        return ck.viol("public-key-mismatch", "y != g^x mod p")
    if not ck.calls(calls):
        return
    acc.observe("DSA.generate derives x = (c mod (q-1)) + 1 from N+64 bits c (FIPS 186-4 B.1.1 'extra random bits', with the top "
                "bit of c forced): in range, deterministic, within 2^-63 of uniform, but by design not a rejection sampler")
    if sysn:
        acc.observe("DSA.generate(domain=..., randfunc=...) draws the Miller-Rabin bases for checking the supplied domain from "
                    "the process-wide RNG (the key is unaffected)")
    acc.seen("classes", ("DSA.generate", L, kind))
    acc.seen("configs", ("dsagen", L, kind))


RSAGEN_KINDS = ("zero", "ones", "minp", "minp+1", "seeded")


def check_rsagen(bits, kind, acc):
    from Crypto.PublicKey import RSA
    from ..ref import nt
    size_q = bits // 2
    half = bits - size_q                 # size of the prime drawn first (p); the library swaps so that p < q afterwards
    nb = (half + 7) // 8
    minp = nt.isqrt(1 << (2 * half - 1))
    minq = nt.isqrt(1 << (2 * size_q - 1))
    head = {"zero": bytes(nb), "ones": b"\xff" * nb, "minp": minp.to_bytes(nb, "big"), "minp+1": (minp + 1).to_bytes(nb, "big"),
            "seeded": seeded("c18/rsagen/%d" % bits, nb)}[kind]
    label = _label("rsagen", bits, kind)
    ck = _Chk("RSA.generate", "RSA.generate(%d, randfunc=tape[%s])" % (bits, kind),
              {"part": "consumer", "spec": ["rsagen", bits, kind]}, acc)

    def op(f):
        return RSA.generate(bits, randfunc=f)
    acc.count("evaluations", 2)
    k1, f1, calls, sysn = observe(op, head, label)
    k2, f2, _, _ = observe(op, head, label)
    if f1.total == 0:
        return ck.viol("randfunc-ignored", "the supplied entropy source was never read")
    t1 = tuple(int(getattr(k1, a)) for a in "nedpqu")
    if t1 != tuple(int(getattr(k2, a)) for a in "nedpqu"):
        return ck.viol("not-a-function-of-the-tape", "the same tape twice gave two different keys")
    n, e, d, p, q, u = t1
    if n.bit_length() != bits or p * q != n:
        return ck.viol("out-of-range", "modulus has %d bits" % n.bit_length())
    small, large = sorted((p, q))
    if not (minq < small < (1 << size_q) and minp < large < (1 << half)):
        return ck.viol("out-of-range", "a prime factor lies outside (sqrt(2)*2^(size-1), 2^size) for its size (%d/%d bits)" % (size_q, half))
    if not ck.calls(calls):
        return
    cands = [c[3] | 1 for c in calls if c[0] == "random" and "exact_bits" in c[1]]
    first = [c for c in calls if c[0] == "random" and "exact_bits" in c[1]][0]
    exp_first = ref_random(half, True, T.Reader(head))
    if first[3] != exp_first:
        return ck.viol("internal-draw/differs-from-reference-rejection-sampler", "the first prime candidate is not the boundary value on the tape")
    if p not in cands or q not in cands:
        return ck.viol("prime-not-drawn-from-the-tape", "a prime factor is not one of the candidates Integer.random drew from the tape")
    if sysn:
        acc.observe("RSA.generate with randfunc consulted the process-wide RNG (key unaffected)")
    acc.count("rsa_candidates_checked", len(cands))
    acc.seen("classes", ("RSA.generate", bits, kind, "first-candidate-filtered" if kind in ("zero", "minp") else "first-candidate-tested"))
    acc.seen("configs", ("rsagen", bits, kind))


def check_dsafull(bits, acc):
    from Crypto.PublicKey import DSA
    label = _label("dsafull", bits)
    ck = _Chk("DSA.generate", "DSA.generate(%d, randfunc=tape) with fresh domain parameters" % bits,
              {"part": "consumer", "spec": ["dsafull", bits]}, acc)
    acc.count("evaluations", 2)
    k1, f1, calls, sysn = observe(lambda f: DSA.generate(bits, randfunc=f), b"", label)
    k2, f2, _, _ = observe(lambda f: DSA.generate(bits, randfunc=f), b"", label)
    t1 = tuple(int(getattr(k1, a)) for a in "pqgyx")
    if f1.total == 0:
        return ck.viol("randfunc-ignored", "the supplied entropy source was never read")
    if t1 != tuple(int(getattr(k2, a)) for a in "pqgyx"):
        return ck.viol("not-a-function-of-the-tape", "the same tape twice gave two different keys (domain or x)")
    p, q, g, y, x = t1
    if not 1 <= x <= q - 1 or pow(g, x, p) != y or p.bit_length() != bits:
        return ck.viol("out-of-range", "x outside [1, q-1] or inconsistent key")
    if not ck.calls(calls):
        return
    if sysn:
        acc.observe("DSA.generate with randfunc consulted the process-wide RNG (key unaffected)")
    acc.seen("classes", ("DSA.generate", bits, "fresh-domain"))
    acc.seen("configs", ("dsafull", bits))


# ---------------------------------------------------------------------------
# blinding factors: the process RNG (seam Crypto.Random.urandom) answers with a boundary tape
# ---------------------------------------------------------------------------
def check_blind(which, kind, acc):
    ck = _Chk("blinding/" + which, "%s signing with the process RNG answering from tape[%s]" % (which, kind),
              {"part": "consumer", "spec": ["blind", which, kind]}, acc)
    if which == "ECDSA":
        from Crypto.PublicKey import ECC
        from Crypto.Signature import DSS
        from Crypto.Hash import SHA256
        from ..ref import ec as REC
        c = REC.CURVES["p256"]
        order = c.order
        d = 1 + seeded_int("c18/blind-key", 320) % (order - 1)
        key = ECC.construct(curve="p256", d=d)
        h = SHA256.new(b"C18 blinding")
        op = lambda f: DSS.new(key, "deterministic-rfc6979").sign(h)  # noqa
        r, s = REC.ecdsa_sign_rfc6979(c, d, h.digest(), "sha256")[-2:]
        exp = r.to_bytes(32, "big") + s.to_bytes(32, "big")
    elif which == "DSA":
        from Crypto.Signature import DSS
        from Crypto.Hash import SHA256
        from ..keys import dsa_key
        from ..ref import dsa as RD
        key = dsa_key(1024, 160)
        order = int(key.q)
        h = SHA256.new(b"C18 blinding")
        op = lambda f: DSS.new(key, "deterministic-rfc6979").sign(h)  # noqa
        k_, r, s = RD.dsa_sign_deterministic(int(key.p), order, int(key.g), int(key.x), h.digest(), "sha256")
        exp = r.to_bytes(20, "big") + s.to_bytes(20, "big")
    else:
        from Crypto.Signature import pkcs1_15
        from Crypto.Hash import SHA256
        from ..keys import rsa_key
        from ..ref import rsa as RR
        key = rsa_key(1024)
        order = int(key.n)
        h = SHA256.new(b"C18 blinding")
        op = lambda f: pkcs1_15.new(key).sign(h)  # noqa
        em = RR.emsa_pkcs1_v15_encode("sha256", h.digest(), 128)
        exp = pow(int.from_bytes(em, "big"), int(key.d), order).to_bytes(128, "big")
    head, lit = boundary_heads(order - 2)[kind]
    label = _label("blind", which, kind)
    acc.count("evaluations")
    sig, f, calls, sysn = observe(op, b"", label, sys_head=head)
    if sig != exp:
        return ck.viol("result-depends-on-blinding", "signature differs from the reference signature when the blinding factor is drawn "
                       "from the boundary tape")
    blind = [c for c in calls if not c[2] and c[0] == "random_range"]
    if not blind:
        acc.error("%s: recorder saw no blinding draw from the process RNG" % ck.name)
        return
    if not ck.calls(calls):
        return
    b = blind[0]
    if b[1].get("min_inclusive") != 1 or b[1].get("max_exclusive") != order:
        acc.observe("%s blinding factor is drawn from an interval other than [1, order)" % which)
    elif lit is not None and b[3] != 1 + lit:
        return ck.viol("system-rng-draw/wrong-offset", "blinding factor for boundary tape is %s, expected 1+%s" % (short(b[3]), short(lit)))
    acc.seen("classes", ("blinding", which, "accepted" if lit is not None and "," not in kind else "rejected-first"))
    acc.seen("configs", ("blind", which, kind))


# ---------------------------------------------------------------------------
# the samplers themselves at full size, in every back-end
# ---------------------------------------------------------------------------
def big_bounds(loname, k, delta):
    if loname == "order":
        from ..ref import ec as REC
        n = REC.CURVES[k].order
        return 1, n - 1
    lo = 0 if loname == "0" else (1 << 300) + 7
    return lo, lo + (1 << k) + delta


def check_bigrange(be, loname, k, delta, kind, incl, acc):
    cls = backend(be)
    lo, hi = big_bounds(loname, k, delta)
    nm = hi - lo
    head, lit = boundary_heads(nm)[kind]
    label = _label("bigrange", loname, k, delta, kind)
    ck = _Chk("Integer.random_range", "Integer%s.random_range(min_inclusive=%s, %s=min+%s%+d%s, randfunc=tape[%s])"
              % (be, "1" if loname == "order" else ("0" if loname == "0" else "2^300+7"), "max_inclusive" if incl else "max_exclusive",
                 ("order(%s)" % k) if loname == "order" else "2^%d" % k, delta if loname != "order" else -2, "" if incl else "+1", kind),
              {"part": "consumer", "spec": ["bigrange", be, loname, k, delta, kind, incl]}, acc)
    kw = {"min_inclusive": lo}
    if incl:
        kw["max_inclusive"] = hi
    else:
        kw["max_exclusive"] = hi + 1
    acc.count("evaluations", 2)
    f1, f2, fr = Feed(head, label), Feed(head, label), Feed(head, label)
    with Tripwire() as tw:
        v = int(cls.random_range(randfunc=f1, **kw))
        v2 = int(cls.random_range(randfunc=f2, **kw))
    exp = ref_random_range(lo, hi, fr)
    if f1.total == 0:
        return ck.viol("randfunc-ignored", "the supplied entropy source was never read")
    if not lo <= v <= hi:
        return ck.viol("out-of-range", "result-min=%s, max-result=%s" % (short(v - lo), short(hi - v)))
    if v != v2:
        return ck.viol("not-a-function-of-the-tape", "the same tape twice gave two different values")
    if v != exp:
        return ck.viol("differs-from-reference-rejection-sampler", "result-min=%s, the plain rejection sampler on the same bytes gives min+%s"
                       % (short(v - lo), short(exp - lo)))
    if lit is not None and v != lo + lit:
        return ck.viol("wrong-offset", "boundary tape must give min+%s, got min+%s" % (short(lit), short(v - lo)))
    if f1.total != fr.total or [s for s in f1.sizes if s > 0] != [s for s in fr_sizes(lo, hi, head, label)]:
        acc.observe("Integer.random_range: entropy requests at full size differ from the reference rejection sampler")
    if tw.count:
        acc.observe("Integer.random_range with randfunc consulted the process-wide RNG (result unaffected)")
    nb = (max(1, nm.bit_length()) + 7) // 8
    acc.seen("classes", ("Integer.random_range/full-size", be, min(2, f1.total // nb - 1), "dirty" in kind, incl))
    acc.seen("configs", ("bigrange", be, loname, k, delta, kind, incl))


def fr_sizes(lo, hi, head, label):
    rd = T.Reader(b"")
    f = Feed(head, label)

    def r(n):
        if n > 0:
            rd.sizes.append(n)
        return f(n)
    ref_random_range(lo, hi, r)
    return rd.sizes


def check_bigrandom(be, bits, exact, kind, acc):
    cls = backend(be)
    nb = (bits + 7) // 8
    head = {"zero": bytes(nb), "ones": b"\xff" * nb, "ascending": bytes((i + 1) & 255 for i in range(nb)),
            "seeded": seeded("c18/bigrandom/%d" % bits, nb)}[kind]
    label = _label("bigrandom", bits, exact, kind)
    ck = _Chk("Integer.random", "Integer%s.random(%s=%d, randfunc=tape[%s])" % (be, "exact_bits" if exact else "max_bits", bits, kind),
              {"part": "consumer", "spec": ["bigrandom", be, bits, exact, kind]}, acc)
    kw = {"exact_bits" if exact else "max_bits": bits}
    acc.count("evaluations", 2)
    f1, f2 = Feed(head, label), Feed(head, label)
    v = int(cls.random(randfunc=f1, **kw))
    v2 = int(cls.random(randfunc=f2, **kw))
    exp = ref_random(bits, exact, T.Reader(head))
    if f1.total == 0:
        return ck.viol("randfunc-ignored", "the supplied entropy source was never read")
    if v >> bits or (exact and v.bit_length() != bits):
        return ck.viol("out-of-range", "result has %d bits" % v.bit_length())
    if v != v2:
        return ck.viol("not-a-function-of-the-tape", "the same tape twice gave two different values")
    if v != exp:
        return ck.viol("differs-from-reference", "result %s, reference on the same bytes %s" % (short(v), short(exp)))
    if f1.total != nb:
        acc.observe("Integer.random consumed %+d bytes relative to ceil(bits/8)" % (f1.total - nb))
    acc.seen("classes", ("Integer.random/full-size", be, bits % 8, exact, kind))
    acc.seen("configs", ("bigrandom", be, bits, exact, kind))


def check_consumer(spec, acc):
    from ..common import exc_site
    acc.count("configs_done")
    try:
        _check_consumer(spec, acc)
    except Exception as e:  # noqa  (a library exception on a boundary tape)
        if "/mc/" in (e.__traceback__.tb_next.tb_frame.f_code.co_filename if e.__traceback__.tb_next else "") and exc_site(e) == "?":
            raise
        site = exc_site(e)
        if site == "?":
            raise
        acc.violation("C18/%s/%s@%s" % (spec[0], type(e).__name__, site),
                      "consumer %s on its boundary tape raises %s(%s) at %s" % (short(list(spec)), type(e).__name__, e, site),
                      {"part": "consumer", "spec": list(spec)})


def _check_consumer(spec, acc):
    spec = list(spec)
    k = spec[0]
    if k == "ecgen":
        check_ecgen(spec[1], spec[2], acc)
    elif k == "ecseed":
        check_ecseed(spec[1], spec[2], acc)
    elif k == "ecdsa":
        check_ecdsa(spec[1], spec[2], acc)
    elif k == "dsasig":
        check_dsasig(spec[1], spec[2], acc)
    elif k == "dsagen":
        check_dsagen(spec[1], spec[2], acc)
    elif k == "rsagen":
        check_rsagen(spec[1], spec[2], acc)
    elif k == "dsafull":
        check_dsafull(spec[1], acc)
    elif k == "blind":
        check_blind(spec[1], spec[2], acc)
    elif k == "bigrange":
        check_bigrange(spec[1], spec[2], spec[3], spec[4], spec[5], spec[6], acc)
    elif k == "bigrandom":
        check_bigrandom(spec[1], spec[2], spec[3], spec[4], acc)
    else:
        raise ValueError(spec)
