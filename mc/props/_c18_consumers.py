"""C18 at cryptographic sizes: boundary tapes for the consumers of Integer.random / random_range.

Every check drives the real consumer with a byte stream `head || Stream(label)` where `head` is the exact
byte string the sampler reads for its first attempt(s) (0..0, F..F, bound-1, bound, bound+1, with and
without the masked-off top bits set).  Oracles: documented bounds; equality with the plain reference
rejection sampler on the same bytes (for the result and for every recorded Integer.random/random_range
call made on the way, including blinding factors drawn from the process RNG); same tape twice => same key."""
import hashlib

from ..common import SEED, seeded, seeded_int, short
from . import _c18_tape as T
from ._c18_tape import Feed, Recorder, Tripwire, check_recorded_call, ref_random, ref_random_range
from ._c18_targets import backend

P_CURVES = ("p192", "p224", "p256", "p384", "p521")
SEED_CURVES = {"ed25519": 32, "ed448": 57, "curve25519": 32, "curve448": 56}
DSA_SIZES = ((1024, 160), (2048, 224), (3072, 256))
SEED_KINDS = ("zero", "ones", "ascending", "seeded")


def boundary_heads(nm):
    """-> {kind: (head bytes, expected candidate of the accepted attempt or None when only the reference knows)}
    for a sampler of [0, nm] that reads bitlen(nm) bits per attempt, top byte first."""
    bits = max(1, nm.bit_length())
    nb = (bits + 7) // 8
    sig = bits - 8 * (nb - 1)
    dirty = (0xFF << sig) & 0xFF
    top = (1 << bits) - 1

    def enc(v, d=False):
        b = bytearray(v.to_bytes(nb, "big"))
        if d:
            b[0] |= dirty
        return bytes(b)
    H = {"zero": (enc(0), 0), "bound": (enc(nm), nm), "ones": (b"\xff" * nb, nm if nm == top else None)}
    if nm >= 1:
        H["one"] = (enc(1), 1)
        H["bound-1"] = (enc(nm - 1), nm - 1)
    if nm + 1 <= top:
        H["bound+1"] = (enc(nm + 1), None)
        H["bound+1,ones,bound"] = (enc(nm + 1) + b"\xff" * nb + enc(nm), nm)
    if dirty:
        H["zero/dirty-top-bits"] = (enc(0, True), 0)
        H["bound/dirty-top-bits"] = (enc(nm, True), nm)
        if nm + 1 <= top:
            H["bound+1/dirty-top-bits,zero"] = (enc(nm + 1, True) + enc(0), 0)
    return H


def head_kinds(nm):
    return sorted(boundary_heads(nm))


def _label(*a):
    return "c18/%d/%s" % (SEED, "/".join(str(x) for x in a))


def observe(op, head, label, sys_head=None):
    """run op(feed) with the recorder and the tripwire in place -> (result, feed, recorded calls, system RNG requests)"""
    elog = []
    feed = Feed(head, label, elog)
    sysfeed = Feed(sys_head, label + "/system", elog) if sys_head is not None else None
    with Tripwire(feed=sysfeed, log=None if sysfeed is not None else elog) as tw:
        with Recorder(elog) as rec:
            res = op(feed)
    return res, feed, rec.calls, tw.count


class _Chk(object):
    def __init__(self, fam, name, case, acc):
        self.fam, self.name, self.case, self.acc = fam, name, case, acc
        self.failed = False
        self.size = sum(x if isinstance(x, int) else len(str(x)) for x in case["spec"])

    def viol(self, tag, text, script=None):
        self.failed = True
        self.acc.violation("C18/%s/%s" % (self.fam, tag), "%s: %s" % (self.name, text), self.case, script=script, size=self.size)

    def calls(self, calls, want_rf=None):
        """every recorded Integer.random / random_range call must be in bounds and equal the reference"""
        for c in sorted(calls, key=lambda c: not c[2]):      # draws from the caller's tape first (deterministic)
            self.acc.count("recorded_integer_draws")
            self.acc.seen("recorded", (self.fam, c[0], c[2]))
            r = check_recorded_call(c)
            if r:
                self.viol("%s/%s" % ("internal-draw" if c[2] else "system-rng-draw",
                                     r[0] if r[0] == "out-of-range" else "not-the-reference-rejection-sampler"), r[1])
                return False
        return True


def _ref_curve(curve):
    from ..ref import ec as REC
    return REC, REC.CURVES[curve]


# ---------------------------------------------------------------------------
def check_ecgen(curve, kind, acc):
    from Crypto.PublicKey import ECC
    REC, c = _ref_curve(curve)
    n = c.order
    head, lit = boundary_heads(n - 2)[kind]
    label = _label("ecgen", curve, kind)
    ck = _Chk("ECC.generate", "ECC.generate(curve=%r, randfunc=tape[%s])" % (curve, kind),
              {"part": "consumer", "spec": ["ecgen", curve, kind]}, acc)
    acc.count("evaluations", 2)
    k1, f1, calls, sysn = observe(lambda f: ECC.generate(curve=curve, randfunc=f), head, label)
    k2, f2, _, _ = observe(lambda f: ECC.generate(curve=curve, randfunc=f), head, label)
    fr = Feed(head, label)
    dref = ref_random_range(1, n - 1, fr)
    d = int(k1.d)
    if f1.total == 0:
        return ck.viol("randfunc-ignored", "the supplied entropy source was never read")
    if not 1 <= d <= n - 1:
        return ck.viol("out-of-range", "private scalar d outside [1, order-1] (d-1=%s, order-1-d=%s)" % (short(d - 1), short(n - 1 - d)))
    if int(k2.d) != d or k2.pointQ != k1.pointQ:
        return ck.viol("not-a-function-of-the-tape", "the same tape twice gave two different keys")
    if d != dref:
        return ck.viol("differs-from-reference-rejection-sampler",
                       "d=%s, the plain rejection sampler on the same bytes gives %s" % (short(d), short(dref)))
    if lit is not None and d != 1 + lit:
        return ck.viol("wrong-offset", "boundary tape must give d = 1 + %s, got %s" % (short(lit), short(d)))
    Q = REC.mul(c, d, c.G)
    if (int(k1.pointQ.x), int(k1.pointQ.y)) != tuple(Q):
        return ck.viol("public-point-mismatch", "public point is not d*G for the generated d")
    if not ck.calls(calls):
        return
    if f1.total != fr.total:
        acc.observe("ECC.generate consumed a different number of bytes than the reference rejection sampler")
    if sysn:
        acc.observe("ECC.generate with randfunc consulted the process-wide RNG (result unaffected)")
    first_nb = ((n - 2).bit_length() + 7) // 8
    acc.seen("classes", ("ECC.generate", curve, "first-attempt-accepted" if f1.total == first_nb else "rejected-%d" % min(2, f1.total // first_nb - 1),
                         "dirty" in kind))
    acc.seen("configs", ("ecgen", curve, kind))


def check_ecseed(curve, kind, acc):
    from Crypto.PublicKey import ECC
    from ..ref import ec as REC
    L = SEED_CURVES[curve]
    head = {"zero": bytes(L), "ones": b"\xff" * L, "ascending": bytes(range(L)), "seeded": seeded("c18/ecseed/" + curve, L)}[kind]
    label = _label("ecseed", curve, kind)
    ck = _Chk("ECC.generate", "ECC.generate(curve=%r, randfunc=tape[%s])" % (curve, kind),
              {"part": "consumer", "spec": ["ecseed", curve, kind]}, acc)
    acc.count("evaluations", 2)
    k1, f1, calls, sysn = observe(lambda f: ECC.generate(curve=curve, randfunc=f), head, label)
    k2, f2, _, _ = observe(lambda f: ECC.generate(curve=curve, randfunc=f), head, label)
    if f1.total == 0:
        return ck.viol("randfunc-ignored", "the supplied entropy source was never read")
    pub1 = k1.public_key().export_key(format="raw")
    if k1.seed != k2.seed or pub1 != k2.public_key().export_key(format="raw"):
        return ck.viol("not-a-function-of-the-tape", "the same tape twice gave two different keys")
    if k1.seed != head or f1.total != L:
        return ck.viol("seed-is-not-the-tape", "seed %s is not the %d bytes read from the tape (%d bytes read)" % (short(k1.seed), L, f1.total))
    exp = {"ed25519": lambda s: REC.ed_public("ed25519", s), "ed448": lambda s: REC.ed_public("ed448", s),
           "curve25519": REC.x25519_base, "curve448": REC.x448_base}[curve](head)
    if pub1 != exp:
        return ck.viol("public-key-mismatch", "public key %s, reference derivation from the seed gives %s" % (short(pub1), short(exp)))
    ck.calls(calls)
    if sysn:
        acc.observe("ECC.generate with randfunc consulted the process-wide RNG (result unaffected)")
    acc.seen("classes", ("ECC.generate", curve, "seed", kind))
    acc.seen("configs", ("ecseed", curve, kind))


def check_ecdsa(curve, kind, acc):
    from Crypto.PublicKey import ECC
    from Crypto.Signature import DSS
    from Crypto.Hash import SHA512
    REC, c = _ref_curve(curve)
    n = c.order
    head, lit = boundary_heads(n - 2)[kind]
    label = _label("ecdsa", curve, kind)
    ck = _Chk("DSS.fips-186-3.ECDSA-nonce", "DSS.new(%s key, 'fips-186-3', randfunc=tape[%s]).sign" % (curve, kind),
              {"part": "consumer", "spec": ["ecdsa", curve, kind]}, acc)
    d = 1 + seeded_int("c18/ecdsa-key/" + curve, n.bit_length() + 64) % (n - 1)
    key = ECC.construct(curve=curve, d=d)
    h = SHA512.new(b"C18 message")

    def op(f):
        return DSS.new(key, "fips-186-3", randfunc=f).sign(h)
    acc.count("evaluations", 2)
    s1, f1, calls, sysn = observe(op, head, label)
    s2, f2, _, _ = observe(op, head, label)
    if f1.total == 0:
        return ck.viol("randfunc-ignored", "the supplied entropy source was never read")
    if s1 != s2:
        return ck.viol("not-a-function-of-the-tape", "the same tape twice gave two different signatures")
    fr = Feed(head, label)
    k = ref_random_range(1, n - 1, fr)
    if lit is not None and k != 1 + lit:
        acc.error("reference nonce for boundary tape %s is not 1+candidate" % kind)
    r, s = REC.ecdsa_sign(c, d, h.digest(), k)
    L = len(s1) // 2
    got = (int.from_bytes(s1[:L], "big"), int.from_bytes(s1[L:], "big"))
    if got != (r, s):
        return ck.viol("nonce-differs-from-reference-rejection-sampler",
                       "signature is not the ECDSA signature with the nonce k the plain rejection sampler draws from the same bytes "
                       "(k %s)" % ("= order-1" if k == n - 1 else "= %s" % short(k)))
    if not ck.calls(calls):
        return
    if not any(c_[2] for c_ in calls):
        acc.error("recorder saw no random_range call with the caller's randfunc during FIPS ECDSA signing")
    acc.seen("classes", ("ECDSA-nonce", curve, "accepted" if lit is not None and "," not in kind else "rejected-first", "dirty" in kind))
    acc.seen("configs", ("ecdsa", curve, kind))
    if sysn:
        acc.count("blinding_draws_from_system_rng", sysn)


def check_dsasig(L, kind, acc):
    from Crypto.Signature import DSS
    from Crypto.Hash import SHA256
    from ..keys import dsa_key
    from ..ref import dsa as RD
    N = dict(DSA_SIZES)[L]
    key = dsa_key(L, N)
    p, q, g, x = int(key.p), int(key.q), int(key.g), int(key.x)
    head, lit = boundary_heads(q - 2)[kind]
    label = _label("dsasig", L, kind)
    ck = _Chk("DSS.fips-186-3.DSA-nonce", "DSS.new(DSA-%d key, 'fips-186-3', randfunc=tape[%s]).sign" % (L, kind),
              {"part": "consumer", "spec": ["dsasig", L, kind]}, acc)
    h = SHA256.new(b"C18 message")

    def op(f):
        return DSS.new(key, "fips-186-3", randfunc=f).sign(h)
    acc.count("evaluations", 2)
    k = ref_random_range(1, q - 1, Feed(head, label))
    try:
        s1, f1, calls, sysn = observe(op, head, label)
    except ValueError as e:
        acc.seen("classes", ("DSA-nonce", L, "sign-raises", k == 1))
        return ck.viol("drawn-nonce-refused-by-signer",
                       "sign() raises ValueError(%r): FipsDsaSigScheme draws the nonce with random_range(min_inclusive=1, "
                       "max_exclusive=q) and this tape (first %d bytes %s) makes it draw k = %s, which DsaKey._sign does not "
                       "accept (it demands 1 < k < q)" % (str(e), len(head), short(head, 16), "1" if k == 1 else short(k)),
                       script=DSA_NONCE_SCRIPT % (p, q, g, x, head.hex()))
    s2, f2, _, _ = observe(op, head, label)
    if f1.total == 0:
        return ck.viol("randfunc-ignored", "the supplied entropy source was never read")
    if s1 != s2:
        return ck.viol("not-a-function-of-the-tape", "the same tape twice gave two different signatures")
    r, s = RD.dsa_sign(p, q, g, x, h.digest(), k)
    Lb = len(s1) // 2
    if (int.from_bytes(s1[:Lb], "big"), int.from_bytes(s1[Lb:], "big")) != (r, s):
        return ck.viol("nonce-differs-from-reference-rejection-sampler",
                       "signature is not the DSA signature with the nonce the plain rejection sampler draws from the same bytes")
    if not ck.calls(calls):
        return
    acc.seen("classes", ("DSA-nonce", L, "accepted" if lit is not None and "," not in kind else "rejected-first"))
    acc.seen("configs", ("dsasig", L, kind))
    if sysn:
        acc.count("blinding_draws_from_system_rng", sysn)


DSA_NONCE_SCRIPT = """from Crypto.PublicKey import DSA
from Crypto.Signature import DSS
from Crypto.Hash import SHA256
p, q, g, x = %d, %d, %d, %d
key = DSA.construct((pow(g, x, p), g, p, q, x))
head = bytes.fromhex("%s")          # the bytes the nonce sampler reads first
tape = iter(head + bytes(1000))
signer = DSS.new(key, "fips-186-3", randfunc=lambda n: bytes(next(tape) for _ in range(n)))
signer.sign(SHA256.new(b"C18 message"))   # ValueError: k is not between 2 and q-1  (the sampler drew k = 1)
"""

DSAGEN_KINDS = ("zero", "ones", "x=1", "x=2", "x=q-1", "seeded")


def check_dsagen(L, kind, acc):
    from Crypto.PublicKey import DSA
    from ..keys import dsa_key
    N = dict(DSA_SIZES)[L]
    base = dsa_key(L, N)
    p, q, g = int(base.p), int(base.q), int(base.g)
    nb = (N + 64) // 8
    lowest = 1 << (N + 63)

    def c_for(xm1):          # smallest c >= 2^(N+63) with c mod (q-1) == xm1
        return lowest + ((xm1 - lowest) % (q - 1))
    head, lit = {"zero": (bytes(nb), None), "ones": (b"\xff" * nb, None), "seeded": (seeded("c18/dsagen/%d" % L, nb), None),
                 "x=1": (c_for(0).to_bytes(nb, "big"), 1), "x=2": (c_for(1).to_bytes(nb, "big"), 2),
                 "x=q-1": (c_for(q - 2).to_bytes(nb, "big"), q - 1)}[kind]
    label = _label("dsagen", L, kind)
    ck = _Chk("DSA.generate", "DSA.generate(%d, randfunc=tape[%s], domain=stored)" % (L, kind),
              {"part": "consumer", "spec": ["dsagen", L, kind]}, acc)

    def op(f):
        return DSA.generate(L, randfunc=f, domain=(p, q, g))
    acc.count("evaluations", 2)
    k1, f1, calls, sysn = observe(op, head, label)
    k2, f2, _, _ = observe(op, head, label)
    x = int(k1.x)
    if f1.total == 0:
        return ck.viol("randfunc-ignored", "the supplied entropy source was never read")
    if not 1 <= x <= q - 1:
        return ck.viol("out-of-range", "private key x outside [1, q-1]")
    if int(k2.x) != x or int(k2.y) != int(k1.y):
        return ck.viol("not-a-function-of-the-tape", "the same tape twice gave two different keys")
    fr = Feed(head, label)
    xref = ref_random(N + 64, True, fr) % (q - 1) + 1
    if x != xref:
        return ck.viol("differs-from-reference", "x differs from (c mod (q-1)) + 1 with c the N+64-bit integer read from the same bytes")
    if lit is not None and x != lit:
        return ck.viol("wrong-offset", "boundary tape must give %s" % kind)
    if int(k1.y) != pow(g, x, p):
        return ck.viol("public-key-mismatch", "y != g^x mod p")
    if not ck.calls(calls):
        return
    acc.observe("DSA.generate derives x = (c mod (q-1)) + 1 from N+64 bits c (FIPS 186-4 B.1.1 'extra random bits', with the top "
                "bit of c forced): in range, deterministic, within 2^-63 of uniform, but by design not a rejection sampler")
    if sysn:
        acc.observe("DSA.generate(domain=..., randfunc=...) draws the Miller-Rabin bases for checking the supplied domain from "
                    "the process-wide RNG (the key is unaffected)")
    acc.seen("classes", ("DSA.generate", L, kind))
    acc.seen("configs", ("dsagen", L, kind))


RSAGEN_KINDS = ("zero", "ones", "minp", "minp+1", "seeded")


def check_rsagen(bits, kind, acc):
    from Crypto.PublicKey import RSA
    from ..ref import nt
    size_q = bits // 2
    half = bits - size_q                 # size of the prime drawn first (p); the library swaps so that p < q afterwards
    nb = (half + 7) // 8
    minp = nt.isqrt(1 << (2 * half - 1))
    minq = nt.isqrt(1 << (2 * size_q - 1))
    head = {"zero": bytes(nb), "ones": b"\xff" * nb, "minp": minp.to_bytes(nb, "big"), "minp+1": (minp + 1).to_bytes(nb, "big"),
            "seeded": seeded("c18/rsagen/%d" % bits, nb)}[kind]
    label = _label("rsagen", bits, kind)
    ck = _Chk("RSA.generate", "RSA.generate(%d, randfunc=tape[%s])" % (bits, kind),
              {"part": "consumer", "spec": ["rsagen", bits, kind]}, acc)

    def op(f):
        return RSA.generate(bits, randfunc=f)
    acc.count("evaluations", 2)
    k1, f1, calls, sysn = observe(op, head, label)
    k2, f2, _, _ = observe(op, head, label)
    if f1.total == 0:
        return ck.viol("randfunc-ignored", "the supplied entropy source was never read")
    t1 = tuple(int(getattr(k1, a)) for a in "nedpqu")
    if t1 != tuple(int(getattr(k2, a)) for a in "nedpqu"):
        return ck.viol("not-a-function-of-the-tape", "the same tape twice gave two different keys")
    n, e, d, p, q, u = t1
    if n.bit_length() != bits or p * q != n:
        return ck.viol("out-of-range", "modulus has %d bits" % n.bit_length())
    small, large = sorted((p, q))
    if not (minq < small < (1 << size_q) and minp < large < (1 << half)):
        return ck.viol("out-of-range", "a prime factor lies outside (sqrt(2)*2^(size-1), 2^size) for its size (%d/%d bits)" % (size_q, half))
    if not ck.calls(calls):
        return
    cands = [c[3] | 1 for c in calls if c[0] == "random" and "exact_bits" in c[1]]
    first = [c for c in calls if c[0] == "random" and "exact_bits" in c[1]][0]
    exp_first = ref_random(half, True, T.Reader(head))
    if first[3] != exp_first:
        return ck.viol("internal-draw/differs-from-reference-rejection-sampler", "the first prime candidate is not the boundary value on the tape")
    if p not in cands or q not in cands:
        return ck.viol("prime-not-drawn-from-the-tape", "a prime factor is not one of the candidates Integer.random drew from the tape")
    if sysn:
        acc.observe("RSA.generate with randfunc consulted the process-wide RNG (key unaffected)")
    acc.count("rsa_candidates_checked", len(cands))
    acc.seen("classes", ("RSA.generate", bits, kind, "first-candidate-filtered" if kind in ("zero", "minp") else "first-candidate-tested"))
    acc.seen("configs", ("rsagen", bits, kind))


def check_dsafull(bits, acc):
    from Crypto.PublicKey import DSA
    label = _label("dsafull", bits)
    ck = _Chk("DSA.generate", "DSA.generate(%d, randfunc=tape) with fresh domain parameters" % bits,
              {"part": "consumer", "spec": ["dsafull", bits]}, acc)
    acc.count("evaluations", 2)
    k1, f1, calls, sysn = observe(lambda f: DSA.generate(bits, randfunc=f), b"", label)
    k2, f2, _, _ = observe(lambda f: DSA.generate(bits, randfunc=f), b"", label)
    t1 = tuple(int(getattr(k1, a)) for a in "pqgyx")
    if f1.total == 0:
        return ck.viol("randfunc-ignored", "the supplied entropy source was never read")
    if t1 != tuple(int(getattr(k2, a)) for a in "pqgyx"):
        return ck.viol("not-a-function-of-the-tape", "the same tape twice gave two different keys (domain or x)")
    p, q, g, y, x = t1
    if not 1 <= x <= q - 1 or pow(g, x, p) != y or p.bit_length() != bits:
        return ck.viol("out-of-range", "x outside [1, q-1] or inconsistent key")
    if not ck.calls(calls):
        return
    if sysn:
        acc.observe("DSA.generate with randfunc consulted the process-wide RNG (key unaffected)")
    acc.seen("classes", ("DSA.generate", bits, "fresh-domain"))
    acc.seen("configs", ("dsafull", bits))


# ---------------------------------------------------------------------------
# blinding factors: the process RNG (seam Crypto.Random.urandom) answers with a boundary tape
# ---------------------------------------------------------------------------
def check_blind(which, kind, acc):
    full = which
    which, _, arg = which.partition("/")          # "ECDSA" (= p256), "ECDSA/p384", "DSA/2048", "RSA/1031", ...
    ck = _Chk("blinding/" + which, "%s signing with the process RNG answering from tape[%s]" % (full, kind),
              {"part": "consumer", "spec": ["blind", full, kind]}, acc)
    if which == "ECDSA":
        from Crypto.PublicKey import ECC
        from Crypto.Signature import DSS
        from Crypto.Hash import SHA256
        from ..ref import ec as REC
        cv = arg or "p256"
        c = REC.CURVES[cv]
        order = c.order
        d = 1 + seeded_int("c18/blind-key" + ("/" + arg if arg else ""), order.bit_length() + 64) % (order - 1)
        key = ECC.construct(curve=cv, d=d)
        h = SHA256.new(b"C18 blinding")
        op = lambda f: DSS.new(key, "deterministic-rfc6979").sign(h)  # noqa
        r, s = REC.ecdsa_sign_rfc6979(c, d, h.digest(), "sha256")[-2:]
        ol = (order.bit_length() + 7) // 8
        exp = r.to_bytes(ol, "big") + s.to_bytes(ol, "big")
    elif which == "DSA":
        from Crypto.Signature import DSS
        from Crypto.Hash import SHA256
        from ..keys import dsa_key
        from ..ref import dsa as RD
        Lp = int(arg or 1024)
        key = dsa_key(Lp, dict(DSA_SIZES)[Lp])
        order = int(key.q)
        h = SHA256.new(b"C18 blinding")
        op = lambda f: DSS.new(key, "deterministic-rfc6979").sign(h)  # noqa
        k_, r, s = RD.dsa_sign_deterministic(int(key.p), order, int(key.g), int(key.x), h.digest(), "sha256")
        ol = (order.bit_length() + 7) // 8
        exp = r.to_bytes(ol, "big") + s.to_bytes(ol, "big")
    else:
        from Crypto.Signature import pkcs1_15
        from Crypto.Hash import SHA256
        from ..keys import rsa_key
        from ..ref import rsa as RR
        key = rsa_key(int(arg or 1024))
        order = int(key.n)
        h = SHA256.new(b"C18 blinding")
        op = lambda f: pkcs1_15.new(key).sign(h)  # noqa
        kl = (order.bit_length() + 7) // 8
        em = RR.emsa_pkcs1_v15_encode("sha256", h.digest(), kl)
        exp = pow(int.from_bytes(em, "big"), int(key.d), order).to_bytes(kl, "big")
    head, lit = boundary_heads(order - 2)[kind]
    label = _label("blind", which, kind)
    acc.count("evaluations")
    sig, f, calls, sysn = observe(op, b"", label, sys_head=head)
    if sig != exp:
        return ck.viol("result-depends-on-blinding", "signature differs from the reference signature when the blinding factor is drawn "
                       "from the boundary tape")
    blind = [c for c in calls if not c[2] and c[0] == "random_range"]
    if not blind:
        acc.error("%s: recorder saw no blinding draw from the process RNG" % ck.name)
        return
    if not ck.calls(calls):
        return
    b = blind[0]
    if b[1].get("min_inclusive") != 1 or b[1].get("max_exclusive") != order:
        acc.observe("%s blinding factor is drawn from an interval other than [1, order)" % which)
    elif lit is not None and b[3] != 1 + lit:
        return ck.viol("system-rng-draw/wrong-offset", "blinding factor for boundary tape is %s, expected 1+%s" % (short(b[3]), short(lit)))
    acc.seen("classes", ("blinding", full, "accepted" if lit is not None and "," not in kind else "rejected-first"))
    acc.seen("configs", ("blind", full, kind))


# ---------------------------------------------------------------------------
# the samplers themselves at full size, in every back-end
# ---------------------------------------------------------------------------
def big_bounds(loname, k, delta):
    if loname == "order":
        from ..ref import ec as REC
        n = REC.CURVES[k].order
        return 1, n - 1
    lo = 0 if loname == "0" else (1 << 300) + 7
    return lo, lo + (1 << k) + delta


def check_bigrange(be, loname, k, delta, kind, incl, acc):
    cls = backend(be)
    lo, hi = big_bounds(loname, k, delta)
    nm = hi - lo
    head, lit = boundary_heads(nm)[kind]
    label = _label("bigrange", loname, k, delta, kind)
    ck = _Chk("Integer.random_range", "Integer%s.random_range(min_inclusive=%s, %s=min+%s%+d%s, randfunc=tape[%s])"
              % (be, "1" if loname == "order" else ("0" if loname == "0" else "2^300+7"), "max_inclusive" if incl else "max_exclusive",
                 ("order(%s)" % k) if loname == "order" else "2^%d" % k, delta if loname != "order" else -2, "" if incl else "+1", kind),
              {"part": "consumer", "spec": ["bigrange", be, loname, k, delta, kind, incl]}, acc)
    kw = {"min_inclusive": lo}
    if incl:
        kw["max_inclusive"] = hi
    else:
        kw["max_exclusive"] = hi + 1
    acc.count("evaluations", 2)
    f1, f2, fr = Feed(head, label), Feed(head, label), Feed(head, label)
    with Tripwire() as tw:
        v = int(cls.random_range(randfunc=f1, **kw))
        v2 = int(cls.random_range(randfunc=f2, **kw))
    exp = ref_random_range(lo, hi, fr)
    if f1.total == 0:
        return ck.viol("randfunc-ignored", "the supplied entropy source was never read")
    if not lo <= v <= hi:
        return ck.viol("out-of-range", "result-min=%s, max-result=%s" % (short(v - lo), short(hi - v)))
    if v != v2:
        return ck.viol("not-a-function-of-the-tape", "the same tape twice gave two different values")
    if v != exp:
        return ck.viol("differs-from-reference-rejection-sampler", "result-min=%s, the plain rejection sampler on the same bytes gives min+%s"
                       % (short(v - lo), short(exp - lo)))
    if lit is not None and v != lo + lit:
        return ck.viol("wrong-offset", "boundary tape must give min+%s, got min+%s" % (short(lit), short(v - lo)))
    if f1.total != fr.total or [s for s in f1.sizes if s > 0] != [s for s in fr_sizes(lo, hi, head, label)]:
        acc.observe("Integer.random_range: entropy requests at full size differ from the reference rejection sampler")
    if tw.count:
        acc.observe("Integer.random_range with randfunc consulted the process-wide RNG (result unaffected)")
    nb = (max(1, nm.bit_length()) + 7) // 8
    acc.seen("classes", ("Integer.random_range/full-size", be, min(2, f1.total // nb - 1), "dirty" in kind, incl))
    acc.seen("configs", ("bigrange", be, loname, k, delta, kind, incl))


def fr_sizes(lo, hi, head, label):
    rd = T.Reader(b"")
    f = Feed(head, label)

    def r(n):
        if n > 0:
            rd.sizes.append(n)
        return f(n)
    ref_random_range(lo, hi, r)
    return rd.sizes


def check_bigrandom(be, bits, exact, kind, acc):
    cls = backend(be)
    nb = (bits + 7) // 8
    head = {"zero": bytes(nb), "ones": b"\xff" * nb, "ascending": bytes((i + 1) & 255 for i in range(nb)),
            "seeded": seeded("c18/bigrandom/%d" % bits, nb)}[kind]
    label = _label("bigrandom", bits, exact, kind)
    ck = _Chk("Integer.random", "Integer%s.random(%s=%d, randfunc=tape[%s])" % (be, "exact_bits" if exact else "max_bits", bits, kind),
              {"part": "consumer", "spec": ["bigrandom", be, bits, exact, kind]}, acc)
    kw = {"exact_bits" if exact else "max_bits": bits}
    acc.count("evaluations", 2)
    f1, f2 = Feed(head, label), Feed(head, label)
    v = int(cls.random(randfunc=f1, **kw))
    v2 = int(cls.random(randfunc=f2, **kw))
    exp = ref_random(bits, exact, T.Reader(head))
    if f1.total == 0:
        return ck.viol("randfunc-ignored", "the supplied entropy source was never read")
    if v >> bits or (exact and v.bit_length() != bits):
        return ck.viol("out-of-range", "result has %d bits" % v.bit_length())
    if v != v2:
        return ck.viol("not-a-function-of-the-tape", "the same tape twice gave two different values")
    if v != exp:
        return ck.viol("differs-from-reference", "result %s, reference on the same bytes %s" % (short(v), short(exp)))
    if f1.total != nb:
        acc.observe("Integer.random consumed %+d bytes relative to ceil(bits/8)" % (f1.total - nb))
    acc.seen("classes", ("Integer.random/full-size", be, bits % 8, exact, kind))
    acc.seen("configs", ("bigrandom", be, bits, exact, kind))


# ---------------------------------------------------------------------------
# further consumers (thorough tier): Miller-Rabin bases, prime generators, ElGamal, HPKE ephemeral keys
# ---------------------------------------------------------------------------
def legacy_heads(nm):
    """boundary heads for Crypto.Util.number.getRandomRange-style sampling of [0, nm]: getRandomInteger(bits) reads the
    bits>>3 LOW bytes first and then, when bits%8 != 0, one byte whose HIGH bits%8 bits become the top bits."""
    bits = nm.bit_length()
    nlow, odd = bits >> 3, bits & 7
    nb = nlow + (1 if odd else 0)
    top = (1 << bits) - 1

    def enc(v, d=False):
        low = (v & ((1 << (8 * nlow)) - 1)).to_bytes(nlow, "big")
        if not odd:
            return low
        tb = (v >> (8 * nlow)) << (8 - odd)
        if d:
            tb |= (1 << (8 - odd)) - 1
        return low + bytes([tb])
    H = {"zero": (enc(0), 0), "bound": (enc(nm), nm), "ones": (b"\xff" * nb, nm if nm == top else None)}
    if nm >= 1:
        H["one"] = (enc(1), 1)
        H["bound-1"] = (enc(nm - 1), nm - 1)
    if nm + 1 <= top:
        H["bound+1"] = (enc(nm + 1), None)
        H["bound+1,ones,bound"] = (enc(nm + 1) + b"\xff" * nb + enc(nm), nm)
    if odd:
        H["zero/dirty-low-bits"] = (enc(0, True), 0)
        H["bound/dirty-low-bits"] = (enc(nm, True), nm)
        if nm + 1 <= top:
            H["bound+1/dirty-low-bits,zero"] = (enc(nm + 1, True) + enc(0), 0)
    return H


def legacy_kinds(nm):
    return sorted(legacy_heads(nm))


def ref_legacy_range(nm, rd):
    while True:
        v = T.ref_legacy_range_attempt(nm, rd)
        if v is not None:
            return v


def _mr_number(which):
    """-> (n, is it prime)"""
    from ..ref import ec as REC
    from ..keys import rsa_components
    if which in P_CURVES:
        return REC.CURVES[which].order, True
    if which == "m521":
        return (1 << 521) - 1, True
    c = rsa_components(1024)
    if which == "rsa-p":
        return c["p"], True
    if which == "rsa-n":
        return c["n"], False
    raise ValueError(which)


MR_NUMBERS = ("p192", "p256", "p521", "m521", "rsa-p", "rsa-n")


def check_mrbig(which, kind, acc):
    """Crypto.Math.Primality.miller_rabin_test at full size: the first base is the boundary value"""
    from Crypto.Math import Primality
    n, prime = _mr_number(which)
    head, lit = boundary_heads(n - 4)[kind]
    label = _label("mrbig", which, kind)
    ck = _Chk("Primality.miller_rabin_test", "Primality.miller_rabin_test(%s, 3, randfunc=tape[%s])" % (which, kind),
              {"part": "consumer", "spec": ["mrbig", which, kind]}, acc)
    op = lambda f: int(Primality.miller_rabin_test(n, 3, randfunc=f))  # noqa
    acc.count("evaluations", 2)
    r1, f1, calls, sysn = observe(op, head, label)
    r2, f2, calls2, _ = observe(op, head, label)
    if f1.total == 0:
        return ck.viol("randfunc-ignored", "the supplied entropy source was never read")
    bases = [c[3] for c in calls if c[0] == "random_range"]
    if r1 != r2 or bases != [c[3] for c in calls2 if c[0] == "random_range"]:
        return ck.viol("not-a-function-of-the-tape", "the same tape twice gave different bases or verdicts")
    for b in bases:
        if not 2 <= b <= n - 2:
            return ck.viol("out-of-range", "a Miller-Rabin base outside [2, n-2] was drawn (base-2=%s, n-2-base=%s)" % (short(b - 2), short(n - 2 - b)))
    if not ck.calls(calls):
        return
    if lit is not None and bases[0] != 2 + lit:
        return ck.viol("wrong-offset", "boundary tape must give the base 2 + %s, got %s" % (short(lit), short(bases[0])))
    if r1 != (1 if prime else 0):
        return ck.viol("wrong-verdict", "verdict %d for a %s" % (r1, "prime" if prime else "composite without small factors"))
    if len(bases) != (3 if prime else 1):
        acc.observe("miller_rabin_test drew %d bases for %s" % (len(bases), which))
    acc.seen("classes", ("Primality.miller_rabin_test/full-size", which, "accepted" if lit is not None and "," not in kind else "rejected-first",
                         "dirty" in kind))
    acc.seen("configs", ("mrbig", which, kind))


def check_isprime(which, kind, acc):
    """Crypto.Util.number.isPrime / _rabinMillerTest at full size: bases from getRandomRange(2, n, randfunc)"""
    from Crypto.Util import number
    from ._c18_targets import _NumberSpy
    n, prime = _mr_number(which)
    nm = n - 3
    head, lit = legacy_heads(nm)[kind]
    label = _label("isprime", which, kind)
    ck = _Chk("number.isPrime", "Crypto.Util.number.isPrime(%s, randfunc=tape[%s])" % (which, kind),
              {"part": "consumer", "spec": ["isprime", which, kind]}, acc)

    def op(f):
        with _NumberSpy("getRandomRange") as spy:
            r = number.isPrime(n, 1e-6, f)
        return r, [x for x in spy.seen]
    acc.count("evaluations", 2)
    (r1, seen1), f1, _, sysn = observe(op, head, label)
    (r2, seen2), f2, _, _ = observe(op, head, label)
    if f1.total == 0:
        return ck.viol("randfunc-ignored", "the supplied entropy source was never read")
    if r1 != r2 or seen1 != seen2:
        return ck.viol("not-a-function-of-the-tape", "the same tape twice gave different bases or verdicts")
    fr = Feed(head, label)
    for name, args, a in seen1:
        acc.count("recorded_legacy_draws")
        if args[:2] != (2, n) or not 2 <= a <= n - 1:
            return ck.viol("out-of-range", "a Rabin-Miller base outside [2, n-1] was drawn (base-2=%s, n-1-base=%s)" % (short(a - 2), short(n - 1 - a)))
        exp = 2 + ref_legacy_range(nm, fr)
        if a != exp:
            return ck.viol("differs-from-reference-rejection-sampler", "a base differs from the plain (legacy byte order) rejection sampler "
                           "on the same bytes")
    if fr.total != f1.total:
        acc.observe("number.isPrime consumed a different number of bytes than the reference rejection sampler")
    if lit is not None and seen1[0][2] != 2 + lit:
        return ck.viol("wrong-offset", "boundary tape must give the base 2 + %s" % short(lit))
    if len(set(x[2] for x in seen1)) != len(seen1):
        acc.observe("number._rabinMillerTest drew the same base twice at full size")
    if bool(r1) != prime:
        return ck.viol("wrong-verdict", "isPrime says %r for a %s" % (r1, "prime" if prime else "composite without small factors"))
    if sysn:
        acc.observe("number.isPrime with randfunc consulted the process-wide RNG")
    acc.seen("classes", ("number.isPrime/full-size", which, "accepted" if lit is not None and "," not in kind else "rejected-first", "dirty" in kind))
    acc.seen("configs", ("isprime", which, kind))


def _value_head(kind, nb, label):
    return {"zero": bytes(nb), "ones": b"\xff" * nb, "ascending": bytes((i + 1) & 255 for i in range(nb)),
            "seeded": seeded(label, nb)}[kind]


def check_probprime(bits, kind, acc, safe=False):
    from Crypto.Math import Primality
    from ..ref import nt
    qbits = bits - 1 if safe else bits
    head = _value_head(kind, (qbits + 7) // 8, "c18/probprime/%d" % qbits)
    label = _label("safeprime" if safe else "probprime", bits, kind)
    fn = "generate_probable_safe_prime" if safe else "generate_probable_prime"
    ck = _Chk("Primality." + fn, "Primality.%s(exact_bits=%d, randfunc=tape[%s])" % (fn, bits, kind),
              {"part": "consumer", "spec": ["safeprime" if safe else "probprime", bits, kind]}, acc)
    op = lambda f: int(getattr(Primality, fn)(exact_bits=bits, randfunc=f))  # noqa
    acc.count("evaluations", 2)
    p, f1, calls, sysn = observe(op, head, label)
    p2, f2, _, _ = observe(op, head, label)
    if f1.total == 0:
        return ck.viol("randfunc-ignored", "the supplied entropy source was never read")
    if p != p2:
        return ck.viol("not-a-function-of-the-tape", "the same tape twice gave two different primes")
    if p.bit_length() != bits:
        return ck.viol("out-of-range", "the result has %d bits, documented: 2^(bits-1) < p < 2^bits" % p.bit_length())
    if not nt.is_prime(p) or (safe and not nt.is_prime(p >> 1)):
        return ck.viol("not-prime", "the result %s is not a %sprime" % (short(p), "safe " if safe else ""))
    if not ck.calls(calls):
        return
    cands = [c[3] | 1 for c in calls if c[0] == "random" and c[1].get("exact_bits") == qbits]
    if not cands or cands[0] != ref_random(qbits, True, T.Reader(head)) | 1:
        return ck.viol("internal-draw/differs-from-reference-rejection-sampler", "the first candidate is not the boundary value on the tape")
    if (p >> 1 if safe else p) not in cands:
        return ck.viol("prime-not-drawn-from-the-tape", "the result is not one of the candidates Integer.random drew from the tape")
    if not safe and p != cands[-1]:
        return ck.viol("prime-not-drawn-from-the-tape", "the result is not the last candidate drawn")
    if sysn:
        acc.observe("Primality.%s with randfunc consulted the process-wide RNG (result unaffected)" % fn)
    acc.count("prime_candidates_checked", len(cands))
    acc.seen("classes", ("Primality." + fn, bits % 8, kind))
    acc.seen("configs", ("safeprime" if safe else "probprime", bits, kind))


def check_getprimebig(N, kind, acc):
    from Crypto.Util import number
    from ..ref import nt
    from ._c18_targets import _NumberSpy
    nbits = N - 1
    nb = (nbits >> 3) + (1 if nbits & 7 else 0)
    head = _value_head(kind, nb, "c18/getprime/%d" % N)
    label = _label("getprimebig", N, kind)
    ck = _Chk("number.getPrime", "Crypto.Util.number.getPrime(%d, randfunc=tape[%s])" % (N, kind),
              {"part": "consumer", "spec": ["getprimebig", N, kind]}, acc)

    def op(f):
        with _NumberSpy("getRandomNBitInteger", "getRandomRange") as spy:
            r = number.getPrime(N, f)
        return int(r), list(spy.seen)
    acc.count("evaluations", 2)
    (p, seen), f1, _, sysn = observe(op, head, label)
    (p2, seen2), f2, _, _ = observe(op, head, label)
    if f1.total == 0:
        return ck.viol("randfunc-ignored", "the supplied entropy source was never read")
    if p != p2 or seen != seen2:
        return ck.viol("not-a-function-of-the-tape", "the same tape twice gave two different primes (or internal draws)")
    if p.bit_length() != N:
        return ck.viol("out-of-range", "getPrime(%d) returned a %d-bit number" % (N, p.bit_length()))
    if not nt.is_prime(p):
        return ck.viol("not-prime", "the result %s is not a prime" % short(p))
    cands = [x[2] for x in seen if x[0] == "getRandomNBitInteger"]
    for c in cands:
        if c.bit_length() != N:
            return ck.viol("internal-draw/out-of-range", "getRandomNBitInteger(%d) returned a %d-bit number" % (N, c.bit_length()))
    first = T.ref_legacy_integer(N - 1, T.Reader(head)) | (1 << (N - 1))
    if not cands or cands[0] != first:
        return ck.viol("internal-draw/differs-from-reference", "the first candidate is not the boundary value on the tape")
    if p != cands[-1] | 1:
        return ck.viol("prime-not-drawn-from-the-tape", "the result is not the last candidate drawn (| 1)")
    for name, args, a in seen:
        if name == "getRandomRange":
            acc.count("recorded_legacy_draws")
            if not args[0] <= a < args[1]:
                return ck.viol("internal-draw/out-of-range", "getRandomRange(2, n) returned a value outside [2, n-1]")
    if sysn:
        acc.observe("number.getPrime with randfunc consulted the process-wide RNG")
    acc.count("prime_candidates_checked", len(cands))
    acc.seen("classes", ("number.getPrime/full-size", (N - 1) % 8, kind))
    acc.seen("configs", ("getprimebig", N, kind))


STRONG_KINDS = ("zero", "one", "bound-1", "bound", "bound+1", "bound+1,ones,bound", "ones", "zero/dirty-low-bits", "stream")


def check_strongprime(N, e, kind, acc):
    from Crypto.Util import number
    from ..ref import nt
    from ._c18_targets import _NumberSpy
    import math
    x = (N - 512) >> 7
    lower = (14142135623730950489 * (2 ** (511 + 128 * x))) // 10000000000000000000
    upper = (1 << (512 + 128 * x)) - 1
    nm = upper - lower - 1
    head, lit = (b"", None) if kind == "stream" else legacy_heads(nm)[kind]
    label = _label("strongprime", N, e, kind)
    ck = _Chk("number.getStrongPrime", "Crypto.Util.number.getStrongPrime(%d, e=%d, randfunc=tape[%s])" % (N, e, kind),
              {"part": "consumer", "spec": ["strongprime", N, e, kind]}, acc)

    def op(f):
        with _NumberSpy("getRandomNBitInteger", "getRandomRange") as spy:
            try:
                r = int(number.getStrongPrime(N, e, 1e-6, f))
            except RuntimeError as ex:
                r = ("RuntimeError", str(ex))
        return r, [s for s in spy.seen if s[0] == "getRandomNBitInteger" or s[1][:2] == (lower, upper)]
    acc.count("evaluations", 2)
    (p, seen), f1, _, sysn = observe(op, head, label)
    (p2, seen2), f2, _, _ = observe(op, head, label)
    if f1.total == 0:
        return ck.viol("randfunc-ignored", "the supplied entropy source was never read")
    if p != p2 or seen != seen2:
        return ck.viol("not-a-function-of-the-tape", "the same tape twice gave two different results (or internal draws)")
    xs = [s for s in seen if s[0] == "getRandomRange"]
    ys = [s[2] for s in seen if s[0] == "getRandomNBitInteger"]
    if len(xs) != 1 or len(ys) != 2:
        acc.error("%s: recorder saw %d X draws and %d y draws" % (ck.name, len(xs), len(ys)))
        return
    X = xs[0][2]
    acc.count("recorded_legacy_draws", 3)
    if not lower <= X < upper:
        return ck.viol("internal-draw/out-of-range", "the starting point X lies outside [sqrt(2)*2^(N-1), 2^N-1)")
    fr = Feed(head, label)
    if X != lower + ref_legacy_range(nm, fr):
        return ck.viol("internal-draw/differs-from-reference-rejection-sampler", "X differs from the plain (legacy byte order) rejection "
                       "sampler on the same bytes")
    if lit is not None and X != lower + lit:
        return ck.viol("wrong-offset", "boundary tape must give X = lower bound + %s" % short(lit))
    for y in ys:
        if y.bit_length() != 101:
            return ck.viol("internal-draw/out-of-range", "getRandomNBitInteger(101) returned a %d-bit number" % y.bit_length())
    if isinstance(p, tuple):
        # the search starts at X +- (up to p1*p2 ~ 2^202) and gives up at 2^N ("TODO: maybe we shouldn't abort" in the source):
        # only reachable when X is within 2^-300 of the upper edge
        acc.observe("number.getStrongPrime raises RuntimeError when the drawn starting point lies within p1*p2 of 2^N "
                    "(boundary tapes only; probability < 2^-300 with uniform entropy): no value is produced")
        acc.seen("classes", ("number.getStrongPrime", N, "gives-up-at-the-upper-edge", kind))
        acc.seen("configs", ("strongprime", N, e, kind))
        return
    if p.bit_length() != N:
        return ck.viol("out-of-range", "getStrongPrime(%d) returned a %d-bit number" % (N, p.bit_length()))
    if not nt.is_prime(p):
        return ck.viol("not-prime", "the result %s is not a prime" % short(p))
    if e and math.gcd(e, (p - 1) if e & 1 else (p - 1) // 2) != 1:
        return ck.viol("not-coprime-to-e", "p-1 is not coprime to e=%d" % e)
    p1, p2_ = [nt.next_prime(y - 1) for y in ys]
    if (p - 1) % p1 or (p + 1) % p2_:
        acc.observe("number.getStrongPrime: p-1 / p+1 are not divisible by the two auxiliary primes found from the 101-bit draws")
    acc.seen("classes", ("number.getStrongPrime", N, "accepted" if lit is not None and "," not in kind else "other", kind))
    acc.seen("configs", ("strongprime", N, e, kind))


_ELG = {}


def _elg_first(bits):
    """first pass: ElGamal.generate on the plain deterministic stream -> (p, g, bytes consumed before the private key was drawn)"""
    r = _ELG.get(bits)
    if r is None:
        from Crypto.PublicKey import ElGamal
        flog = []
        feed = Feed(b"", _label("elgamal", bits), flog)
        with Tripwire() as tw:
            with Recorder(flog) as rec:
                key = ElGamal.generate(bits, feed)
        last = rec.calls[-1]
        data = b"".join(flog)
        if last[0] != "random_range" or not data.endswith(last[4]):
            raise RuntimeError("ElGamal.generate: unexpected draw structure")
        r = _ELG[bits] = (int(key.p), int(key.g), int(key.x), data[:len(data) - len(last[4])], list(rec.calls))
    return r


def check_elgamal(bits, kind, acc):
    """ElGamal.generate: the tape is the first pass's bytes up to the private-key draw, then the boundary head for x"""
    from Crypto.PublicKey import ElGamal
    from ..ref import nt
    ck = _Chk("ElGamal.generate", "ElGamal.generate(%d, randfunc=tape[prefix of a recorded run + %s])" % (bits, kind),
              {"part": "consumer", "spec": ["elgamal", bits, kind]}, acc)
    try:
        p, g, x0, prefix, calls0 = _elg_first(bits)
    except RuntimeError as ex:
        acc.error(str(ex))
        return
    if kind == "first-pass":
        acc.count("evaluations")
        if p.bit_length() != bits or not nt.is_prime(p) or not nt.is_prime(p >> 1):
            return ck.viol("out-of-range", "p is not a %d-bit safe prime" % bits)
        if not 2 <= x0 <= p - 2:
            return ck.viol("out-of-range", "private key x outside [2, p-2]")
        if g in (1, 2) or pow(g, p >> 1, p) != 1:
            return ck.viol("generator", "g is 1, 2 or not of order q")
        if ck.calls(calls0):
            acc.seen("classes", ("ElGamal.generate", bits, "first-pass"))
            acc.seen("configs", ("elgamal", bits, kind))
        return
    nm = p - 4
    head, lit = boundary_heads(nm)[kind]
    label = _label("elgamal2", bits, kind)
    acc.count("evaluations")
    key, f1, calls, sysn = observe(lambda f: ElGamal.generate(bits, f), prefix + head, label)
    if (int(key.p), int(key.g)) != (p, g):
        return ck.viol("not-a-function-of-the-tape", "the same tape prefix gave a different modulus or generator")
    x = int(key.x)
    if not 2 <= x <= p - 2:
        return ck.viol("out-of-range", "private key x outside [2, p-2] (x-2=%s, p-2-x=%s)" % (short(x - 2), short(p - 2 - x)))
    fr = Feed(prefix + head, label)
    fr(len(prefix))
    xref = ref_random_range(2, p - 2, fr)
    if x != xref:
        return ck.viol("differs-from-reference-rejection-sampler", "x differs from the plain rejection sampler on the same bytes")
    if lit is not None and x != 2 + lit:
        return ck.viol("wrong-offset", "boundary tape must give x = 2 + %s, got %s" % (short(lit), short(x)))
    if int(key.y) != pow(g, x, p):
        return ck.viol("public-key-mismatch", "y != g^x mod p")
    if not ck.calls(calls):
        return
    if sysn:
        acc.observe("ElGamal.generate consulted the process-wide RNG (key unaffected)")
    acc.seen("classes", ("ElGamal.generate", bits, "accepted" if lit is not None and "," not in kind else "rejected-first", "dirty" in kind))
    acc.seen("configs", ("elgamal", bits, kind))


def check_elgblind(bits, kind, acc):
    """ElGamalKey._decrypt draws its blinding factor r in [2, p-2] from the key's entropy source (both the process RNG
    of a constructed key and ElGamalKey(randfunc=...) are driven)"""
    from Crypto.PublicKey import ElGamal
    ck = _Chk("blinding/ElGamal", "ElGamal decryption with the blinding factor drawn from tape[%s]" % kind,
              {"part": "consumer", "spec": ["elgblind", bits, kind]}, acc)
    try:
        p, g, x, _, _ = _elg_first(bits)
    except RuntimeError as ex:
        acc.error(str(ex))
        return
    y = pow(g, x, p)
    head, lit = boundary_heads(p - 4)[kind]
    label = _label("elgblind", bits, kind)
    M = 2 + seeded_int("c18/elg-m", bits - 8)
    K = 3 + 2 * seeded_int("c18/elg-k", bits - 8)
    key = ElGamal.construct((p, g, y, x))
    ct = key._encrypt(M, K)
    if ct != [pow(g, K, p), pow(y, K, p) * M % p]:
        acc.error("ElGamal encryption differs from the textbook formula")
        return
    acc.count("evaluations", 2)
    pt, f, calls, sysn = observe(lambda f: key._decrypt(ct), b"", label, sys_head=head)
    key2 = ElGamal.ElGamalKey(randfunc=None)
    for c_ in "pgyx":
        setattr(key2, c_, getattr(key, c_))

    def op2(f):
        key2._randfunc = f
        return key2._decrypt(ct)
    pt2, f2, calls2, sysn2 = observe(op2, head, label)
    for tag, ptx, cl in (("process RNG", pt, calls), ("randfunc", pt2, calls2)):
        if ptx != M:
            return ck.viol("result-depends-on-blinding", "decryption gives a wrong plaintext when the blinding factor is drawn from the boundary tape (%s)" % tag)
        blind = [c for c in cl if c[0] == "random_range"]
        if not blind:
            acc.error("%s: recorder saw no blinding draw (%s)" % (ck.name, tag))
            return
        if not ck.calls(cl):
            return
        b = blind[0]
        if not 2 <= b[3] <= p - 2:
            return ck.viol("out-of-range", "blinding factor outside [2, p-2]")
        if lit is not None and b[3] != 2 + lit:
            return ck.viol("wrong-offset", "blinding factor for the boundary tape is %s, expected 2+%s (%s)" % (short(b[3]), short(lit), tag))
    acc.seen("classes", ("blinding", "ElGamal", "accepted" if lit is not None and "," not in kind else "rejected-first"))
    acc.seen("configs", ("elgblind", bits, kind))


HPKE_CURVES = ("p256", "p384", "p521", "curve25519", "curve448")


def check_hpke(curve, kind, acc):
    """HPKE sender: the ephemeral key pair is generated from the process RNG; enc must be the public key of the
    scalar the plain rejection sampler draws from the same bytes"""
    from Crypto.PublicKey import ECC
    from Crypto.Protocol import HPKE
    from ..ref import ec as REC
    ck = _Chk("HPKE-ephemeral-key", "HPKE.new(receiver_key=%s public key) with the process RNG answering from tape[%s]" % (curve, kind),
              {"part": "consumer", "spec": ["hpke", curve, kind]}, acc)
    label = _label("hpke", curve, kind)
    if curve in P_CURVES:
        c = REC.CURVES[curve]
        n = c.order
        head, lit = boundary_heads(n - 2)[kind]
        dr = 1 + seeded_int("c18/hpke-key/" + curve, n.bit_length() + 64) % (n - 1)
        rkey = ECC.construct(curve=curve, d=dr)
        fr = Feed(head, label + "/system")
        d = ref_random_range(1, n - 1, fr)
        Q = REC.mul(c, d, c.G)
        L = (c.p.bit_length() + 7) // 8
        exp = b"\x04" + int(Q[0]).to_bytes(L, "big") + int(Q[1]).to_bytes(L, "big")
    else:
        L = SEED_CURVES[curve]
        head = _value_head(kind, L, "c18/hpke/" + curve)
        lit = None
        rkey = ECC.construct(curve=curve, seed=seeded("c18/hpke-key/" + curve, L))
        exp = {"curve25519": REC.x25519_base, "curve448": REC.x448_base}[curve](head)

    def op(f):
        s = HPKE.new(receiver_key=rkey.public_key(), aead_id=HPKE.AEAD.AES128_GCM, info=b"C18")
        return s.enc, s.seal(b"C18 message")
    acc.count("evaluations", 2)
    (enc, ct), f, calls, sysn = observe(op, b"", label, sys_head=head)
    (enc2, ct2), _, _, _ = observe(op, b"", label, sys_head=head)
    if sysn == 0:
        acc.error("%s: the process RNG was never consulted" % ck.name)
        return
    if (enc, ct) != (enc2, ct2):
        return ck.viol("not-a-function-of-the-tape", "the same process-RNG tape twice gave two different encapsulations")
    if enc != exp:
        return ck.viol("ephemeral-key-differs-from-reference-rejection-sampler",
                       "enc %s is not the public key of the scalar the plain rejection sampler draws from the same bytes (%s)"
                       % (short(enc), short(exp)))
    if not ck.calls(calls):
        return
    r = HPKE.new(receiver_key=rkey, aead_id=HPKE.AEAD.AES128_GCM, info=b"C18", enc=enc)
    if r.unseal(ct) != b"C18 message":
        return ck.viol("receiver-disagrees", "the receiver does not recover the message sealed under the boundary ephemeral key")
    if curve in P_CURVES:
        acc.seen("classes", ("HPKE-ephemeral-key", curve, "accepted" if lit is not None and "," not in kind else "rejected-first", "dirty" in kind))
    else:
        acc.seen("classes", ("HPKE-ephemeral-key", curve, "seed", kind))
    acc.seen("configs", ("hpke", curve, kind))


def check_consumer(spec, acc):
    from ..common import exc_site
    acc.count("configs_done")
    try:
        _check_consumer(spec, acc)
    except Exception as e:  # noqa  (a library exception on a boundary tape)
        if "/mc/" in (e.__traceback__.tb_next.tb_frame.f_code.co_filename if e.__traceback__.tb_next else "") and exc_site(e) == "?":
            raise
        site = exc_site(e)
        if site == "?":
            raise
        acc.violation("C18/%s/%s@%s" % (spec[0], type(e).__name__, site),
                      "consumer %s on its boundary tape raises %s(%s) at %s" % (short(list(spec)), type(e).__name__, e, site),
                      {"part": "consumer", "spec": list(spec)})


def _check_consumer(spec, acc):
    spec = list(spec)
    k = spec[0]
    if k == "ecgen":
        check_ecgen(spec[1], spec[2], acc)
    elif k == "ecseed":
        check_ecseed(spec[1], spec[2], acc)
    elif k == "ecdsa":
        check_ecdsa(spec[1], spec[2], acc)
    elif k == "dsasig":
        check_dsasig(spec[1], spec[2], acc)
    elif k == "dsagen":
        check_dsagen(spec[1], spec[2], acc)
    elif k == "rsagen":
        check_rsagen(spec[1], spec[2], acc)
    elif k == "dsafull":
        check_dsafull(spec[1], acc)
    elif k == "blind":
        check_blind(spec[1], spec[2], acc)
    elif k == "bigrange":
        check_bigrange(spec[1], spec[2], spec[3], spec[4], spec[5], spec[6], acc)
    elif k == "bigrandom":
        check_bigrandom(spec[1], spec[2], spec[3], spec[4], acc)
    elif k == "mrbig":
        check_mrbig(spec[1], spec[2], acc)
    elif k == "isprime":
        check_isprime(spec[1], spec[2], acc)
    elif k == "probprime":
        check_probprime(spec[1], spec[2], acc)
    elif k == "safeprime":
        check_probprime(spec[1], spec[2], acc, safe=True)
    elif k == "getprimebig":
        check_getprimebig(spec[1], spec[2], acc)
    elif k == "strongprime":
        check_strongprime(spec[1], spec[2], spec[3], acc)
    elif k == "elgamal":
        check_elgamal(spec[1], spec[2], acc)
    elif k == "elgblind":
        check_elgblind(spec[1], spec[2], acc)
    elif k == "hpke":
        check_hpke(spec[1], spec[2], acc)
    else:
        raise ValueError(spec)
