"""C16 part D - whole-library transcript, executed in a SUBPROCESS under one integer configuration.

    python -m mc.props._c16_script <config> <section> <part> <nparts> <tier> [<only-label>]

config:  default  (Numbers picks GMP when libgmp loads)
         nogmp    (the parent exports PYCRYPTODOME_DISABLE_GMP=1 -> custom C back-end)
         native   (Crypto.Math._IntegerGMP and _IntegerCustom are made unimportable by poisoning
                   sys.modules BEFORE Crypto.Math.Numbers is imported -> pure-Python back-end)

Output: one line "#backend\t<class name>" and then one line per item: "<label>\t<rendered value>".
Everything is deterministic: fixture keys, explicit entropy streams, deterministic signature
schemes.  Items catch their own exceptions and print "EXC:<class>".

Sections rsa-sign2, dsa2, ecc2, primality2 and keygen exist in the thorough tier only (wave 2): they vary the
dimensions the first six sections fix (hash functions, message/plaintext lengths, salt lengths, private-key and
scalar boundary values, forged signatures, larger primality range and candidates, complete key generation).
"""
import hashlib
import sys


def _render(v):
    if isinstance(v, (bytes, bytearray, memoryview)):
        return "b:" + bytes(v).hex()
    if isinstance(v, bool) or v is None:
        return repr(v)
    if isinstance(v, int):
        return "i:%d" % v
    if isinstance(v, str):
        return "s:" + v.replace("\n", "\\n").replace("\t", "\\t")
    if isinstance(v, (tuple, list)):
        return "(" + ",".join(_render(x) for x in v) + ")"
    from Crypto.Math._IntegerBase import IntegerBase
    if isinstance(v, IntegerBase):
        return "Integer:%d" % int(v)
    return "obj:%s" % type(v).__name__


class Stream(object):
    def __init__(self, label):
        self.label = label.encode()
        self.ctr = 0

    def __call__(self, n):
        out = b""
        while len(out) < n:
            out += hashlib.sha512(self.label + b"|%d" % self.ctr).digest()
            self.ctr += 1
        return out[:n]

    read = __call__


def asc(n, start=0):
    return bytes((start + i) & 255 for i in range(n))


# ---------------------------------------------------------------------------
# sections: generators of (label, thunk)
# ---------------------------------------------------------------------------
RSA_KEYS = [(1024, 65537), (1024, 3), (1025, 65537), (1031, 3), (1032, 65537), (2048, 65537), (2048, 3),
            (1024, 2 ** 32 + 15), (1025, 3), (1031, 65537), (1032, 3)]


_KEYS = {}


def _tn(v):
    """type class of a value: the three Integer classes are one class of result"""
    from Crypto.Math._IntegerBase import IntegerBase
    return "Integer" if isinstance(v, IntegerBase) else type(v).__name__


def _rsa(bits, e):
    from mc.keys import rsa_components
    from Crypto.PublicKey import RSA
    if ("rsa", bits, e) not in _KEYS:
        c = rsa_components(bits, e)
        # fixture keys are inputs: the (costly, randomised) consistency check runs in its own items only
        _KEYS[("rsa", bits, e)] = (RSA.construct((c["n"], c["e"], c["d"], c["p"], c["q"]),
                                                 consistency_check=False), c)
    return _KEYS[("rsa", bits, e)]


def sec_rsa_sign(tier):
    from Crypto.Signature import pkcs1_15, pss
    from Crypto.Cipher import PKCS1_OAEP, PKCS1_v1_5
    from Crypto.Hash import SHA1, SHA256, SHA512, SHA3_256
    keys = RSA_KEYS if tier == "thorough" else RSA_KEYS[:7]
    msgs = [b"", asc(100, 3)]
    for bits, e in keys:
        tagk = "rsa%d-e%d" % (bits, e)
        holder = {}

        def key(bits=bits, e=e, holder=holder):
            if "k" not in holder:
                holder["k"] = _rsa(bits, e)[0]
            return holder["k"]
        for hn, H in (("sha1", SHA1), ("sha256", SHA256), ("sha512", SHA512), ("sha3_256", SHA3_256)):
            for mi, m in enumerate(msgs):
                lab = "rsa-sign/pkcs1_15/%s/%s/m%d" % (tagk, hn, mi)

                def sign15(key=key, H=H, m=m):
                    s = pkcs1_15.new(key()).sign(H.new(m))
                    pkcs1_15.new(key().public_key()).verify(H.new(m), s)
                    return s
                yield lab, sign15
                lab = "rsa-sign/pss/%s/%s/m%d" % (tagk, hn, mi)

                def signpss(key=key, H=H, m=m, lab=lab):
                    s = pss.new(key(), rand_func=Stream(lab)).sign(H.new(m))
                    pss.new(key().public_key()).verify(H.new(m), s)
                    return s
                yield lab, signpss
        for ml in (0, 1, 20, 61):
            lab = "rsa-enc/oaep/%s/len%d" % (tagk, ml)

            def oaep(key=key, ml=ml, lab=lab):
                ct = PKCS1_OAEP.new(key().public_key(), randfunc=Stream(lab)).encrypt(asc(ml, 9))
                pt = PKCS1_OAEP.new(key(), randfunc=Stream(lab + "b")).decrypt(ct)
                return (ct, pt)
            yield lab, oaep
            lab = "rsa-enc/v1_5/%s/len%d" % (tagk, ml)

            def v15(key=key, ml=ml, lab=lab):
                ct = PKCS1_v1_5.new(key().public_key(), randfunc=Stream(lab)).encrypt(asc(ml, 9))
                pt = PKCS1_v1_5.new(key(), randfunc=Stream(lab + "b")).decrypt(ct, b"SENTINEL")
                bad = PKCS1_v1_5.new(key(), randfunc=Stream(lab + "c")).decrypt(b"\x00" + ct[1:], b"SENTINEL")
                return (ct, pt, bad)
            yield lab, v15
        for ci, cv in enumerate((0, 1, 2, "n-1", "mid")):
            lab = "rsa-raw/%s/c%d" % (tagk, ci)

            def raw(key=key, cv=cv):
                k = key()
                c = {"n-1": k.n - 1, "mid": k.n // 3}.get(cv, cv)
                return (k._encrypt(c), k._decrypt(c), k._decrypt_to_bytes(c))
            yield lab, raw
        for bad in ("n", "n+5", -1):
            lab = "rsa-raw-refuse/%s/%s" % (tagk, bad)

            def rawbad(key=key, bad=bad):
                k = key()
                c = {"n": k.n, "n+5": k.n + 5}.get(bad, bad)
                return k._decrypt(c)
            yield lab, rawbad


def sec_rsa_sign_deep(tier):
    """thorough only (wave 2): the dimensions sec_rsa_sign fixes - hash functions, message lengths, PSS salt lengths
    and MGF1 hashes, OAEP hash/MGF/label and EVERY plaintext length, PKCS#1 v1.5 EVERY plaintext length, more raw
    operands; all eleven fixture keys"""
    from Crypto.Signature import pkcs1_15, pss
    from Crypto.Cipher import PKCS1_OAEP, PKCS1_v1_5
    from Crypto.Hash import SHA1, SHA224, SHA256, SHA384, SHA512, SHA3_224, SHA3_384, SHA3_512
    if tier != "thorough":
        return
    msgs = [b"\x00", asc(1000, 7)]
    for bits, e in RSA_KEYS:
        tagk = "rsa%d-e%d" % (bits, e)

        def key(bits=bits, e=e):
            return _rsa(bits, e)[0]
        hashes = (("sha224", lambda m: SHA224.new(m)), ("sha384", lambda m: SHA384.new(m)),
                  ("sha512_224", lambda m: SHA512.new(m, truncate="224")),
                  ("sha512_256", lambda m: SHA512.new(m, truncate="256")),
                  ("sha3_224", lambda m: SHA3_224.new(m)), ("sha3_384", lambda m: SHA3_384.new(m)),
                  ("sha3_512", lambda m: SHA3_512.new(m)))
        for hn, H in hashes:
            for mi, m in enumerate([b"", asc(100, 3)] + msgs):
                lab = "rsa-sign/pkcs1_15/%s/%s/m%d" % (tagk, hn, mi)

                def sign15(key=key, H=H, m=m):
                    s = pkcs1_15.new(key()).sign(H(m))
                    pkcs1_15.new(key().public_key()).verify(H(m), s)
                    return s
                yield lab, sign15
                lab = "rsa-sign/pss/%s/%s/m%d" % (tagk, hn, mi)

                def signpss(key=key, H=H, m=m, lab=lab):
                    s = pss.new(key(), rand_func=Stream(lab)).sign(H(m))
                    pss.new(key().public_key()).verify(H(m), s)
                    return s
                yield lab, signpss
        for hn, H in (("sha1", SHA1), ("sha256", SHA256), ("sha512", SHA512)):
            for mi, m in enumerate(msgs):
                lab = "rsa-sign/pkcs1_15/%s/%s/m%d" % (tagk, hn, mi + 2)
                yield lab, (lambda key=key, H=H, m=m: pkcs1_15.new(key()).sign(H.new(m)))
        # PSS: salt length 0, 1, hLen-1, hLen+1, the maximum and one more than the maximum; MGF1 over another hash
        k_bytes = (bits + 7) // 8
        em_len = (bits - 1 + 7) // 8
        for hn, H in (("sha1", SHA1), ("sha256", SHA256), ("sha384", SHA384)):
            mx = em_len - H.digest_size - 2
            for sl in sorted(set((0, 1, H.digest_size - 1, H.digest_size + 1, mx - 1, mx, mx + 1))):
                for mg, MG in (("same", None), ("mgf-sha1", SHA1), ("mgf-sha512", SHA512)):
                    if mg != "same" and sl not in (0, mx):
                        continue
                    lab = "rsa-sign/pss-salt/%s/%s/salt%d/%s" % (tagk, hn, sl, mg)

                    def pss_salt(key=key, H=H, sl=sl, MG=MG, lab=lab):
                        kw = {"salt_bytes": sl, "rand_func": Stream(lab)}
                        if MG is not None:
                            kw["mask_func"] = lambda x, y, MG=MG: pss.MGF1(x, y, MG)
                        h = H.new(asc(33, 1))
                        s = pss.new(key(), **kw).sign(h)
                        pss.new(key().public_key(), **kw).verify(h, s)
                        return s
                    yield lab, pss_salt
        # OAEP: hash x MGF hash x label; every plaintext length for the first two keys, boundary lengths otherwise
        for hn, H in (("sha1", SHA1), ("sha256", SHA256), ("sha512", SHA512)):
            mx = k_bytes - 2 * H.digest_size - 2
            if (bits, e) in RSA_KEYS[:2] and hn != "sha512":
                lens = list(range(0, mx + 2))
            else:
                lens = sorted(set(x for x in (0, 1, mx - 1, mx, mx + 1) if x >= 0))
            for ml in lens:
                for li, label in enumerate((b"", b"label-" * 9)):
                    if li and ml not in (0, mx):
                        continue
                    lab = "rsa-enc/oaep-full/%s/%s/len%d/l%d" % (tagk, hn, ml, li)

                    def oaep(key=key, H=H, ml=ml, label=label, lab=lab):
                        ct = PKCS1_OAEP.new(key().public_key(), hashAlgo=H, label=label,
                                            randfunc=Stream(lab)).encrypt(asc(ml, 9))
                        pt = PKCS1_OAEP.new(key(), hashAlgo=H, label=label, randfunc=Stream(lab + "b")).decrypt(ct)
                        try:
                            PKCS1_OAEP.new(key(), hashAlgo=H, label=label + b"x", randfunc=Stream(lab + "c")).decrypt(ct)
                            other = "accepted"
                        except ValueError:
                            other = "rejected"
                        return (ct, pt, other)
                    yield lab, oaep
        mx = k_bytes - 11
        lens = list(range(0, mx + 2)) if (bits, e) in RSA_KEYS[:2] else [2, mx - 1, mx, mx + 1]
        for ml in lens:
            lab = "rsa-enc/v1_5-full/%s/len%d" % (tagk, ml)

            def v15(key=key, ml=ml, lab=lab):
                ct = PKCS1_v1_5.new(key().public_key(), randfunc=Stream(lab)).encrypt(asc(ml, 9))
                pt = PKCS1_v1_5.new(key(), randfunc=Stream(lab + "b")).decrypt(ct, b"SENTINEL")
                return (ct, pt)
            yield lab, v15
        for ci, cv in enumerate((3, 255, 256, 2 ** 64 - 1, 2 ** 64, 2 ** 64 + 1, 2 ** 512, "2^(bits-2)", "n-2", "n//2",
                                 "p", "q", "p*2", "sqrt")):
            lab = "rsa-raw/%s/d%d" % (tagk, ci)

            def raw(key=key, cv=cv, bits=bits):
                k = key()
                c = {"n-2": k.n - 2, "n//2": k.n // 2, "2^(bits-2)": 2 ** (bits - 2), "p": int(k.p), "q": int(k.q),
                     "p*2": int(k.p) * 2, "sqrt": 2 ** (bits // 2)}.get(cv, cv)
                return (k._encrypt(c), k._decrypt(c), k._decrypt_to_bytes(c))
            yield lab, raw


def sec_rsa_keys(tier):
    from Crypto.PublicKey import RSA
    keys = RSA_KEYS if tier == "thorough" else RSA_KEYS[:7]
    for bits, e in keys:
        tagk = "rsa%d-e%d" % (bits, e)

        def recover(bits=bits, e=e):
            k, c = _rsa(bits, e)
            r = RSA.construct((c["n"], c["e"], c["d"]), consistency_check=True)
            return (r.p, r.q, r.u, r.d, sorted((r.p, r.q)) == sorted((c["p"], c["q"])),
                    _tn(r.p), _tn(r.n))
        yield "rsa-construct/recover-factors/" + tagk, recover

        def crt(bits=bits, e=e):
            k, c = _rsa(bits, e)
            return (k.u, k.dp, k.dq, k.invq, k.size_in_bits(), k.size_in_bytes(), _tn(k.u))
        yield "rsa-construct/crt/" + tagk, crt

        def checked(bits=bits, e=e):
            k, c = _rsa(bits, e)
            r = RSA.construct((c["n"], c["e"], c["d"], c["p"], c["q"]), consistency_check=True)
            return (r.n, r.u, r == k)
        yield "rsa-construct/consistency-check/" + tagk, checked
        for fmt, kw in (("DER-pkcs1", dict(format="DER", pkcs=1)), ("DER-pkcs8", dict(format="DER", pkcs=8)),
                        ("PEM-pkcs1", dict(format="PEM", pkcs=1)), ("PEM-pkcs8", dict(format="PEM", pkcs=8)),
                        ("PEM-enc", dict(format="PEM", pkcs=1, passphrase=b"pw")),
                        ("DER-pkcs8-enc", dict(format="DER", pkcs=8, passphrase=b"pw",
                                               protection="PBKDF2WithHMAC-SHA1AndAES128-CBC",
                                               prot_params={"iteration_count": 3}))):
            lab = "rsa-export/%s/%s" % (fmt, tagk)

            def export(bits=bits, e=e, kw=kw, lab=lab):
                k, c = _rsa(bits, e)
                kw2 = dict(kw)
                if "passphrase" in kw2:
                    kw2["randfunc"] = Stream(lab)
                blob = k.export_key(**kw2)
                back = RSA.import_key(blob, kw2.get("passphrase"))
                if kw2.get("pkcs") == 8 and "passphrase" in kw2:
                    # RsaKey.export_key does not hand randfunc to PKCS8.wrap: salt and IV are not under control
                    blob = len(blob)
                return (blob, back == k, back.export_key(format="DER", pkcs=1))
            yield lab, export
        for fmt in ("DER", "PEM", "OpenSSH"):
            lab = "rsa-export-public/%s/%s" % (fmt, tagk)

            def exportp(bits=bits, e=e, fmt=fmt):
                k, c = _rsa(bits, e)
                blob = k.public_key().export_key(format=fmt)
                back = RSA.import_key(blob)
                return (blob, back.n, back.e)
            yield lab, exportp
    # small parameter constructions: every (p, q, e) below the bound, factor recovery from (n, e, d)
    primes = [3, 5, 7, 11, 13, 17, 19, 23, 29, 31]
    for p in primes:
        for q in primes:
            if p == q:
                continue
            lab = "rsa-construct/small/p%d-q%d" % (p, q)

            def small(p=p, q=q):
                out = []
                n = p * q
                lam = (p - 1) * (q - 1)
                for e in range(3, 12, 2):
                    for d in range(2, min(lam, 80)):
                        if (e * d) % lam != 1:
                            continue
                        for comps in ((n, e, d), (n, e, d, p, q), (n, e)):
                            try:
                                k = RSA.construct(comps, consistency_check=True)
                                out.append((e, d, len(comps), k.n, k.e) +
                                           ((k.d, k.p, k.q, k.u) if k.has_private() else ()))
                            except Exception as ex:  # noqa
                                out.append((e, d, len(comps), "EXC:" + type(ex).__name__))
                return out
            yield lab, small
    for bad in ("p*p", "even", "e-even", "d-wrong", "n=1", "p=1"):
        lab = "rsa-construct/refuse/" + bad

        def refuse(bad=bad):
            k, c = _rsa(1024, 65537)
            n, e, d, p, q = c["n"], c["e"], c["d"], c["p"], c["q"]
            t = {"p*p": (p * p, e, d, p, p), "even": (n + 1, e, d), "e-even": (n, 4, d), "d-wrong": (n, e, d + 2),
                 "n=1": (1, e, d), "p=1": (n, e, d, 1, n)}[bad]
            return RSA.construct(t, consistency_check=True).n
        yield lab, refuse


def _dsa(L):
    from mc.keys import dsa_components
    from Crypto.PublicKey import DSA
    if ("dsa", L) not in _KEYS:
        c = dsa_components(L)
        _KEYS[("dsa", L)] = (DSA.construct((c["y"], c["g"], c["p"], c["q"], c["x"]), consistency_check=False), c)
    return _KEYS[("dsa", L)]


def sec_dsa(tier):
    from Crypto.Signature import DSS
    from Crypto.PublicKey import DSA
    from Crypto.Hash import SHA1, SHA224, SHA256, SHA384, SHA512
    for L in (1024, 2048, 3072):
        for hn, H in (("sha1", SHA1), ("sha224", SHA224), ("sha256", SHA256), ("sha384", SHA384),
                      ("sha512", SHA512)):
            for mi, m in enumerate((b"sample", b"test", b"")):
                for enc in ("binary", "der"):
                    lab = "dsa-sign/rfc6979/L%d/%s/m%d/%s" % (L, hn, mi, enc)

                    def det(L=L, H=H, m=m, enc=enc):
                        k, c = _dsa(L)
                        s = DSS.new(k, "deterministic-rfc6979", encoding=enc).sign(H.new(m))
                        DSS.new(k.public_key(), "deterministic-rfc6979", encoding=enc).verify(H.new(m), s)
                        return s
                    yield lab, det
                lab = "dsa-sign/fips/L%d/%s/m%d" % (L, hn, mi)

                def fips(L=L, H=H, m=m, lab=lab):
                    k, c = _dsa(L)
                    s = DSS.new(k, "fips-186-3", randfunc=Stream(lab)).sign(H.new(m))
                    DSS.new(k.public_key(), "fips-186-3").verify(H.new(m), s)
                    bad = bytearray(s)
                    bad[-1] ^= 1
                    try:
                        DSS.new(k.public_key(), "fips-186-3").verify(H.new(m), bytes(bad))
                        v = "accepted"
                    except ValueError:
                        v = "rejected"
                    return (s, v)
                yield lab, fips
        for fmt, kw in (("DER", dict(format="DER")), ("DER-openssl", dict(format="DER", pkcs8=False)),
                        ("PEM", dict(format="PEM")), ("PEM-enc", dict(format="PEM", passphrase=b"pw"))):
            lab = "dsa-export/%s/L%d" % (fmt, L)

            def export(L=L, kw=kw, lab=lab):
                k, c = _dsa(L)
                kw2 = dict(kw)
                if "passphrase" in kw2:
                    kw2["randfunc"] = Stream(lab)
                blob = k.export_key(**kw2)
                back = DSA.import_key(blob, kw2.get("passphrase"))
                return (blob, back.x, back.y)
            yield lab, export
        for fmt in ("DER", "PEM", "OpenSSH"):
            lab = "dsa-export-public/%s/L%d" % (fmt, L)

            def exportp(L=L, fmt=fmt):
                k, c = _dsa(L)
                blob = k.public_key().export_key(format=fmt)
                return (blob, DSA.import_key(blob).y)
            yield lab, exportp
        def checked(L=L):
            k, c = _dsa(L)
            r = DSA.construct((c["y"], c["g"], c["p"], c["q"], c["x"]), consistency_check=True)
            return (r.y, r.x, r == k)
        yield "dsa-construct/consistency-check/L%d" % L, checked
        for bad in ("g=1", "y=0", "q-composite", "x>=q"):
            lab = "dsa-construct/refuse/%s/L%d" % (bad, L)

            def refuse(L=L, bad=bad):
                k, c = _dsa(L)
                t = {"g=1": (c["y"], 1, c["p"], c["q"], c["x"]), "y=0": (0, c["g"], c["p"], c["q"]),
                     "q-composite": (c["y"], c["g"], c["p"], c["q"] + 2, c["x"]),
                     "x>=q": (c["y"], c["g"], c["p"], c["q"], c["x"] + c["q"])}[bad]
                return DSA.construct(t, consistency_check=True).y
            yield lab, refuse
    if tier == "thorough":
        def gen():
            k = DSA.generate(1024, randfunc=Stream("c16dsagen"))
            return (k.p, k.q, k.g, k.y, k.x)
        yield "dsa-generate/1024", gen


def sec_dsa_deep(tier):
    """thorough only (wave 2): more hash functions (SHA-3, truncated SHA-512) and messages for the deterministic
    signatures, verification of altered signatures at both ends, signatures whose r or s is 0 / q / out of range"""
    from Crypto.Signature import DSS
    from Crypto.Hash import SHA1, SHA256, SHA512, SHA3_224, SHA3_256, SHA3_384, SHA3_512
    if tier != "thorough":
        return
    hashes = (("sha3_224", lambda m: SHA3_224.new(m)), ("sha3_256", lambda m: SHA3_256.new(m)),
              ("sha3_384", lambda m: SHA3_384.new(m)), ("sha3_512", lambda m: SHA3_512.new(m)),
              ("sha512_224", lambda m: SHA512.new(m, truncate="224")),
              ("sha512_256", lambda m: SHA512.new(m, truncate="256")))
    for L in (1024, 2048, 3072):
        for hn, H in hashes:
            for mi, m in enumerate((b"sample", b"test", b"", asc(1000, 5))):
                for enc in ("binary", "der"):
                    lab = "dsa-sign/rfc6979/L%d/%s/m%d/%s" % (L, hn, mi, enc)

                    def det(L=L, H=H, m=m, enc=enc):
                        k, c = _dsa(L)
                        s = DSS.new(k, "deterministic-rfc6979", encoding=enc).sign(H(m))
                        DSS.new(k.public_key(), "deterministic-rfc6979", encoding=enc).verify(H(m), s)
                        return s
                    yield lab, det
        for hn, H in (("sha1", SHA1), ("sha256", SHA256), ("sha512", SHA512)):
            for mi in range(3, 12):
                lab = "dsa-sign/rfc6979/L%d/%s/m%d/binary" % (L, hn, mi)

                def det2(L=L, H=H, mi=mi):
                    k, c = _dsa(L)
                    return DSS.new(k, "deterministic-rfc6979").sign(H.new(asc(mi * 37, mi)))
                yield lab, det2
        for what in ("r=0", "s=0", "r=q", "s=q", "r=q-1", "s=q-1", "r>q", "flip-first", "flip-middle", "short", "long"):
            lab = "dsa-verify/forged/L%d/%s" % (L, what)

            def forged(L=L, what=what):
                k, c = _dsa(L)
                q = c["q"]
                n = (q.bit_length() + 7) // 8
                h = SHA256.new(b"forged")
                s = DSS.new(k, "deterministic-rfc6979").sign(h)
                r_, s_ = int.from_bytes(s[:n], "big"), int.from_bytes(s[n:], "big")
                t = {"r=0": (0, s_), "s=0": (r_, 0), "r=q": (q, s_), "s=q": (r_, q), "r=q-1": (q - 1, s_),
                     "s=q-1": (r_, q - 1), "r>q": (r_ + q, s_)}.get(what)
                if t is not None:
                    try:
                        sig = t[0].to_bytes(n, "big") + t[1].to_bytes(n, "big")
                    except OverflowError:
                        return "unrepresentable"
                elif what == "flip-first":
                    sig = bytes([s[0] ^ 0x80]) + s[1:]
                elif what == "flip-middle":
                    sig = s[:n] + bytes([s[n] ^ 1]) + s[n + 1:]
                elif what == "short":
                    sig = s[:-1]
                else:
                    sig = s + b"\x00"
                try:
                    DSS.new(k.public_key(), "fips-186-3").verify(h, sig)
                    return "accepted"
                except ValueError:
                    return "rejected"
            yield lab, forged


def sec_keygen(tier):
    """thorough only (wave 2): complete key generation from explicit entropy - the longest chains of Integer
    operations in the library (prime generation with sieving, Miller-Rabin, Lucas, gcd, inverse, lcm)"""
    from Crypto.PublicKey import RSA, DSA, ElGamal, ECC
    if tier != "thorough":
        return
    # (costliest first: the driver gives every item of this section its own shard)
    def dsa_items(sizes):
        for bits, nt_ in sizes:
            for t in range(nt_):
                lab = "keygen/dsa/%d/t%d" % (bits, t)

                def dsagen(bits=bits, lab=lab):
                    st = Stream(lab)
                    k = DSA.generate(bits, randfunc=st)
                    return (k.p, k.q, k.g, k.y, k.x, st.ctr)
                yield lab, dsagen

    def rsa_items(sizes):
        for bits, e, nt_ in sizes:
            for t in range(nt_):
                lab = "keygen/rsa/%d-e%d/t%d" % (bits, e, t)

                def rsagen(bits=bits, e=e, lab=lab):
                    st = Stream(lab)
                    k = RSA.generate(bits, randfunc=st, e=e)
                    return (k.n, k.e, k.d, k.p, k.q, k.u, k.size_in_bits(), st.ctr, _tn(k.p))
                yield lab, rsagen

    def elg_items(sizes):
        for bits, nt_ in sizes:
            for t in range(nt_):
                lab = "keygen/elgamal/%d/t%d" % (bits, t)

                def elggen(bits=bits, lab=lab):
                    st = Stream(lab)
                    k = ElGamal.generate(bits, st)
                    return (int(k.p), int(k.g), int(k.y), int(k.x), st.ctr)
                yield lab, elggen
    for it in dsa_items(((2048, 3),)):
        yield it
    for it in rsa_items(((3072, 65537, 1),)):
        yield it
    for it in elg_items(((320, 2),)):
        yield it
    for it in rsa_items(((2048, 65537, 3), (2048, 3, 2))):
        yield it
    for it in dsa_items(((1024, 8),)):
        yield it
    for it in elg_items(((256, 6),)):
        yield it
    for it in rsa_items(((1536, 65537, 3), (1024, 65537, 8), (1024, 3, 8), (1024, 257, 4), (1025, 65537, 4), (1031, 17, 4),
                         (1032, 65537, 4))):
        yield it
    for t in range(4):
        lab = "keygen/dsa-domain/1024/t%d" % t

        def dsadom(lab=lab):
            k0 = _dsa(1024)[1]
            st = Stream(lab)
            k = DSA.generate(1024, randfunc=st, domain=(k0["p"], k0["q"], k0["g"]))
            return (k.y, k.x, st.ctr)
        yield lab, dsadom
    for cv in ("p192", "p224", "p256", "p384", "p521", "ed25519", "ed448", "curve25519", "curve448"):
        for t in range(4):
            lab = "keygen/ecc/%s/t%d" % (cv, t)

            def eccgen(cv=cv, lab=lab):
                st = Stream(lab)
                k = ECC.generate(curve=cv, randfunc=st)
                out = [st.ctr, int(k.pointQ.x)]
                if cv.startswith("p"):
                    out += [int(k.d), int(k.pointQ.y)]
                else:
                    out.append(k.export_key(format="DER"))
                return out
            yield lab, eccgen


def sec_ecc(tier):
    from Crypto.PublicKey import ECC
    from Crypto.Signature import DSS, eddsa
    from Crypto.Hash import SHA256, SHA512, SHAKE256
    from Crypto.Protocol.DH import key_agreement
    curves = ("p192", "p224", "p256", "p384", "p521")
    for cv in curves:
        for di in range(3):
            def mk(cv=cv, di=di):
                order = int(ECC._curves[cv].order)
                d = (int.from_bytes(hashlib.sha512(("c16ecc%s%d" % (cv, di)).encode()).digest() * 2, "big")
                     % (order - 1)) + 1
                if di == 2:
                    d = order - 1
                return ECC.construct(curve=cv, d=d)
            for mi, m in enumerate((b"sample", b"test")):
                for enc in ("binary", "der"):
                    lab = "ecdsa/rfc6979/%s/d%d/m%d/%s" % (cv, di, mi, enc)

                    def det(mk=mk, m=m, enc=enc):
                        k = mk()
                        s = DSS.new(k, "deterministic-rfc6979", encoding=enc).sign(SHA256.new(m))
                        DSS.new(k.public_key(), "fips-186-3", encoding=enc).verify(SHA256.new(m), s)
                        return s
                    yield lab, det
                lab = "ecdsa/fips/%s/d%d/m%d" % (cv, di, mi)

                def fips(mk=mk, m=m, lab=lab):
                    k = mk()
                    s = DSS.new(k, "fips-186-3", randfunc=Stream(lab)).sign(SHA512.new(m))
                    DSS.new(k.public_key(), "fips-186-3").verify(SHA512.new(m), s)
                    return s
                yield lab, fips
            for fmt, kw in (("DER", dict(format="DER")), ("DER-sec1", dict(format="DER", use_pkcs8=False)),
                            ("PEM", dict(format="PEM")), ("SEC1", dict(format="SEC1")),
                            ("SEC1-compressed", dict(format="SEC1", compress=True)),
                            ("OpenSSH", dict(format="OpenSSH")), ("DER-compressed", dict(format="DER", compress=True))):
                lab = "ecc-export/%s/%s/d%d" % (fmt, cv, di)

                def export(mk=mk, fmt=fmt, kw=kw, cv=cv):
                    k = mk()
                    src = k.public_key() if fmt.startswith(("SEC1", "OpenSSH", "DER-compressed")) else k
                    blob = src.export_key(**kw)
                    back = ECC.import_key(blob, curve_name=cv) if fmt.startswith("SEC1") else ECC.import_key(blob)
                    return (blob, int(back.pointQ.x), int(back.pointQ.y), _tn(back.pointQ.x))
                yield lab, export
        # point decompression = modular square root in the selected back-end: both parities, and x without a point
        for xi in range(12 if tier == "thorough" else 6):
            lab = "ecc-decompress/%s/x%d" % (cv, xi)

            def decomp(cv=cv, xi=xi):
                c = ECC._curves[cv]
                size = (int(c.p).bit_length() + 7) // 8
                x = int.from_bytes(hashlib.sha512(("c16x%s%d" % (cv, xi)).encode()).digest() * 2, "big") % int(c.p)
                out = []
                for prefix in (b"\x02", b"\x03"):
                    try:
                        k = ECC.import_key(prefix + x.to_bytes(size, "big"), curve_name=cv)
                        out.append((int(k.pointQ.x), int(k.pointQ.y)))
                    except Exception as e:  # noqa
                        out.append("EXC:" + type(e).__name__)
                return out
            yield lab, decomp
    for cv, n in (("ed25519", 32), ("ed448", 57)):
        for si in range(3):
            lab = "eddsa/%s/s%d" % (cv, si)

            def ed(cv=cv, n=n, si=si):
                k = ECC.construct(curve=cv, seed=Stream("c16ed%s%d" % (cv, si))(n))
                out = [k.public_key().export_key(format="raw"), k.export_key(format="DER"),
                       int(k.pointQ.x), int(k.pointQ.y), int(k.d)]
                for m in (b"", asc(77)):
                    s = eddsa.new(k, "rfc8032").sign(m)
                    eddsa.new(k.public_key(), "rfc8032").verify(m, s)
                    out.append(s)
                    h = SHA512.new(m) if cv == "ed25519" else SHAKE256.new(m)
                    out.append(eddsa.new(k, "rfc8032", context=b"ctx").sign(h))
                back = eddsa.import_public_key(out[0])
                out.append((int(back.pointQ.x), int(back.pointQ.y)))
                return out
            yield lab, ed
    for cv, n in (("curve25519", 32), ("curve448", 56)):
        for si in range(3):
            lab = "xdh/%s/s%d" % (cv, si)

            def xdh(cv=cv, n=n, si=si):
                a = ECC.construct(curve=cv, seed=Stream("c16xa%s%d" % (cv, si))(n))
                b = ECC.construct(curve=cv, seed=Stream("c16xb%s%d" % (cv, si))(n))
                z = key_agreement(static_priv=a, static_pub=b.public_key(), kdf=lambda x: x)
                return (a.public_key().export_key(format="raw"), a.export_key(format="DER"), z, int(a.pointQ.x))
            yield lab, xdh
    for cv in ("p256", "p521"):
        lab = "ecdh/%s" % cv

        def ecdh(cv=cv):
            a = ECC.construct(curve=cv, d=12345678901234567890)
            b = ECC.construct(curve=cv, d=98765432109876543210987)
            return key_agreement(static_priv=a, static_pub=b.public_key(), kdf=lambda x: x)
        yield lab, ecdh
    for cv in curves:
        lab = "ecc-generate/%s" % cv

        def gen(cv=cv, lab=lab):
            k = ECC.generate(curve=cv, randfunc=Stream(lab))
            return (int(k.d), int(k.pointQ.x), int(k.pointQ.y))
        yield lab, gen


def sec_ecc_deep(tier):
    """thorough only (wave 2): every hash length against every curve order for deterministic ECDSA, boundary private
    keys, more decompression inputs, point arithmetic on a scalar alphabet (Integer and int scalars), point
    validation, more EdDSA/XDH seeds"""
    from Crypto.PublicKey import ECC
    from Crypto.Signature import DSS, eddsa
    from Crypto.Hash import SHA1, SHA224, SHA256, SHA384, SHA512, SHA3_256, SHA3_512
    from Crypto.Protocol.DH import key_agreement
    from Crypto.Math.Numbers import Integer
    if tier != "thorough":
        return
    curves = ("p192", "p224", "p256", "p384", "p521")

    def order_of(cv):
        return int(ECC._curves[cv].order)

    def dvals(cv):
        n = order_of(cv)
        return (("one", 1), ("two", 2), ("n-2", n - 2), ("2^64", 2 ** 64), ("2^64-1", 2 ** 64 - 1),
                ("half", n // 2), ("top-bit", 1 << (n.bit_length() - 1)),
                ("seed3", int.from_bytes(hashlib.sha512(("c16ecc%s3" % cv).encode()).digest() * 2, "big") % (n - 1) + 1))
    for cv in curves:
        for hn, H in (("sha1", SHA1), ("sha224", SHA224), ("sha384", SHA384), ("sha512", SHA512),
                      ("sha3_256", SHA3_256), ("sha3_512", SHA3_512)):
            for dn, _ in dvals(cv)[4:]:
                for mi, m in enumerate((b"sample", b"", asc(300, 1))):
                    lab = "ecdsa/rfc6979/%s/%s/%s/m%d" % (cv, dn, hn, mi)

                    def det(cv=cv, dn=dn, H=H, m=m):
                        k = ECC.construct(curve=cv, d=dict(dvals(cv))[dn])
                        s = DSS.new(k, "deterministic-rfc6979").sign(H.new(m))
                        try:
                            DSS.new(k.public_key(), "fips-186-3").verify(H.new(m), s)
                            v = "verified"
                        except ValueError:
                            v = "refused"                # FIPS 186-3 mode refuses hashes weaker than the curve
                        return (s, v)
                    yield lab, det
        for dn, _ in dvals(cv):
            lab = "ecc-key/%s/%s" % (cv, dn)

            def bkey(cv=cv, dn=dn):
                k = ECC.construct(curve=cv, d=dict(dvals(cv))[dn])
                s = DSS.new(k, "deterministic-rfc6979", encoding="der").sign(SHA256.new(b"boundary"))
                blob = k.export_key(format="DER")
                back = ECC.import_key(blob)
                return (int(k.pointQ.x), int(k.pointQ.y), s, blob, int(back.d), k.public_key().export_key(format="SEC1"),
                        k.public_key().export_key(format="SEC1", compress=True))
            yield lab, bkey
        for what in ("r=0", "s=0", "r=n", "s=n", "s=n-1", "flip", "short"):
            lab = "ecdsa-verify/forged/%s/%s" % (cv, what)

            def forged(cv=cv, what=what):
                n = order_of(cv)
                k = ECC.construct(curve=cv, d=dict(dvals(cv))["seed3"])
                h = SHA256.new(b"forged")
                s = DSS.new(k, "deterministic-rfc6979").sign(h)
                sz = len(s) // 2
                r_, s_ = int.from_bytes(s[:sz], "big"), int.from_bytes(s[sz:], "big")
                t = {"r=0": (0, s_), "s=0": (r_, 0), "r=n": (n, s_), "s=n": (r_, n), "s=n-1": (r_, n - 1)}.get(what)
                if t is not None:
                    sig = t[0].to_bytes(sz, "big") + t[1].to_bytes(sz, "big")
                elif what == "flip":
                    sig = s[:-1] + bytes([s[-1] ^ 1])
                else:
                    sig = s[:-1]
                try:
                    DSS.new(k.public_key(), "fips-186-3").verify(h, sig)
                    return "accepted"
                except ValueError:
                    return "rejected"
            yield lab, forged
        for xi in range(12, 48):
            lab = "ecc-decompress/%s/x%d" % (cv, xi)

            def decomp(cv=cv, xi=xi):
                c = ECC._curves[cv]
                size = (int(c.p).bit_length() + 7) // 8
                x = int.from_bytes(hashlib.sha512(("c16x%s%d" % (cv, xi)).encode()).digest() * 2, "big") % int(c.p)
                out = []
                for prefix in (b"\x02", b"\x03"):
                    try:
                        k = ECC.import_key(prefix + x.to_bytes(size, "big"), curve_name=cv)
                        out.append((int(k.pointQ.x), int(k.pointQ.y)))
                    except Exception as e:  # noqa
                        out.append("EXC:" + type(e).__name__)
                return out
            yield lab, decomp
        for xn in ("zero", "one", "p-1", "p", "Gx"):
            lab = "ecc-decompress/%s/%s" % (cv, xn)

            def decompb(cv=cv, xn=xn):
                c = ECC._curves[cv]
                size = (int(c.p).bit_length() + 7) // 8
                x = {"zero": 0, "one": 1, "p-1": int(c.p) - 1, "p": int(c.p), "Gx": int(c.Gx)}[xn]
                out = []
                for prefix in (b"\x02", b"\x03"):
                    try:
                        k = ECC.import_key(prefix + x.to_bytes(size, "big"), curve_name=cv)
                        out.append((int(k.pointQ.x), int(k.pointQ.y)))
                    except Exception as e:  # noqa
                        out.append("EXC:" + type(e).__name__)
                return out
            yield lab, decompb
    # point arithmetic: scalar alphabet x (Integer | int) scalars, on Weierstrass and Edwards curves
    for cv in curves + ("ed25519", "ed448"):
        n = order_of(cv)
        scal = (("0", 0), ("1", 1), ("2", 2), ("3", 3), ("n-1", n - 1), ("n", n), ("n+1", n + 1), ("2n", 2 * n),
                ("2^64-1", 2 ** 64 - 1), ("2^64", 2 ** 64), ("2^bits-1", (1 << n.bit_length()) - 1),
                ("2^640", 2 ** 640), ("seeded", int.from_bytes(hashlib.sha512(("c16sc" + cv).encode()).digest() * 2, "big")),
                ("-1", -1))
        for sn, k in scal:
            for form in ("Integer", "int"):
                lab = "ecc-point/%s/%s/%s" % (cv, sn, form)

                def arith(cv=cv, k=k, form=form):
                    def xy(P):
                        return "inf" if P.is_point_at_infinity() else (int(P.x), int(P.y), _tn(P.x))
                    G = ECC._curves[cv].G
                    P = G * (Integer(k) if form == "Integer" else k)
                    Q = P + G
                    D = P.copy()
                    D.double()
                    N = -P
                    Z = P + N
                    R = (Integer(k) if form == "Integer" else k) * G
                    return (xy(P), xy(Q), xy(D), xy(N), xy(Z), R == P, P == G, P.size_in_bits())
                yield lab, arith
    for cv in curves:
        for what in ("G", "G.y+1", "x=p", "zero", "neg-G"):
            lab = "ecc-construct/point/%s/%s" % (cv, what)

            def cons(cv=cv, what=what):
                c = ECC._curves[cv]
                gx, gy, p_ = int(c.Gx), int(c.Gy), int(c.p)
                x, y = {"G": (gx, gy), "G.y+1": (gx, gy + 1), "x=p": (p_, gy), "zero": (0, 0),
                        "neg-G": (gx, p_ - gy)}[what]
                k = ECC.construct(curve=cv, point_x=x, point_y=y)
                return (int(k.pointQ.x), int(k.pointQ.y), k.export_key(format="DER"))
            yield lab, cons
    for cv, nb in (("ed25519", 32), ("ed448", 57)):
        for si in range(3, 12):
            lab = "eddsa/%s/s%d" % (cv, si)

            def ed(cv=cv, nb=nb, si=si):
                k = ECC.construct(curve=cv, seed=Stream("c16ed%s%d" % (cv, si))(nb))
                out = [k.public_key().export_key(format="raw"), int(k.pointQ.x), int(k.pointQ.y), int(k.d)]
                for m in (b"", asc(si * 29, si)):
                    s = eddsa.new(k, "rfc8032").sign(m)
                    eddsa.new(k.public_key(), "rfc8032").verify(m, s)
                    out.append(s)
                    bad = s[:-1] + bytes([s[-1] ^ 0x40])
                    try:
                        eddsa.new(k.public_key(), "rfc8032").verify(m, bad)
                        out.append("accepted")
                    except ValueError:
                        out.append("rejected")
                return out
            yield lab, ed
    for cv, nb in (("curve25519", 32), ("curve448", 56)):
        for si in range(3, 12):
            lab = "xdh/%s/s%d" % (cv, si)

            def xdh(cv=cv, nb=nb, si=si):
                a = ECC.construct(curve=cv, seed=Stream("c16xa%s%d" % (cv, si))(nb))
                b = ECC.construct(curve=cv, seed=Stream("c16xb%s%d" % (cv, si))(nb))
                z = key_agreement(static_priv=a, static_pub=b.public_key(), kdf=lambda x: x)
                z2 = key_agreement(static_priv=b, static_pub=a.public_key(), kdf=lambda x: x)
                return (a.public_key().export_key(format="raw"), z, z == z2, int(a.pointQ.x))
            yield lab, xdh
    for cv in curves:
        for di in range(4):
            lab = "ecdh/%s/pair%d" % (cv, di)

            def ecdh(cv=cv, di=di):
                n = order_of(cv)
                da = int.from_bytes(hashlib.sha512(("c16dha%s%d" % (cv, di)).encode()).digest() * 2, "big") % (n - 1) + 1
                db = (n - 1) if di == 3 else 12345678901234567890 + di
                a, b = ECC.construct(curve=cv, d=da), ECC.construct(curve=cv, d=db)
                z = key_agreement(static_priv=a, static_pub=b.public_key(), kdf=lambda x: x)
                return (z, z == key_agreement(static_priv=b, static_pub=a.public_key(), kdf=lambda x: x))
            yield lab, ecdh


def sec_primality_deep(tier):
    """thorough only (wave 2): the exhaustive range continued from 2^17 to 2^19, large candidates (fixture primes,
    their products and squares, large Mersenne numbers, neighbours of the curve primes), more generation sizes/seeds"""
    from Crypto.Math import Primality
    if tier != "thorough":
        return

    def verdicts(ns, lab):
        out = []
        for n in ns:
            tp = Primality.test_probable_prime(n, randfunc=Stream("%s|tp|%d" % (lab, n)))
            mr = Primality.miller_rabin_test(n, 3, randfunc=Stream("%s|mr|%d" % (lab, n)))
            lu = Primality.lucas_test(n)
            out.append("%d%d%d" % (tp, mr, lu))
        return "".join(out)
    for lo in range(2 ** 17, 2 ** 19, 256):
        lab = "primality/range/%d-%d" % (lo, lo + 255)
        yield lab, (lambda lo=lo, lab=lab: verdicts(range(lo, lo + 256), lab))

    def big(name):
        from mc.keys import rsa_components, dsa_components
        if name.startswith("rsa"):
            bits, e = name[3:].split("-e")
            c = rsa_components(int(bits), int(e))
            p_, q_ = c["p"], c["q"]
            return [p_, q_, p_ * q_, p_ * p_, p_ + 2, q_ - 2, (p_ - 1) // 2, 2 * p_ + 1, p_ * 3, c["d"] | 1]
        if name.startswith("dsa"):
            c = dsa_components(int(name[3:]))
            return [c["p"], c["q"], c["p"] * c["q"], c["q"] * c["q"], (c["p"] - 1) // c["q"], c["p"] + 2, c["q"] + 2,
                    c["g"] | 1]
        if name == "mersenne":
            return [2 ** k - 1 for k in (1277, 1279, 2203, 2281, 2293)]
        if name == "near-curve":
            out = []
            for cp in (2 ** 255 - 19, 2 ** 256 - 2 ** 224 + 2 ** 192 + 2 ** 96 - 1, 2 ** 384 - 2 ** 128 - 2 ** 96 + 2 ** 32 - 1,
                       2 ** 521 - 1, 2 ** 448 - 2 ** 224 - 1):
                out += [cp - 2, cp + 2, cp * cp, 2 * cp + 1, cp * (2 ** 127 - 1)]
            return out
        raise ValueError(name)
    names = ["rsa%d-e%d" % be for be in RSA_KEYS] + ["dsa1024", "dsa2048", "dsa3072", "mersenne", "near-curve"]
    for name in names:
        for idx in range(len(big(name)) if not name.startswith(("rsa", "dsa")) else (10 if name.startswith("rsa") else 8)):
            lab = "primality/big/%s/%d" % (name, idx)

            def bigv(name=name, idx=idx, lab=lab):
                n = big(name)[idx]
                return (n.bit_length(), verdicts([n], lab))
            yield lab, bigv
    for bits in (160, 161, 191, 192, 255, 256, 257, 511, 512, 513):
        for t in range(2, 5):
            lab = "primality/generate/%d/t%d" % (bits, t)
            yield lab, (lambda bits=bits, lab=lab: Primality.generate_probable_prime(exact_bits=bits,
                                                                                     randfunc=Stream(lab)))
    for bits in (163, 200, 224, 384, 521, 640, 768, 1024):
        lab = "primality/generate/%d/t0" % bits
        yield lab, (lambda bits=bits, lab=lab: Primality.generate_probable_prime(exact_bits=bits,
                                                                                 randfunc=Stream(lab)))
    for bits, t in ((161, 1), (161, 2), (192, 0), (224, 0), (256, 0)):
        lab = "primality/generate-safe/%d/t%d" % (bits, t)
        yield lab, (lambda bits=bits, lab=lab: Primality.generate_probable_safe_prime(exact_bits=bits,
                                                                                      randfunc=Stream(lab)))


def sec_primality(tier):
    """verdicts of the three tests on an exhaustive small range (in blocks of 256 integers) and on the
    adversarial families of mc.ref.nt"""
    from Crypto.Math import Primality
    from mc.ref import nt
    top = 2 ** 17 if tier == "thorough" else 2 ** 12

    def verdicts(ns, lab):
        out = []
        for n in ns:
            tp = Primality.test_probable_prime(n, randfunc=Stream("%s|tp|%d" % (lab, n)))
            mr = Primality.miller_rabin_test(n, 3, randfunc=Stream("%s|mr|%d" % (lab, n)))
            lu = Primality.lucas_test(n)
            out.append("%d%d%d" % (tp, mr, lu))
        return "".join(out)
    for lo in range(0, top, 256):
        lab = "primality/range/%d-%d" % (lo, lo + 255)
        yield lab, (lambda lo=lo, lab=lab: verdicts(range(lo, lo + 256), lab))
    fams = {}
    lim = 10 ** 7 if tier == "thorough" else 10 ** 6
    ps = nt.sieve(400)
    makers = {
        "carmichael": lambda: nt.carmichael_numbers(lim),
        "chernick": lambda: [n for _, n in nt.chernick(400 if tier == "thorough" else 120)],
        "spsp2": lambda: nt.strong_pseudoprimes((2,), lim // 4),
        "spsp23": lambda: nt.strong_pseudoprimes((2, 3), lim if tier == "thorough" else 3 * 10 ** 6 // 2),
        "psi": lambda: sorted(nt.PSI.values()),
        "lucas": lambda: nt.lucas_pseudoprimes(10 ** 5 if tier == "thorough" else 3 * 10 ** 4),
        "slucas": lambda: nt.lucas_pseudoprimes(10 ** 5 if tier == "thorough" else 3 * 10 ** 4, strong=True),
        "prime-squares": lambda: [p * p for p in ps],
        "twin-products": lambda: [p * (p + 2 * k) for p in ps[1:40] for k in (1, 2, 3)],
        "mersenne": lambda: [2 ** k - 1 for k in (13, 17, 19, 31, 61, 67, 89, 107, 127, 257, 521, 607)],
        "fermat": lambda: [2 ** (2 ** k) + 1 for k in range(0, 9)],
        "curve-primes": lambda: [2 ** 255 - 19, 2 ** 256 - 2 ** 224 + 2 ** 192 + 2 ** 96 - 1, 2 ** 521 - 1,
                                 2 ** 448 - 2 ** 224 - 1, 2 ** 224 - 2 ** 96 + 1,
                                 (2 ** 255 - 19) * (2 ** 127 - 1), (2 ** 127 - 1) ** 2],
    }

    def fam(name):
        if name not in fams:
            fams[name] = makers[name]()
        return fams[name]
    for name in ("carmichael", "chernick", "spsp2", "spsp23", "psi", "lucas", "slucas", "prime-squares",
                 "twin-products", "mersenne", "fermat", "curve-primes"):
        for blk in range(6):
            lab = "primality/family/%s/block%d" % (name, blk)

            def famv(name=name, blk=blk, lab=lab):
                ns = fam(name)[blk::6]
                return (len(ns), hashlib.sha256(repr(ns).encode()).hexdigest()[:16], verdicts(ns, lab))
            yield lab, famv
    sizes = (160, 161, 191, 192, 255, 256, 257, 511, 512, 513) if tier == "thorough" else (160, 161, 192, 256)
    for bits in sizes:
        for t in range(2):
            lab = "primality/generate/%d/t%d" % (bits, t)
            yield lab, (lambda bits=bits, lab=lab: Primality.generate_probable_prime(exact_bits=bits,
                                                                                     randfunc=Stream(lab)))
    for bits in ((161, 200) if tier == "thorough" else (161,)):
        lab = "primality/generate-safe/%d" % bits
        yield lab, (lambda bits=bits, lab=lab: Primality.generate_probable_safe_prime(exact_bits=bits,
                                                                                      randfunc=Stream(lab)))
    for bits in (159, 0):
        lab = "primality/generate-refuse/%d" % bits
        yield lab, (lambda bits=bits, lab=lab: Primality.generate_probable_prime(exact_bits=bits,
                                                                                 randfunc=Stream(lab)))


def sec_misc(tier):
    """smaller users of Integer: ElGamal, Integer.random_range through the public re-export, number theory
    helpers that go through Crypto.Math"""
    from Crypto.Math.Numbers import Integer
    from Crypto.PublicKey import ElGamal
    from Crypto.Util import number

    def elg():
        # 256-bit safe prime found deterministically; sign/verify/encrypt/decrypt through the private API
        from Crypto.Math import Primality
        p = int(Primality.generate_probable_safe_prime(exact_bits=192, randfunc=Stream("c16elg")))
        g, x = 5, 0x1234567890ABCDEF1234567
        y = pow(g, x, p)
        k = ElGamal.construct((p, g, y, x))
        c = k._encrypt(0x4D5A, 0x77777777777)
        m = k._decrypt(c)
        s = k._sign(0xABCDEF, 0x10001)
        return ([int(v) for v in c], int(m), [int(v) for v in s], k._verify(0xABCDEF, s), k._verify(0xABCDEE, s))
    yield "misc/elgamal", elg
    for i in range(40):
        lab = "misc/integer-random-range/%d" % i

        def rr(i=i, lab=lab):
            lo = (1 << (i * 7)) - 1
            hi = lo + (1 << (i * 5 + 1)) + i
            s = Stream(lab)
            v = Integer.random_range(min_inclusive=lo, max_inclusive=hi, randfunc=s)
            w = Integer.random(exact_bits=i + 1, randfunc=s)
            return (int(v), int(w), s.ctr)
        yield lab, rr
    for i in range(20):
        lab = "misc/number/%d" % i

        def num(i=i, lab=lab):
            s = Stream(lab)
            n = number.getPrime(64 + 8 * i, randfunc=s)
            return (n, number.isPrime(n), number.isPrime(n + 2), number.inverse(65537, n), number.GCD(n - 1, 2 ** 20),
                    number.size(n))
        yield lab, num


SECTIONS = {"rsa-sign": sec_rsa_sign, "rsa-keys": sec_rsa_keys, "dsa": sec_dsa, "ecc": sec_ecc,
            "primality": sec_primality, "misc": sec_misc,
            # thorough only (wave 2)
            "rsa-sign2": sec_rsa_sign_deep, "dsa2": sec_dsa_deep, "ecc2": sec_ecc_deep,
            "primality2": sec_primality_deep, "keygen": sec_keygen}
EXPECTED_BACKEND = {"default": "IntegerGMP", "nogmp": "IntegerCustom", "native": "IntegerNative"}


def main(argv):
    cfg, section, part, nparts, tier = argv[0], argv[1], int(argv[2]), int(argv[3]), argv[4]
    only = argv[5] if len(argv) > 5 else None
    if cfg == "native":
        sys.modules["Crypto.Math._IntegerGMP"] = None
        sys.modules["Crypto.Math._IntegerCustom"] = None
    from Crypto.Math import Numbers
    out = sys.stdout
    out.write("#backend\t%s\n" % Numbers.Integer.__name__)
    import os
    import Crypto
    out.write("#crypto\t%s\n" % os.path.realpath(os.path.dirname(Crypto.__file__)))
    items = list(SECTIONS[section](tier))          # thunks are lazy: listing costs nothing
    total = len(items)
    lo, hi = part * total // nparts, (part + 1) * total // nparts   # contiguous slices: neighbours share keys
    for i, (label, thunk) in enumerate(items):
        if only is not None:
            if label != only:
                continue
        elif not lo <= i < hi:
            continue
        try:
            v = _render(thunk())
        except Exception as e:  # noqa
            v = "EXC:" + type(e).__name__
        out.write("%s\t%s\n" % (label, v))
    out.write("#end\n")
    out.flush()


if __name__ == "__main__":
    main(sys.argv[1:])
