"""C05 - every key handed out by generate / construct / import_key satisfies its invariants.

Bounded-exhaustive enumeration (ShapeExplorer, small scope + TapeExplorer for generate()).
ONE-SIDED oracle, exactly as the property states:
  (a) every key (or point object) the library RETURNS satisfies the invariants of its type,
      evaluated by the reference (mc.ref.nt / rsa / dsa / ec) on the returned object's public
      attributes;
  (b) inputs violating the invariants are refused with ValueError (a non-ValueError exception and a
      call that never returns are violations of "refused with ValueError").
That a valid input is accepted is NOT demanded (counted as an observation).

Parts
  rsa     RSA.construct at small scale: ALL (p, q) in [0,B]^2 x e in [1,12] x d-variants x u-variants
          x n in {pq, pq+2} x tuple lengths 2, 3, 5, 6 (B = 56 thorough / 16 quick); pseudoprime /
          Carmichael / prime-square factors (thorough: every such composite below 200000); the same
          tuples through RSA.import_key (PKCS#1 / PKCS#8 DER) on a smaller square (40 / 8); the
          1024/1025-bit fixtures with damaged components (thorough: all 11 stored fixtures up to 2048
          bits, 82 variants each, construct + PKCS#1 + PKCS#8)
  dsa     DSA.construct: all (p, q, g) with p < 60, q < 24 (quick p < 24, q < 12), full (y, x) grid when
          the reference accepts the domain, boundary (y, x) alphabet otherwise; 4- and 5-tuples;
          DSA.import_key (OpenSSL DER, PKCS#8, SPKI) on p < 32 (quick 12); fixture variants at 1024 bits
          (thorough: also 2048 and 3072)
  elg     ElGamal.construct: p < 84 (quick p < 32), all g, full (y, x) grid for prime p
  ec      EccPoint / EccXPoint / ECC.construct / ECC.import_key (SEC1 raw and compressed, SPKI,
          OpenSSH, RFC 8032 / RFC 7748 raw, RFC 5915, PKCS#8) on the coordinate alphabet of DESIGN
          (all pairs), scalars {1,2,n-1,0,n,n+1,-1,2^(8len)-1}, private/public mismatch, seed
          lengths, seed/point mismatch, neutral element, low-order Montgomery u and aliases;
          thorough only (_c05_ecpart.ec_cases_deep): windows of 512 consecutive coordinate values at 0, at
          the base point and around p, every length of every octet-string field, private scalars near the
          ends of [1, n-1] and every one-bit scalar / seed
  gen     RSA / DSA / ElGamal / ECC generate() driven by deterministic tapes (seeded streams and
          crafted boundary prefixes), FIPS 186-4 margins (thorough: RSA lengths 1024..1040, 1536, 2048,
          3072, 4096 and six exponents, three DSA sizes, ElGamal lengths 161..192, 224, 256)
  flip    one valid encoding per (key fixture, format): every single-bit flip of every integer /
          coordinate / seed field (re-encoded): whatever is accepted satisfies the invariants
          (thorough: five RSA fixtures, two DSA fixtures, all five NIST curves)
"""
from ..common import Acc, chunks, exc_site, short, seeded, seeded_int, SEED
from ..ref import nt
from ..ref import rsa as RR
from ..ref import dsa as RD
from ..ref import ec as E
from . import _c05_ec as H
from . import _c05_enc as N

LEVEL = "exploration"
RULE = ("complete enumeration of the stated finite grids (see parts): small-scope component tuples for "
        "RSA/DSA/ElGamal, the per-curve coordinate/scalar/seed alphabets for every EC entry point and "
        "import format, a fixed list of entropy tapes for generate(), every single-bit flip of every "
        "numeric field of one valid encoding per (key fixture, format); a case is one call of the real "
        "constructor / importer / generator judged by the reference; it is non-trivial when the call "
        "reaches the library's validation (every case does: all inputs are well-typed); "
        "distinct_nontrivial counts distinct (part, entry, shape, reference class of the input, "
        "library outcome class) tuples actually observed")
BUDGET = {"quick": 200, "thorough": 1500}

from ._c05_base import _DET, install_seams, guarded, Hang, CPU_BUDGET, isp, uniq, tsize

# ---------------------------------------------------------------------------
# RSA
# ---------------------------------------------------------------------------
RSA_MAP = {"n_not_positive": "n-not-positive", "n_ne_pq": "n-not-p-times-q", "factor_range": "factor-below-2",
           "p_not_prime": "composite-factor", "q_not_prime": "composite-factor",
           "ed_ne_1_mod_lambda": "ed-not-1-mod-lcm",
           "u_range": "crt-u-inconsistent", "u_ne_pinv_mod_q": "crt-u-inconsistent",
           "qinv_range": "crt-invq-inconsistent", "qinv_ne_qinv_mod_p": "crt-invq-inconsistent",
           "dp_range": "crt-dp-inconsistent", "e_dp_ne_1_mod_p1": "crt-dp-inconsistent",
           "dq_range": "crt-dq-inconsistent", "e_dq_ne_1_mod_q1": "crt-dq-inconsistent"}

_SCRIPT_RSA = '''# stand-alone reproduction (needs only pycryptodome)
import signal
signal.alarm(10)           # (n, 1, 1) never returns: SIGALRM ends the demonstration after 10 s
from Crypto.PublicKey import RSA
k = RSA.construct(%r)      # (n, e[, d[, p, q[, u]]]); expected: ValueError
print("returned a key:", [(a, getattr(k, a)) for a in ("n", "e", "d", "p", "q", "u") if k.has_private() or a in "ne"])
'''


def rsa_input_bad(tup):
    """property-level defects of an input tuple of length 5 or 6 (reference side)"""
    n, e, d, p, q = tup[:5]
    bad = []
    if p < 2 or q < 2:
        bad.append("factor-below-2")
    if p * q != n:
        bad.append("n-not-p-times-q")
    if p >= 2 and q >= 2:
        if not isp(p) or not isp(q):
            bad.append("composite-factor")
        lam = nt.lcm(p - 1, q - 1)
        if (e * d - 1) % lam:
            bad.append("ed-not-1-mod-lcm")
        if len(tup) == 6:
            u = tup[5]
            if not 0 < u < q or (p * u - 1) % q:
                bad.append("crt-u-inconsistent")
    return bad


def rsa_input_class(tup):
    L = len(tup)
    if L == 2:
        return "public"
    if L == 3:
        n, e, d = tup
        if n < 4:
            return "n-not-semiprime"
        f = nt.factorize_small(n)
        if len(f) != 2 or f[0][1] != 1 or f[1][1] != 1:
            return "n-not-semiprime"
        lam = nt.lcm(f[0][0] - 1, f[1][0] - 1)
        return "valid" if (e * d - 1) % lam == 0 else "ed-not-1-mod-lcm"
    bad = rsa_input_bad(tup)
    return bad[0] if bad else "valid"


def rsa_degenerate(tup):
    L = len(tup)
    if L >= 5:
        if tup[3] == 0 or tup[4] == 0:
            return "zero-component"
        if tup[3] == 1 or tup[4] == 1:
            return "factor=1"
        if tup[3] < 0 or tup[4] < 0:
            return "negative-component"
    if tup[0] == 0:
        return "zero-component"
    if tup[0] < 0:
        return "negative-component"
    return "other"


def rsa_key_bad(key, acc=None):
    """(property-level categories, other reference complaints) for a returned RsaKey"""
    n, e = int(key.n), int(key.e)
    if not key.has_private():
        return [], []
    d, p, q, u = int(key.d), int(key.p), int(key.q), int(key.u)
    dp, dq = int(key.dp), int(key.dq)
    extra = []
    try:
        invq = int(key.invq)
    except Exception:  # noqa
        invq = None
        extra.append("crt-invq-inconsistent")
    bad = RR.rsa_check_key(n, e, d, p, q, u=u, dp=dp, dq=dq, qinv=invq)
    prop = uniq([RSA_MAP[b] for b in bad if b in RSA_MAP] + extra)
    other = [b for b in bad if b not in RSA_MAP]
    return prop, other


def rsa_call(tup, via):
    from Crypto.PublicKey import RSA
    if via == "construct":
        return lambda: RSA.construct(tuple(tup))
    if via == "pkcs1-der":
        n, e, d, p, q = tup[:5]
        dp = d % (p - 1) if p > 1 else 0
        dq = d % (q - 1) if q > 1 else 0
        try:
            qinv = pow(q, -1, p) if p > 1 else 0
        except ValueError:
            qinv = 0
        blob = N.rsa_pkcs1_priv(n, e, d, p, q, dp, dq, qinv)
        return lambda: RSA.import_key(blob)
    if via == "pkcs8-der":
        n, e, d, p, q = tup[:5]
        blob = N.rsa_pkcs8(n, e, d, p, q, d % (p - 1) if p > 1 else 0, d % (q - 1) if q > 1 else 0, 0)
        return lambda: RSA.import_key(blob)
    if via == "pkcs1-pub-der":
        blob = N.rsa_pkcs1_pub(tup[0], tup[1])
        return lambda: RSA.import_key(blob)
    if via == "spki-der":
        blob = N.rsa_spki(tup[0], tup[1])
        return lambda: RSA.import_key(blob)
    if via == "openssh":
        blob = N.rsa_openssh(tup[0], tup[1])
        return lambda: RSA.import_key(blob)
    raise ValueError(via)


def check_rsa(tup, acc, via="construct", budget=CPU_BUDGET):
    """one RSA.construct / RSA.import_key call on integer components; returns the outcome class"""
    tup = tuple(int(v) for v in tup)
    L = len(tup)
    case = {"part": "rsa", "tup": list(tup), "via": via}
    _DET.reset(repr((via, tup)).encode())
    st, val = guarded(rsa_call(tup, via), budget)
    pre = "RSA %s, components (n, e, d, p, q, u)[:%d] = %s" % (
        "construct" if via == "construct" else "import_key(%s)" % via, L, short(list(tup)))
    script = _SCRIPT_RSA % (tup,) if via == "construct" else None
    if st == "hang":
        acc.violation("C05/rsa/hang",
                      pre + ": the call does not return (more than %.2f s of CPU time; typical 50 us; reference class of "
                      "the input: %s) - an input violating the invariants must be refused with ValueError"
                      % (budget, rsa_input_class(tup)),
                      case, script=script,
                      size=tsize(tup) + (100 if tup[0] < 15 else 0) + (200 if rsa_input_class(tup) == "valid" else 0))
        return "hang"
    if st == "exc":
        if isinstance(val, ValueError):
            return "ValueError"
        name = type(val).__name__
        acc.violation("C05/rsa/%s/%s" % (name, rsa_degenerate(tup)),
                      pre + ": raised %s: %s at %s (reference class of the input: %s; the property demands ValueError)"
                      % (name, val, exc_site(val), rsa_input_class(tup)), case, script=script,
                      size=tsize(tup) + (60 if tup[1] < 3 else 0) + (60 if L > 2 and tup[2] < 2 else 0))
        return name
    key = val
    prop, other = rsa_key_bad(key)
    attrs = {a: int(getattr(key, a)) for a in (("n", "e", "d", "p", "q", "u") if key.has_private() else ("n", "e"))}
    if prop:
        acc.violation("C05/rsa/returned-key/%s" % prop[0],
                      pre + ": returned a key with %s, which violates: %s" % (short(attrs), ", ".join(prop)),
                      case, script=script, size=tsize(tup))
        return "key!"
    if L >= 5:
        inb = rsa_input_bad(tup)
        if inb:
            acc.violation("C05/rsa/invalid-input-accepted/%s" % inb[0],
                          pre + ": the input violates %s but a key was returned (%s)" % (", ".join(inb), short(attrs)),
                          case, script=script, size=tsize(tup))
            return "key!"
    if (attrs["n"], attrs["e"]) != tup[:2]:
        acc.observe("RSA: returned key has other n/e than the input")
    for b in other:
        acc.observe("RSA key returned although the reference also notes: %s" % b)
    if L == 2:
        n = tup[0]
        f = nt.factorize_small(n) if 0 < n < 10 ** 7 else None
        if f is not None and not (sum(x[1] for x in f) == 2):
            acc.observe("RSA public key returned whose small modulus is not a product of two primes "
                        "(cannot be checked without the factors; not demanded)")
    return "key"


def rsa_d_variants(p, q, e, n):
    if p >= 2 and q >= 2:
        lam, phi = nt.lcm(p - 1, q - 1), (p - 1) * (q - 1)
    else:
        lam = phi = None
    ds = []
    if lam and lam > 1 and nt.gcd(e, lam) == 1:
        dt = nt.inverse(e, lam)
        ds += [dt, dt + lam, dt + phi, dt - 1, dt + 1]
        if nt.gcd(e, phi) == 1:
            ds.append(nt.inverse(e, phi))
    ds += [0, 1, 2, 3, e, n - 1, n]
    return uniq(ds)


def rsa_u_variants(p, q):
    us = []
    if q >= 2 and nt.gcd(p, q) == 1:
        ut = nt.inverse(p, q) if q > 1 else 0
        us += [ut, ut + q, ut - 1, ut + 1]
    us += [0, 1, 2, q - 1, q]
    return uniq(us)


def rsa_tuples_pq(p, q, es):
    """tuple lengths 2, 5, 6 for one (p, q)"""
    n0 = p * q
    for e in es:
        yield (n0, e)
        for d in rsa_d_variants(p, q, e, n0):
            us = rsa_u_variants(p, q)
            yield (n0, e, d, p, q)
            for u in us:
                yield (n0, e, d, p, q, u)
            yield (n0 + 2, e, d, p, q)
            yield (n0 + 2, e, d, p, q, us[0])


def rsa_tuples_len3(n, B, es):
    """(n, e, d) for one modulus: union of the d-variants over all factor pairs inside the square"""
    pairs = [(p, n // p) for p in range(1, B + 1) if n % p == 0 and n // p <= B and p <= n // p] if n else [(0, 0)]
    for e in es:
        ds = []
        for (p, q) in pairs:
            ds += rsa_d_variants(p, q, e, n)
        for d in uniq(ds):
            yield (n, e, d)


SPECIAL_FACTORS = (561, 1105, 1729, 2465, 2047, 3277, 4033, 341, 91, 49, 121, 169, 1891, 5459, 5777, 10877)
SPECIAL2_LIMIT = 200000
BIG_FIXTURES = ((1024, 65537), (1024, 3), (1025, 65537), (1025, 3), (1031, 65537), (1031, 3), (1032, 65537), (1032, 3),
                (2048, 65537), (2048, 3), (1024, 4294967311))


def special2_factors():
    """thorough tier: every Carmichael number, every strong pseudoprime to base 2, every Lucas pseudoprime (Selfridge parameters) and every
    square of a prime below SPECIAL2_LIMIT (composites built to pass one or the other half of a probable-prime test)"""
    L = SPECIAL2_LIMIT
    vals = set(nt.carmichael_numbers(L)) | set(nt.strong_pseudoprimes((2,), L)) | set(nt.lucas_pseudoprimes(L))
    vals |= {r * r for r in nt.sieve(int(L ** 0.5) + 1) if r * r < L}
    return sorted(vals - set(SPECIAL_FACTORS))


def rsa_stat(acc, via, tup, res):
    acc.count("evaluations")
    acc.count("rsa_cases")
    acc.seen("classes", ("rsa", via, len(tup), rsa_input_class(tup) if len(tup) != 3 or res != "ValueError" or tup[0] < 3000
                         else "-", res))
    if res == "key":
        acc.count("rsa_accept")
    elif res == "ValueError":
        acc.count("rsa_refuse")
        if len(tup) >= 5 and not rsa_input_bad(tup):
            acc.count("rsa_valid_refused")
    else:
        acc.count("rsa_other")


def rsa_worker(shards):
    install_seams()
    acc = Acc()
    ES = tuple(range(1, 13))
    last = None
    for sh in shards:
        kind = sh[0]
        if kind == "pq":
            p, B = sh[1], sh[2]
            part, nparts = (sh[3], sh[4]) if len(sh) > 3 else (0, 1)
            for q in range(0, B + 1)[part::nparts]:
                for tup in rsa_tuples_pq(p, q, ES):
                    rsa_stat(acc, "construct", tup, check_rsa(tup, acc))
                    last = tup
        elif kind == "len3":
            _, ns, B = sh
            for n in ns:
                for tup in rsa_tuples_len3(n, B, ES):
                    rsa_stat(acc, "construct", tup, check_rsa(tup, acc))
                    last = tup
        elif kind == "neg":
            vals = (-1, -2, -3, -5, -7, 3, 5, 7)
            for p in vals:
                for q in vals:
                    if p > 0 and q > 0:
                        continue
                    for e in (3, 5, 7, 11):
                        for d in (3, 5, 7, 11, -3, -5):
                            for tup in ((p * q, e, d, p, q), (abs(p * q), e, d, p, q), (p * q, e), (p * q, e, d),
                                        (-abs(p * q), e, d, abs(p), abs(q))):
                                rsa_stat(acc, "construct", tup, check_rsa(tup, acc))
                                last = tup
        elif kind in ("special", "special2"):
            for p in (SPECIAL_FACTORS if kind == "special" else sh[1]):
                for q in (3, 5, 7, 11, 13, 17):
                    for (pp, qq) in ((p, q), (q, p)):
                        for e in (3, 5, 7, 11, 13, 17, 19, 23):
                            for d in rsa_d_variants(pp, qq, e, pp * qq)[:3]:
                                for tup in ((pp * qq, e, d, pp, qq), (pp * qq, e, d, pp, qq, rsa_u_variants(pp, qq)[0]),
                                            (pp * qq, e, d)):
                                    rsa_stat(acc, "construct", tup, check_rsa(tup, acc))
                                    last = tup
        elif kind == "import":
            p, B = sh[1], sh[2]
            pubvias = ("pkcs1-pub-der", "spki-der") + (("openssh",) if len(sh) > 3 else ())     # thorough: also the OpenSSH line
            for q in range(0, B + 1):
                n0 = p * q
                for e in (1, 3, 5, 7, 11):
                    for via in pubvias:
                        tup = (n0, e)
                        rsa_stat(acc, via, tup, check_rsa(tup, acc, via))
                    for d in rsa_d_variants(p, q, e, n0):
                        for nn in (n0, n0 + 2):
                            tup = (nn, e, d, p, q)
                            for via in ("pkcs1-der", "pkcs8-der"):
                                rsa_stat(acc, via, tup, check_rsa(tup, acc, via))
                            last = tup
        elif kind == "big":
            from ..keys import rsa_components
            deep = len(sh) > 1                       # thorough tier: ("big", index into BIG_FIXTURES), one fixture per shard
            for bits, e in (BIG_FIXTURES[sh[1]:sh[1] + 1] if deep else BIG_FIXTURES[:3]):
                c = rsa_components(bits, e)
                n, d, p, q = c["n"], c["d"], c["p"], c["q"]
                lam = nt.lcm(p - 1, q - 1)
                u = nt.inverse(p, q)
                variants = [(n, e, d, p, q), (n, e, d, p, q, u), (n, e, d, q, p), (n, e, d, q, p, nt.inverse(q, p)),
                            (n, e, d, q, p, u), (n, e, d, p, q, u + q), (n, e, d, p, q, u + 1), (n, e, d, p, q, 1),
                            (n, e, d + lam, p, q), (n, e, d + 1, p, q), (n, e, d ^ 2, p, q), (n + 2, e, d, p, q),
                            (n, e, d, p + 2, q), (n, e, d, p, q + 2), (n, e + 2, d, p, q), (n, e, d), (n, e, d + lam),
                            (n, e, d + 2), (n, e), (n + 1, e), (p, e), (n, e, d, n, 1), (n, e, d, 1, n),
                            (p * p, e, d, p, p), (p * p, e, nt.inverse(e, p * (p - 1)) if nt.gcd(e, p) == 1 else d, p, p)]
                if deep:
                    phi = (p - 1) * (q - 1)
                    # private exponents d + k*lcm and d + k*phi (factor recovery from (n, e, d) and the consistency check),
                    # neighbours of d, of the factors and of u; every one with 3, 5 and 6 components where that applies
                    for k in range(2, 9):
                        variants += [(n, e, d + k * lam), (n, e, d + k * lam, p, q), (n, e, d + k * phi), (n, e, d + k * phi, p, q)]
                    for dd in (d - 2, d - 1, d + 1, d + 2, d ^ (1 << 512), lam - d, n - d):
                        variants += [(n, e, dd), (n, e, dd, p, q)]
                    for (pp, qq) in ((p - 2, q), (p, q - 2), (p + 2, q - 2), (nt.next_prime(p), q), (p, nt.next_prime(q))):
                        variants += [(n, e, d, pp, qq), (pp * qq, e, d, pp, qq)]
                    for uu in (u - 1, u + 2, u - q, u + 2 * q, q - u, 0, q, q - 1):
                        variants += [(n, e, d, p, q, uu)]
                    variants = uniq(variants)
                    acc.seen("rsa_big_nvariants", len(variants))
                for tup in variants:
                    for via in (("construct", "pkcs1-der") + (("pkcs8-der",) if deep else ()) if len(tup) == 5 else ("construct",)):
                        res = check_rsa(tup, acc, via, budget=20.0)
                        acc.count("evaluations")
                        if via == "construct":
                            acc.count("rsa_big_variants")
                        acc.seen("classes", ("rsa-big", via, len(tup), bits, variants.index(tup), res))
                        acc.count("rsa_accept" if res == "key" else "rsa_refuse" if res == "ValueError" else "rsa_other")
                        last = tup
    if last is not None:
        acc.sample({"part": "rsa", "last_shard": [str(x)[:40] for x in sh], "last_tuple": [short(v) for v in last]})
    return acc


# ---------------------------------------------------------------------------
# DSA
# ---------------------------------------------------------------------------
DSA_MAP = {"range": "p-or-q-too-small", "p_not_prime": "p-not-prime", "q_not_prime": "q-not-prime",
           "q_not_dividing_p_minus_1": "q-not-dividing-p-1", "g_range": "g-not-subgroup-generator",
           "g_order": "g-not-subgroup-generator", "x_range": "x-out-of-range", "y_ne_g_pow_x": "y-not-g-pow-x"}

_SCRIPT_DSA = '''# stand-alone reproduction (needs only pycryptodome)
from Crypto.PublicKey import DSA
k = DSA.construct(%r)      # (y, g, p, q[, x]); expected: ValueError
print("returned a key:", [(a, getattr(k, a)) for a in ("y", "g", "p", "q")])
'''


def dsa_bad(p, q, g, y, x):
    """(property-level categories, observations) for DSA components (input or returned)"""
    bad = RD.dsa_check_key(p, q, g, y, x)
    prop = [DSA_MAP[b] for b in bad if b in DSA_MAP]
    obs = []
    if "range" not in bad:
        if not 0 < y < p:
            prop.append("y-out-of-range")
        elif "y_range" in bad:
            obs.append("y = 1")
        if "y_order" in bad and x is None:
            obs.append("public y outside the order-q subgroup")
    return uniq(prop), obs


def dsa_call(tup, via):
    from Crypto.PublicKey import DSA
    if via == "construct":
        return lambda: DSA.construct(tuple(tup))
    y, g, p, q = tup[:4]
    if via == "openssl-der":
        blob = N.dsa_openssl(p, q, g, y, tup[4])
    elif via == "pkcs8-der":
        blob = N.dsa_pkcs8(p, q, g, tup[4])
    elif via == "spki-der":
        blob = N.dsa_spki(p, q, g, y)
    elif via == "openssh":
        blob = N.dsa_openssh(p, q, g, y)
    else:
        raise ValueError(via)
    return lambda: DSA.import_key(blob)


def check_dsa(tup, acc, via="construct", budget=CPU_BUDGET):
    tup = tuple(int(v) for v in tup)
    y, g, p, q = tup[:4]
    x = tup[4] if len(tup) == 5 else None
    case = {"part": "dsa", "tup": list(tup), "via": via}
    _DET.reset(repr((via, tup)).encode())
    st, val = guarded(dsa_call(tup, via), budget)
    pre = "DSA %s, components (y, g, p, q, x)[:%d] = %s" % (
        "construct" if via == "construct" else "import_key(%s)" % via, len(tup), short(list(tup)))
    script = _SCRIPT_DSA % (tup,) if via == "construct" else None
    if st == "hang":
        acc.violation("C05/dsa/hang", pre + ": the call does not return within %.2f s of CPU time" % budget,
                      case, script=script, size=tsize(tup))
        return "hang"
    if st == "exc":
        if isinstance(val, ValueError):
            return "ValueError"
        name = type(val).__name__
        deg = "zero-component" if p == 0 or q == 0 else "negative-component" if min(tup) < 0 else "other"
        acc.violation("C05/dsa/%s/%s" % (name, deg),
                      pre + ": raised %s: %s at %s (the property demands ValueError)" % (name, val, exc_site(val)),
                      case, script=script, size=tsize(tup))
        return name
    key = val
    rp, rq, rg, ry = int(key.p), int(key.q), int(key.g), int(key.y)
    rx = int(key.x) if key.has_private() else None
    prop, obs = dsa_bad(rp, rq, rg, ry, rx)
    if via == "pkcs8-der" and x is not None:
        inp = dsa_bad(p, q, g, pow(g, x, p) if p > 0 else y, x)[0]       # y is not part of this format
    else:
        inp = dsa_bad(p, q, g, y, x)[0]
    if prop:
        acc.violation("C05/dsa/returned-key/%s" % prop[0],
                      pre + ": returned a key (p=%s q=%s g=%s y=%s x=%s) which violates: %s"
                      % (short(rp), short(rq), short(rg), short(ry), short(rx), ", ".join(prop)),
                      case, script=script, size=tsize(tup))
        return "key!"
    if inp:
        acc.violation("C05/dsa/invalid-input-accepted/%s" % inp[0],
                      pre + ": the input violates %s but a key was returned" % ", ".join(inp),
                      case, script=script, size=tsize(tup))
        return "key!"
    for o in obs:
        acc.observe("DSA public key returned with " + o + " (not demanded by the property text)")
    return "key"


def dsa_yx_grid(p, q, g, full):
    """(y, x-or-None) pairs; full grid when the reference accepts the domain"""
    if full:
        for y in range(0, p + 1):
            yield (y, None)
            for x in range(0, q + 1):
                yield (y, x)
        return
    ys = uniq([v for v in (0, 1, 2, g, g * g % p if p > 0 else 0, p - 2, p - 1, p) if v >= 0])
    xs = uniq([v for v in (0, 1, 2, q - 1, q) if v >= 0])
    for y in ys:
        yield (y, None)
        for x in xs:
            yield (y, x)
    # consistent (x, y) pairs for an invalid domain
    if p > 0:
        for x in xs + [3]:
            yy = pow(g, x, p)
            if yy not in ys:
                yield (yy, None)
                yield (yy, x)


def dsa_stat(acc, via, tup, res):
    acc.count("evaluations")
    acc.count("dsa_cases")
    y, g, p, q = tup[:4]
    x = tup[4] if len(tup) == 5 else None
    cls = dsa_bad(p, q, g, y, x)[0]
    acc.seen("classes", ("dsa", via, len(tup), cls[0] if cls else "valid", res))
    if res == "key":
        acc.count("dsa_accept")
    elif res == "ValueError":
        acc.count("dsa_refuse")
        if not cls:
            acc.count("dsa_valid_refused")
    else:
        acc.count("dsa_other")


def dsa_worker(shards):
    install_seams()
    acc = Acc()
    last = None
    for sh in shards:
        kind = sh[0]
        if kind == "p":
            _, p, QB = sh
            for q in range(0, QB):
                for g in range(0, p + 2):
                    full = not RD.dsa_check_domain(p, q, g)
                    for (y, x) in dsa_yx_grid(p, q, g, full):
                        tup = (y, g, p, q) if x is None else (y, g, p, q, x)
                        dsa_stat(acc, "construct", tup, check_dsa(tup, acc))
                        last = tup
        elif kind == "import":
            p, QB = sh[1], sh[2]
            for q in range(0, QB):
                for g in range(0, p + 1):
                    full = not RD.dsa_check_domain(p, q, g)
                    for (y, x) in dsa_yx_grid(p, q, g, full):
                        if x is None:
                            tup = (y, g, p, q)
                            dsa_stat(acc, "spki-der", tup, check_dsa(tup, acc, "spki-der"))
                            if len(sh) > 3:                  # thorough: also the OpenSSH line
                                dsa_stat(acc, "openssh", tup, check_dsa(tup, acc, "openssh"))
                        else:
                            tup = (y, g, p, q, x)
                            dsa_stat(acc, "openssl-der", tup, check_dsa(tup, acc, "openssl-der"))
                            if y == 0:
                                dsa_stat(acc, "pkcs8-der", tup, check_dsa(tup, acc, "pkcs8-der"))
                        last = tup
        elif kind == "neg":
            for p in (-7, -3, 7, 23):
                for q in (-3, -1, 3, 11):
                    for g in (-2, 2, 4, p - 1):
                        for y in (-1, 1, 2, 4):
                            for x in (None, -1, 1, 2):
                                if min(p, q, g, y, x if x is not None else 0) >= 0:
                                    continue
                                tup = (y, g, p, q) if x is None else (y, g, p, q, x)
                                dsa_stat(acc, "construct", tup, check_dsa(tup, acc))
        elif kind == "big":
            from ..keys import dsa_components
            for (L, Nn) in ((1024, 160), (2048, 224), (3072, 256))[(sh[2] if len(sh) > 2 else 0):sh[1]]:
                c = dsa_components(L, Nn)
                p, q, g, y, x = c["p"], c["q"], c["g"], c["y"], c["x"]
                variants = [(y, g, p, q, x), (y, g, p, q), (y, g, p, q, x + q), (y, g, p, q, x + 1), (y * g % p, g, p, q, x),
                            (y, g, p, q, 0), (1, g, p, q, q), (y, g * 2 % p, p, q), (y, p - 1, p, q), (y, 1, p, q),
                            (y, g + p, p, q, x), (y + p, g, p, q, x), (y + p, g, p, q), (0, g, p, q), (y, g, p + 2, q, x),
                            (y, g, p, q + 2, x), (y, g, p, (p - 1) // q), (pow(g, 2, p), g, p, q, 2), (p - 1, g, p, q),
                            (y, g, p * 3, q), (y, pow(g, 1, p), p, q * 1, x)]
                for i, tup in enumerate(variants):
                    for via in ("construct",) + (("openssl-der",) if len(tup) == 5 else ("spki-der",)):
                        res = check_dsa(tup, acc, via, budget=30.0)
                        acc.count("evaluations")
                        acc.seen("classes", ("dsa-big", via, L, i, res))
                        acc.count("dsa_accept" if res == "key" else "dsa_refuse" if res == "ValueError" else "dsa_other")
                        last = tup
    if last is not None:
        acc.sample({"part": "dsa", "last_shard": [str(v)[:30] for v in sh], "last_tuple": [short(v) for v in last]})
    return acc


# ---------------------------------------------------------------------------
# ElGamal
# ---------------------------------------------------------------------------
_SCRIPT_ELG = '''# stand-alone reproduction (needs only pycryptodome)
from Crypto.PublicKey import ElGamal
k = ElGamal.construct(%r)      # (p, g, y[, x]); expected: ValueError
print("returned a key:", [(a, getattr(k, a)) for a in ("p", "g", "y")])
'''


def elg_bad(p, g, y, x):
    prop, obs = [], []
    if p < 3 or not isp(p):
        prop.append("p-not-prime")
        return prop, obs
    if not 1 < g < p:
        prop.append("g-out-of-range")
    if not 0 < y < p:
        prop.append("y-out-of-range")
    if x is not None and pow(g, x, p) != y:
        prop.append("y-not-g-pow-x")
    if g == p - 1:
        obs.append("g = p-1 (documented range is 1 < g < p-1)")
    if x is not None and not 1 < x < p - 1:
        obs.append("x outside the documented range 1 < x < p-1")
    return prop, obs


def check_elg(tup, acc, budget=CPU_BUDGET):
    from Crypto.PublicKey import ElGamal
    tup = tuple(int(v) for v in tup)
    p, g, y = tup[:3]
    x = tup[3] if len(tup) == 4 else None
    case = {"part": "elg", "tup": list(tup)}
    _DET.reset(repr(("elg", tup)).encode())
    st, val = guarded(lambda: ElGamal.construct(tup), budget)
    pre = "ElGamal.construct, components (p, g, y, x)[:%d] = %s" % (len(tup), short(list(tup)))
    script = _SCRIPT_ELG % (tup,)
    if st == "hang":
        acc.violation("C05/elgamal/hang", pre + ": the call does not return within %.2f s of CPU time" % budget,
                      case, script=script, size=tsize(tup))
        return "hang"
    if st == "exc":
        if isinstance(val, ValueError):
            return "ValueError"
        name = type(val).__name__
        deg = "zero-component" if p == 0 else "negative-component" if min(tup) < 0 else "other"
        acc.violation("C05/elgamal/%s/%s" % (name, deg),
                      pre + ": raised %s: %s at %s (the property demands ValueError)" % (name, val, exc_site(val)),
                      case, script=script, size=tsize(tup))
        return name
    key = val
    rp, rg, ry = int(key.p), int(key.g), int(key.y)
    rx = int(key.x) if hasattr(key, "x") else None
    prop, obs = elg_bad(rp, rg, ry, rx)
    inp = elg_bad(p, g, y, x)[0]
    if prop:
        acc.violation("C05/elgamal/returned-key/%s" % prop[0],
                      pre + ": returned a key (p=%s g=%s y=%s x=%s) which violates: %s"
                      % (short(rp), short(rg), short(ry), short(rx), ", ".join(prop)), case, script=script, size=tsize(tup))
        return "key!"
    if inp:
        acc.violation("C05/elgamal/invalid-input-accepted/%s" % inp[0],
                      pre + ": the input violates %s but a key was returned" % ", ".join(inp), case, script=script,
                      size=tsize(tup))
        return "key!"
    for o in obs:
        acc.observe("ElGamal key returned with " + o)
    return "key"


def elg_worker(shards):
    install_seams()
    acc = Acc()
    last = None
    for sh in shards:
        if sh[0] == "p":
            p = sh[1]
            part, nparts = (sh[2], sh[3]) if len(sh) > 2 else (0, 1)
            prime = p >= 3 and isp(p)
            for g in range(0, p + 2)[part::nparts]:
                if prime:
                    ys, xs = range(0, p + 1), range(0, p + 2)
                else:
                    ys = uniq([v for v in (0, 1, 2, g, g * g % p if p > 0 else 0, p - 1, p) if v >= 0])
                    xs = uniq([v for v in (0, 1, 2, p - 2, p - 1, p) if v >= 0])
                for y in ys:
                    for x in [None] + list(xs):
                        tup = (p, g, y) if x is None else (p, g, y, x)
                        res = check_elg(tup, acc)
                        last = tup
                        acc.count("evaluations")
                        acc.count("elg_cases")
                        cls = elg_bad(p, g, y, x)[0]
                        acc.seen("classes", ("elg", len(tup), cls[0] if cls else "valid", res))
                        acc.count("elg_accept" if res == "key" else "elg_refuse" if res == "ValueError" else "elg_other")
                        if res == "ValueError" and not cls:
                            acc.count("elg_valid_refused")
                if not prime and p > 0:
                    # consistent (x, y) pairs for a composite modulus
                    for x in (1, 2, 3, p - 2):
                        tup = (p, g, pow(g, x, p), x)
                        res = check_elg(tup, acc)
                        acc.count("evaluations")
                        acc.seen("classes", ("elg", 4, "composite-consistent", res))
        elif sh[0] == "misc":
            for tup in ((-7, 3, 2), (7, -3, 2), (7, 3, -2), (7, 3, 2, -4), (7, 3), (7, 3, 2, 2, 1), (7,), ()):
                try:
                    res = check_elg(tup, acc)
                except Exception as ex:  # noqa  (harness: tuples shorter than 3)
                    res = "harness:" + type(ex).__name__
                acc.count("evaluations")
                acc.seen("classes", ("elg-misc", len(tup), res))
    if last is not None:
        acc.sample({"part": "elgamal", "last_shard": list(sh), "last_tuple": list(last)})
    return acc


# ---------------------------------------------------------------------------
def selftest_worker(names):
    import importlib
    acc = Acc()
    for nm in names:
        try:
            importlib.import_module(nm).selftest()
        except Exception as ex:  # noqa
            acc.error("reference %s failed its selftest: %r" % (nm, ex))
    return acc


def run(ctx):
    import time
    from . import _c05_ecpart as P
    from . import _c05_gen as G
    from . import _c05_flip as F
    q = ctx.quick
    _pm = ctx.pmap
    phases = {}

    shard_s = {}

    def timed(fn, shards):
        t, c0 = time.time(), ctx.acc.n.get("_cpu_s", 0)
        r = _pm(fn, shards)
        phases[fn.__name__] = round(phases.get(fn.__name__, 0) + time.time() - t, 1)
        shard_s[fn.__name__] = round(shard_s.get(fn.__name__, 0) + ctx.acc.n.get("_cpu_s", 0) - c0, 1)
        return r
    ctx.pmap = timed
    ctx.coverage_extra["phase_wall_s"] = phases
    ctx.coverage_extra["phase_shard_s"] = shard_s         # sum of the shards' own run times (the harness's cpu_s, by phase)
    ctx.pmap(selftest_worker, [[m.__name__] for m in (nt, RR, RD, E, H, N)])
    if ctx.acc.errors:
        return
    if not install_seams():
        ctx.acc.error("harness cannot reach seam Crypto.Math.Primality.Random / _IntegerBase.Random")
        return
    from Crypto.PublicKey import RSA
    if not hasattr(RSA, "generate_probable_prime"):
        ctx.acc.error("harness cannot reach seam Crypto.PublicKey.RSA.generate_probable_prime")
        return
    a = ctx.acc

    # ---- generate() first: the longest single cases ----
    gc = G.gen_cases(q)
    gc.sort(key=lambda c: (0 if c["kind"] == "elg" else 1 if c.get("bits", 0) >= 2048 else 2))
    ctx.pmap(G.gen_worker, [[c] for c in gc[:24]] + chunks(gc[24:], 48) if q else G.gen_shards(gc, q))
    for kind, lo in (("rsa", 8), ("dsa", 4), ("elg", 2), ("ecc", 27)):
        ctx.require(a.n.get("gen_%s_key" % kind, 0) >= lo, "generate(): fewer than %d %s keys were produced" % (lo, kind))
    ctx.require(a.n.get("gen_refused", 0) >= 15, "generate(): illegal parameters / domains were not refused")
    ctx.require(a.n.get("gen_rsa_injected", 0) >= 4 and a.n.get("gen_rsa_injected_all_candidates_consumed", 0) >= 4,
                "generate(): the candidates q = p / q near p were never offered (or not all of them were read)")
    ctx.require(a.distinct.get("gen_dsa_x", set()) >= {"1", "q-1", "mid"}, "DSA.generate boundary tapes did not give x = 1 and x = q-1")
    bd = a.distinct.get("gen_ecc_boundary", set())
    ctx.require(all((cn, k) in bd for cn in H.WEIER for k in ("d=1", "d=n-1", "mid")),
                "ECC.generate boundary tapes did not give d = 1 and d = n-1 on every Weierstrass curve")
    if not q:
        gk = {(c_[1], c_[2], c_[3]) for c_ in a.distinct.get("classes", ()) if c_[0] == "gen" and c_[-1] == "key"}
        ctx.require(all(("rsa", b, e) in gk for b in G.DEEP_RSA_BITS + tuple(x[0] for x in G.DEEP_RSA_LARGE) for e in (3, 65537)),
                    "RSA.generate: not every modulus length of the thorough tier produced a key")
        ctx.require(all(("rsa", 1024 + i, e) in gk for i in (0, 1, 7, 8, 9, 15, 16) for e in G.DEEP_RSA_E),
                    "RSA.generate: not every public exponent of the thorough tier produced a key")
        ctx.require(all(("elg", b, None) in gk for b in G.DEEP_ELG_BITS), "ElGamal.generate: not every modulus length produced a key")
        ctx.require(all(("dsa", b, None) in gk for b in (1024, 2048, 3072)), "DSA.generate: not every modulus length produced a key")
        ctx.require(a.n.get("gen_rsa_key", 0) >= 1500 and a.n.get("gen_elg_key", 0) >= 250 and a.n.get("gen_dsa_key", 0) >= 90
                    and a.n.get("gen_ecc_key", 0) >= 400 and a.n.get("gen_refused", 0) >= 60,
                    "generate(): the thorough tier produced fewer keys / refusals than its case list implies")

    # ---- RSA ----
    B = 16 if q else 56
    BI = 8 if q else 40
    ns = sorted({p * qq for p in range(B + 1) for qq in range(B + 1)})
    if q:
        sh = [[("pq", p, B)] for p in range(B, -1, -1)]
        sh += [[("len3", c, B)] for c in chunks(ns, 48)]
        sh += [[("neg",)], [("special",)], [("big",)]]
        sh += [[("import", p, BI)] for p in range(BI, -1, -1)]
        sp2 = []
    else:
        sp2 = special2_factors()
        ctx.require(len(sp2) >= 150 and 6601 in sp2 and 8321 in sp2 and 5459 not in sp2 and 97 * 97 in sp2,
                    "RSA: the list of special composite factors is not what the reference functions should give")
        sh = [[("big", i)] for i in (8, 9)]                                  # the 2048-bit fixtures first
        sh += [[("pq", p, B, part, 2)] for p in range(B, -1, -1) for part in range(2)]
        sh += [[("import", p, BI, "openssh")] for p in range(BI, -1, -1)]
        sh += [[("len3", c, B)] for c in chunks(ns, 64)]
        sh += [[("special2", c)] for c in chunks(sp2, 16)]
        sh += [[("big", i)] for i in range(len(BIG_FIXTURES)) if i not in (8, 9)]
        sh += [[("neg",)], [("special",)]]
    ctx.pmap(rsa_worker, sh)
    ctx.require(a.n.get("rsa_accept", 0) >= 100, "RSA: fewer than 100 tuples accepted")
    ctx.require(a.n.get("rsa_refuse", 0) >= 1000, "RSA: fewer than 1000 tuples refused")
    if not q:
        bigc = {(c_[3], c_[1], c_[5]) for c_ in a.distinct.get("classes", ()) if c_[0] == "rsa-big"}
        ctx.require(all((b, via, r) in bigc for b in (1024, 1025, 1031, 1032, 2048) for via in ("construct", "pkcs1-der", "pkcs8-der")
                        for r in ("key", "ValueError")),
                    "RSA: not every fixture size was both accepted and refused through construct, PKCS#1 and PKCS#8")
    # ---- DSA ----
    PB, QB = (24, 12) if q else (60, 24)
    PI = 12 if q else 32
    if q:
        sh = [[("p", p, QB)] for p in range(PB - 1, -1, -1)] + [[("neg",)], [("big", 1)]]
    else:
        sh = [[("big", 3, 2)], [("big", 2, 1)], [("big", 1, 0)]] + [[("p", p, QB)] for p in range(PB - 1, -1, -1)] + [[("neg",)]]
    sh += [[("import", p, QB) if q else ("import", p, QB, "openssh")] for p in range(PI - 1, -1, -1)]
    ctx.pmap(dsa_worker, sh)
    if not q:
        bigc = {(c_[2], c_[1], c_[4]) for c_ in a.distinct.get("classes", ()) if c_[0] == "dsa-big"}
        ctx.require(all((L_, via, r) in bigc for L_ in (1024, 2048, 3072) for via in ("construct", "openssl-der", "spki-der")
                        for r in ("key", "ValueError")),
                    "DSA: not every fixture size was both accepted and refused through construct, OpenSSL DER and SPKI")
    ctx.require(a.n.get("dsa_accept", 0) >= 100 and a.n.get("dsa_refuse", 0) >= 1000, "DSA: accept/refuse classes too small")
    # ---- ElGamal ----
    EB = 32 if q else 84
    if q:
        ctx.pmap(elg_worker, [[("p", p)] for p in range(EB - 1, -1, -1)] + [[("misc",)]])
    else:
        # a prime modulus costs p^3 calls: the large ones are cut by g into 4 shards
        ctx.pmap(elg_worker, [[("p", p, part, 4 if p >= 40 else 1)] for p in range(EB - 1, -1, -1)
                              for part in range(4 if p >= 40 else 1)] + [[("misc",)]])
    ctx.require(a.n.get("elg_accept", 0) >= 100 and a.n.get("elg_refuse", 0) >= 1000, "ElGamal: accept/refuse classes too small")
    # ---- EC ----
    ctx.pmap(P.ec_worker, P.ec_shards(q))
    ctx.require(a.n.get("ec_accept", 0) >= 500 and a.n.get("ec_refuse", 0) >= 5000, "EC: accept/refuse classes too small")
    ents = a.distinct.get("ec_entries", set())
    nmb = a.distinct.get("ec_near_miss_bits", set())
    for cn in H.ALL:
        wbits = 64 * ((E.CURVES[cn].p.bit_length() + 63) // 64)
        have = len({b for (c_, f_, b) in nmb if c_ == cn and f_ == "montgomery"})
        ctx.require(have >= wbits - 8, "EC near misses on %s: only %d of %d bit positions of the Montgomery form produced a case" % (cn, have, wbits))
    ctx.require(len(ents) >= 55, "EC: fewer than 55 (curve, entry point / format) combinations were exercised (%d)" % len(ents))
    if not q:
        dout = a.distinct.get("ec_deep_outcomes", set())
        ctx.require(all((cn, sub, r) in dout for cn in H.ALL for sub in P.DEEP_SUBS for r in ("accept", "refuse")),
                    "EC: not every thorough-tier sub-grid (window, lengths, priv2, aliases) was both accepted and refused on every curve")
        ctx.require(len(a.distinct.get("ec_aliases", ())) >= 31, "EC: fewer than 31 further curve names were exercised")
        ctx.require(a.n.get("ec_deep_window", 0) >= 150000 and a.n.get("ec_deep_lengths", 0) >= 10000 and a.n.get("ec_deep_priv2", 0) >= 20000,
                    "EC: the thorough-tier sub-grids are smaller than their definition implies")
    # ---- flips ----
    ctx.pmap(F.flip_worker, F.flip_shards(q))
    ctx.require(a.n.get("flip_accept", 0) >= 500 and a.n.get("flip_refuse", 0) >= 500, "flip: accept/refuse classes too small")
    acc_fields = sorted(a.distinct.get("flip_accepting_fields", ()))
    ign = [f for f in acc_fields if f[0].startswith("rsa/pkcs") and f[1] in ("dp", "dq", "qinv")]
    if ign:
        a.observe("RSA.import_key ignores the fields dP, dQ, qInv of a PKCS#1 / PKCS#8 private key: every flipped value is "
                  "accepted and the returned key carries recomputed, consistent CRT values (returned key valid; observation)")
    if [f for f in acc_fields if "rfc5915" in f[0] and f[1] in ("x", "y") or f[0].endswith("/pkcs8") and f[1] in ("x", "y")]:
        a.observe("ECC.import_key ignores an undecodable embedded public point of an RFC 5915 / PKCS#8 private key "
                  "(returned key has Q = d*G; observation, DESIGN section 5)")

    nclasses = len(a.distinct.get("classes", ()))
    ctx.require(nclasses >= 400, "fewer than 400 behaviour classes observed (%d)" % nclasses)
    vc = {}
    for (k, cn, grp) in a.distinct.get("ec_viol_curves", ()):
        vc.setdefault(k, []).append("%s:%s" % (cn, grp))
    ctx.coverage_extra.update({
        "evaluations": a.n.get("evaluations", 0),
        "distinct_nontrivial": nclasses,
        "exhaustive": not a.caps,
        "grids": {
            "rsa": "all (p,q) in [0,%d]^2 x e in [1,12] x d-variants (<=13) x u-variants (<=9) x n in {pq, pq+2} x tuple lengths "
                   "2,3,5,6; negative and special (Carmichael / strong-pseudoprime / prime-square) factors; import (PKCS#1, PKCS#8, "
                   "SPKI) on [0,%d]^2; 1024/1025-bit fixtures with 25 damaged variants" % (B, BI) + ("" if q else
                   "; thorough tier: public keys of the import square also as OpenSSH lines; %d further composite factors (every Carmichael number, strong pseudoprime to base 2, Lucas "
                   "pseudoprime and prime square below %d); all %d stored fixtures %s, each with %s variants (d + k*lcm and "
                   "d + k*phi for k = 2..8 with 3 and 5 components, neighbours of d, of the factors and of u) through construct, "
                   "PKCS#1 and PKCS#8" % (len(sp2), SPECIAL2_LIMIT, len(BIG_FIXTURES), list(BIG_FIXTURES),
                      "-".join(str(v) for v in sorted({min(a.distinct.get("rsa_big_nvariants", {0})), max(a.distinct.get("rsa_big_nvariants", {0}))})))),
            "dsa": "all (p,q,g) with p < %d, q < %d; (y,x) complete when the reference accepts the domain, boundary alphabet "
                   "otherwise; 4- and 5-tuples; import (OpenSSL DER, PKCS#8, SPKI) for p < %d; 1024-bit fixture variants" % (PB, QB, PI)
                   + ("" if q else "; thorough tier: public keys of the import grid also as OpenSSH lines; the same 21 variants of the "
                                     "2048/224 and 3072/256 fixtures"),
            "elgamal": "all (p,g) with p < %d; (y,x) complete for prime p, boundary alphabet otherwise" % EB,
            "ec": "nine curves; coordinate alphabets %s (all pairs) through EccPoint, ECC.construct, SEC1, SPKI, OpenSSH, "
                  "compressed forms, RFC 8032 / RFC 7748 raw encodings; scalar and seed alphabets; key files"
                  % {cn: [len(x) for x in H.coord_alphabets(cn)] for cn in H.WEIER + H.EDW} + ("" if q else
                  "; thorough tier, every curve: WINDOW = %d consecutive values of x (Weierstrass), encoded y (Edwards), u (Montgomery) "
                  "from 0, from the base point and on both sides of p (Montgomery: also around 2^255 and the octet width): both "
                  "compressed prefixes / signs through every import format, the decompressed point, its negative and an off-curve "
                  "neighbour through EccPoint, construct and SEC1 (%d cases); LENGTHS = every length 0..2*full+2 of point strings "
                  "(each leading octet 2, 3, 4), of private-scalar octet strings in RFC 5915 / PKCS#8, of seeds and of raw public keys "
                  "(%d cases); PRIV2 = private scalars 3..16, n-17..n-2, (n+-1)/2 with 7 public-point alternatives and 8 embedded "
                  "public keys in both key-file formats, every one-bit scalar 2^k < n, every scalar n..n+16 and 2n, 3n, n+1, 2n+1; "
                  "every one-bit seed of the Edwards and Montgomery curves with matching and mismatching public parts (%d cases); "
                  "ALIASES = the %d other names of the library's curve table (%s) with valid, off-curve, out-of-range, neutral and "
                  "negated points, compressed points, boundary scalars / seeds (%d cases)"
                  % (P.WIN, a.n.get("ec_deep_window", 0), a.n.get("ec_deep_lengths", 0), a.n.get("ec_deep_priv2", 0),
                     len(a.distinct.get("ec_aliases", ())), ", ".join(sorted(x[1] for x in a.distinct.get("ec_aliases", ()))),
                     a.n.get("ec_deep_aliases", 0))),
            "generate": "%d cases (tapes: seeded streams, crafted boundary prefixes, candidate q = p)" % len(gc) + ("" if q else
                        "; thorough tier: RSA modulus lengths %d..%d x e in %s x (8 streams + 4 prefixes; even lengths: 3 + 3 injected "
                        "candidate lists), lengths %s x e in (3, 65537); DSA stored domains 2048/224 and 3072/256 with the 12 boundary "
                        "prefixes, 8 streams and 10 damaged domains each, fresh domains 16 x 1024, 8 x 2048, 2 x 3072; ElGamal modulus "
                        "lengths %d..%d, 224, 256 x 8 streams; ECC %d streams per curve and every first draw within 8 of 0 and of n"
                        % (G.DEEP_RSA_BITS[0], G.DEEP_RSA_BITS[-1], list(G.DEEP_RSA_E), [b for b, _ in G.DEEP_RSA_LARGE],
                           G.DEEP_ELG_BITS[0], G.DEEP_ELG_BITS[-3], G.DEEP_ECC_TAPES)),
            "flip": "%d encodings, %d single-bit flips" % (len(F.labels(q)) if not q else len(F.base_labels()), a.n.get("flip_cases", 0))
                    + ("" if q else " (thorough tier: RSA fixtures %s besides 1024/65537, DSA 2048/224 in OpenSSL DER, and the "
                       "curves %s besides P-256 and P-521; not flipped: %s)" % (list(F.DEEP_RSA), list(F.DEEP_CURVES), list(F.DEEP_SKIP))),
        },
        "ec_entry_points_exercised": len(ents),
        "ec_near_miss": {"cases": a.n.get("ec_near_miss_cases", 0), "bit_positions": len(nmb),
                         "what": "points whose curve-equation sides (public values: whose value) differ in exactly one bit of the "
                                 "64-bit-word representation, plain and Montgomery form, every bit position"},
        "ec_violation_curves": {k: sorted(v) for k, v in sorted(vc.items())},
        "valid_inputs_refused": {k: a.n.get(k, 0) for k in ("rsa_valid_refused", "dsa_valid_refused", "elg_valid_refused", "ec_valid_refused")},
        "flip_fields_with_accepted_flips": ["%s:%s" % f for f in acc_fields],
    })
    ctx.assume("one-sided oracle: that every valid input is accepted is not demanded (counted in valid_inputs_refused)")
    ctx.assume("small scope: RSA factors <= %d, DSA p < %d q < %d, ElGamal p < %d; at cryptographic sizes only the stored "
               "fixtures with damaged components and the bit-flip closure are used" % (B, PB, QB, EB))
    if not q:
        ctx.assume("eddsa.import_public_key / import_private_key select the curve by the length of their argument: in the LENGTHS "
                   "sub-grid the length that belongs to the other Edwards curve is not presented to them as a wrong length")
    ctx.assume("primality of large factors is judged by 13 fixed Miller-Rabin bases plus a strong Lucas test (no known counterexample); "
               "the library's own Miller-Rabin bases come from a deterministic stream keyed by the case")
    ctx.assume("Montgomery curves: non-canonical u (>= p, bit 255) and u on the twist are accepted by design (RFC 7748) and are "
               "logged as observations; only the listed low-order u and their aliases must be refused")
    ctx.assume("non-canonical EdDSA public-key encodings whose decoded point is valid, the Edwards neutral element as a public key, "
               "DSA public y outside the subgroup, RFC 5915 files with an undecodable public point, ignored PKCS#1 CRT fields: observations")
    ctx.assume("OpenSSH private-key containers and PEM / encrypted wrappers are not crafted here (C13 covers the containers)")
    ctx.assume("a call is declared hanging after %.2f s of process CPU time at small scale (typical call: 50 microseconds)" % CPU_BUDGET)
    if q:
        ctx.assume("quick tier: RSA square [0,16]^2, DSA p < 24, ElGamal p < 32, 2 seeded tapes per generator, flips of large "
                   "fields only at bit positions 0-7, top 8 and multiples of 128, DSA flips for OpenSSL DER and SPKI only")


def replay(case, acc):
    """The input of the replay file is presented up to three times in this fresh process: a library that answers a
    repeated presentation differently from the first one (state kept between calls) was caught by the grids, which
    present the same domain many times, and must reproduce here; for a library without such state the second and third
    presentation are the first one again."""
    for presentation in range(3):
        _replay_once(case, acc)
        if acc.viol:
            if presentation:
                acc.observe("replay: the violation appears at presentation %d of the same input in one process, not at the first" % (presentation + 1))
            return


def _replay_once(case, acc):
    install_seams()
    part = case["part"]
    if part == "rsa":
        big = max(abs(int(v)) for v in case["tup"]).bit_length() > 64
        check_rsa(case["tup"], acc, case["via"], budget=20.0 if big else CPU_BUDGET)
    elif part == "dsa":
        big = max(abs(int(v)) for v in case["tup"]).bit_length() > 64
        check_dsa(case["tup"], acc, case["via"], budget=30.0 if big else CPU_BUDGET)
    elif part == "elg":
        check_elg(case["tup"], acc)
    elif part == "ec":
        from . import _c05_ecpart as P
        P.check_ec(case, acc)
    elif part == "gen":
        from . import _c05_gen as G
        G.check_gen(case, acc)
    elif part == "flip":
        from . import _c05_flip as F
        F.check_flip(case, acc)
    else:
        acc.error("unknown replay part %r" % part)
