"""(stub)"""
