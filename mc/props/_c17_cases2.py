"""C17 helper: case families for hashes/XOFs/MACs, constructor parameter lengths, strxor, scrypt, bcrypt,
PKCS#1 decoders, elliptic curves, modular exponentiation, cpuid, and object life-cycle histories."""
import gc
import itertools

from . import _c17_cases as C
from ._c17_cases import S, data, other, mod, lens_for, family, HarnessBug, BLOCK, KEYLEN, pls

# ---------------------------------------------------------------------------------------------------
# hashes, XOFs, MACs
# ---------------------------------------------------------------------------------------------------
# name: (module, kwargs, block, final)     final: "d" digest(), "r" read(n)
HASHES = {
    "MD2": ("MD2", {}, 16, "d"), "MD4": ("MD4", {}, 64, "d"), "MD5": ("MD5", {}, 64, "d"),
    "RIPEMD160": ("RIPEMD160", {}, 64, "d"), "SHA1": ("SHA1", {}, 64, "d"), "SHA224": ("SHA224", {}, 64, "d"),
    "SHA256": ("SHA256", {}, 64, "d"), "SHA384": ("SHA384", {}, 128, "d"), "SHA512": ("SHA512", {}, 128, "d"),
    "SHA512-224": ("SHA512", {"truncate": "224"}, 128, "d"), "SHA512-256": ("SHA512", {"truncate": "256"}, 128, "d"),
    "SHA3-224": ("SHA3_224", {}, 144, "d"), "SHA3-256": ("SHA3_256", {}, 136, "d"),
    "SHA3-384": ("SHA3_384", {}, 104, "d"), "SHA3-512": ("SHA3_512", {}, 72, "d"),
    "keccak-224": ("keccak", {"digest_bits": 224}, 144, "d"), "keccak-256": ("keccak", {"digest_bits": 256}, 136, "d"),
    "keccak-384": ("keccak", {"digest_bits": 384}, 104, "d"), "keccak-512": ("keccak", {"digest_bits": 512}, 72, "d"),
    "BLAKE2b-512": ("BLAKE2b", {"digest_bytes": 64}, 128, "d"),
    "BLAKE2b-1-keyed64": ("BLAKE2b", {"digest_bytes": 1, "key": 64}, 128, "d"),
    "BLAKE2s-256": ("BLAKE2s", {"digest_bytes": 32}, 64, "d"),
    "BLAKE2s-1-keyed32": ("BLAKE2s", {"digest_bytes": 1, "key": 32}, 64, "d"),
    "SHAKE128": ("SHAKE128", {}, 168, "r"), "SHAKE256": ("SHAKE256", {}, 136, "r"),
    "cSHAKE128": ("cSHAKE128", {"custom": 7}, 168, "r"), "cSHAKE256": ("cSHAKE256", {"custom": 7}, 136, "r"),
    "cSHAKE128-nocustom": ("cSHAKE128", {}, 168, "r"),
    "TurboSHAKE128": ("TurboSHAKE128", {}, 168, "r"), "TurboSHAKE256": ("TurboSHAKE256", {"domain": 0x0B}, 136, "r"),
    "KangarooTwelve": ("KangarooTwelve", {}, 8192, "r"), "KangarooTwelve-custom": ("KangarooTwelve", {"custom": 5}, 8192, "r"),
    "TupleHash128": ("TupleHash128", {"digest_bytes": 32}, 168, "d"), "TupleHash256": ("TupleHash256", {"digest_bytes": 64}, 136, "d"),
    "KMAC128": ("KMAC128", {"key": 16, "mac_len": 16}, 168, "d"), "KMAC256": ("KMAC256", {"key": 32, "mac_len": 64, "custom": 3}, 136, "d"),
    "Poly1305-AES": ("Poly1305", {"key": 32, "cipher": "AES", "nonce": 16}, 16, "d"),
    "Poly1305-ChaCha20": ("Poly1305", {"key": 32, "cipher": "ChaCha20", "nonce": 12}, 16, "d"),
    "Poly1305-ChaCha20-n8": ("Poly1305", {"key": 32, "cipher": "ChaCha20", "nonce": 8}, 16, "d"),
}
for _d, _b in (("MD2", 16), ("MD4", 64), ("MD5", 64), ("SHA1", 64), ("SHA224", 64), ("SHA256", 64), ("SHA384", 128),
               ("SHA512", 128), ("RIPEMD160", 64), ("SHA3_256", 136), ("SHA3_512", 72)):
    HASHES["HMAC-" + _d] = ("HMAC", {"key": 20, "digestmod": _d}, _b, "d")
for _c in ("AES", "DES3", "DES", "Blowfish", "CAST", "ARC2"):
    HASHES["CMAC-" + _c] = ("CMAC", {"key": KEYLEN[_c], "ciphermod": _c}, BLOCK[_c], "d")
HASHES["CMAC-AES256-mac4"] = ("CMAC", {"key": 32, "ciphermod": "AES", "mac_len": 4}, 16, "d")
HASHES["CMAC-AES-noaesni"] = ("CMAC", {"key": 16, "ciphermod": "AES", "cipher_params": {"use_aesni": False}}, 16, "d")

HASH_PRIMARY = ("MD2", "MD4", "MD5", "RIPEMD160", "SHA1", "SHA224", "SHA256", "SHA384", "SHA512", "SHA3-256", "keccak-512",
                "BLAKE2b-512", "BLAKE2s-256", "BLAKE2b-1-keyed64", "SHAKE128", "cSHAKE128", "TurboSHAKE128", "KangarooTwelve",
                "TupleHash128", "KMAC128", "Poly1305-AES", "Poly1305-ChaCha20", "HMAC-SHA256", "HMAC-SHA3_256", "CMAC-AES",
                "CMAC-DES3")
NO_COPY = ("BLAKE2", "keccak", "KMAC", "TupleHash", "cSHAKE", "TurboSHAKE", "KangarooTwelve", "Poly1305")
DATA_KW = {"HMAC": "msg", "CMAC": "msg"}


def new_hash(name, pl, guard=True, first=None, over=None):
    """fresh object; buffers among the parameters are guard-paged; `first` = data passed to the constructor"""
    modname, kw0, block, fin = HASHES[name]
    m = mod("Crypto.Hash." + modname)
    kw = dict(kw0)
    if over:
        kw.update(over)
    for k, ar, off in (("key", S.K, 1000), ("custom", S.A, 2000), ("nonce", S.T, 2100)):
        if isinstance(kw.get(k), int):
            n = kw[k]
            # KangarooTwelve concatenates its customization string in Python: bytes only
            g = guard and not (k == "custom" and modname == "KangarooTwelve")
            kw[k] = ar.view(n, pl, data(n, off)) if g else data(n, off)
    if "digestmod" in kw:
        kw["digestmod"] = mod("Crypto.Hash." + kw["digestmod"])
    if "ciphermod" in kw:
        kw["ciphermod"] = mod("Crypto.Cipher." + kw["ciphermod"])
    if "cipher" in kw:
        kw["cipher"] = mod("Crypto.Cipher." + kw["cipher"])
    if modname in ("HMAC", "CMAC"):
        key = kw.pop("key")
        if first is not None:
            kw["msg"] = first
        return m.new(key, **kw)
    if modname.startswith("TupleHash"):
        h = m.new(**kw)
        if first is not None:
            h.update(first)
        return h
    if first is not None:
        kw["data"] = first
    return m.new(**kw)


def finish(h, name, n=None):
    fin = HASHES[name][3]
    if fin == "d":
        r = h.digest()
    else:
        r = h.read(33 if n is None else n)
        if n is not None and len(r) != n:
            return "ret-shape:read(%d)->%d" % (n, len(r))
    return "ok" if type(r) is bytes else "ret-shape:%s" % type(r).__name__


@family("hash")
class Hash(object):
    @staticmethod
    def shards(tier):
        out = []
        for name in HASHES:
            out.append(("hash", name, "data"))
            out.append(("hash", name, "param"))
        return out

    @staticmethod
    def gen(shard, tier):
        _, name, part = shard
        modname, kw, block, fin = HASHES[name]
        th = tier == "thorough"
        primary = th or name in HASH_PRIMARY
        lens = lens_for(tier, block if block < 1000 else 64, big=primary, reduced=not primary)
        out = []
        if part == "data":
            pres = [0, 1, block - 1] if primary else [0, block - 1]
            if block == 8192 and primary:
                pres += [8192, 8193]
            for pre in pres:
                for L in lens:
                    if L > 8193 and pre and block != 8192:
                        continue
                    for pl in pls(L):
                        out.append(("hash", name, "U", pre, L, pl))
            for L in lens:
                for pl in pls(L):
                    out.append(("hash", name, "N", 0, L, pl))
            b = block if block < 1000 else 168
            for L1 in (0, 1, b - 1, b, b + 1):
                for L2 in (0, 1, b - 1, b, b + 1, 2 * b + 1):
                    for pl in "ES":
                        out.append(("hash", name, "UU", L1, L2, pl))
            if not modname.startswith(NO_COPY):
                for pre in (0, 1, block - 1, block):
                    for L in (0, 1, block - 1, block, block + 1):
                        for pl in "ES":
                            out.append(("hash", name, "C", pre, L, pl))
            if modname.startswith(("SHA3_", "keccak", "CMAC")):
                for L1 in (0, 1, block - 1, block, block + 1):
                    for L2 in (0, 1, block - 1, block, block + 1):
                        for pl in "ES":
                            out.append(("hash", name, "UAD", L1, L2, pl))
            if fin == "r":
                rl = lens_for(tier, block if block < 1000 else 168, big=primary, reduced=not primary)
                for L in ((0, 1, 200) if th else (1,)):
                    for r1 in rl:
                        for r2 in ((0, 1, 167, 168, 169) if primary else (0, 169)):
                            if r1 > 8193 and (L or r2 > 1):
                                continue
                            out.append(("hash", name, "R", L, r1, r2))
        else:
            # constructor parameters that are buffers or lengths
            if "key" in kw:
                kl = lens_for(tier, block if block < 1000 else 64, big=False, reduced=not primary)
                for n in kl:
                    for pl in "ES":
                        out.append(("hash", name, "P", "key", n, pl))
            if modname.startswith(("cSHAKE", "KMAC", "TupleHash", "KangarooTwelve")):
                cl = lens_for(tier, 168, big=(modname == "KangarooTwelve"), reduced=not primary)
                for n in cl:
                    for pl in "ES":
                        out.append(("hash", name, "P", "custom", n, pl))
            if "nonce" in kw:
                for n in range(0, 34):
                    for pl in "ES":
                        out.append(("hash", name, "P", "nonce", n, pl))
            if "mac_len" in kw or modname == "CMAC":
                for n in list(range(0, 70)) + [127, 128, 129, 255, 256, 257, 1000, 65536, -1]:
                    out.append(("hash", name, "P", "mac_len", n, "E"))
            if "digest_bytes" in kw or modname == "keccak":
                for n in list(range(0, 70)) + [127, 128, 129, 255, 256, 257, 1000, 65536, -1]:
                    out.append(("hash", name, "P", "digest_bytes", n, "E"))
            if modname.startswith("TurboSHAKE"):
                for n in range(-1, 260):
                    out.append(("hash", name, "P", "domain", n, "E"))
            if modname.startswith("TupleHash"):
                for ls in itertools.product((0, 1, 167, 168, 169), repeat=2):
                    for pl in "ES":
                        out.append(("hash", name, "TUP", ls[0], ls[1], pl))
        return out

    @staticmethod
    def group(case):
        return "%s.%s" % (HASHES[case[1]][0], case[2])

    @staticmethod
    def run(case):
        _, name, op, a, b, pl = case
        if op == "U":
            h = new_hash(name, pl)
            if a:
                h.update(data(a, 5000))
            h.update(S.IN.view(b, pl, data(b)))
            return finish(h, name)
        if op == "N":
            h = new_hash(name, pl, first=S.IN.view(b, pl, data(b)))
            return finish(h, name)
        if op == "UU":
            h = new_hash(name, pl)
            h.update(S.IN.view(a, pl, data(a)))
            h.update(S.A.view(b, other(pl), data(b, 3000)))
            return finish(h, name)
        if op == "C":
            h = new_hash(name, pl)
            h.update(data(a, 5000))
            c = h.copy()
            c.update(S.IN.view(b, pl, data(b)))
            h.update(S.A.view(b, pl, data(b, 3000)))
            r = finish(h, name)
            del h
            gc.collect()
            r2 = finish(c, name)
            c2 = c.copy()
            del c
            if HASHES[name][3] == "d":
                finish(c2, name)
            return r if r != "ok" else r2
        if op == "UAD":
            h = new_hash(name, pl, over={"update_after_digest": True})
            h.update(S.IN.view(a, pl, data(a)))
            d1 = h.digest()
            h.update(S.A.view(b, pl, data(b, 3000)))
            d2 = h.digest()
            return "ok" if len(d1) == len(d2) else "ret-shape"
        if op == "R":
            h = new_hash(name, "E", guard=False)
            h.update(data(a, 5000))
            r = finish(h, name, b)
            if r != "ok":
                return r
            return finish(h, name, pl)
        if op == "P":
            h = new_hash(name, pl, over={a: b})
            h.update(S.IN.view(33, pl, data(33)))
            r = finish(h, name)
            if HASHES[name][3] == "d" and a in ("mac_len", "digest_bytes"):
                d = h.digest()
                if len(d) != b:
                    return "ret-shape:digest %d for %s=%d" % (len(d), a, b)
            return r
        if op == "TUP":
            h = new_hash(name, pl)
            h.update(S.IN.view(a, pl, data(a)), S.A.view(b, pl, data(b, 3000)))
            h.update(S.X.view(a, other(pl), data(a, 3100)))
            return finish(h, name)
        raise HarnessBug("hash op %r" % op)


# keccak.new(digest_bytes=..) conflicts with the digest_bits of the table entry: drop it for that sweep
_orig_new_hash = new_hash


def new_hash(name, pl, guard=True, first=None, over=None):  # noqa: F811
    if over and "digest_bytes" in over and HASHES[name][0] == "keccak":
        modname, kw0, block, fin = HASHES[name]
        m = mod("Crypto.Hash.keccak")
        return m.new(digest_bytes=over["digest_bytes"])
    return _orig_new_hash(name, pl, guard, first, over)


# ---------------------------------------------------------------------------------------------------
# constructor parameters: key / IV / nonce lengths, segment sizes, tag lengths, counters
# ---------------------------------------------------------------------------------------------------
CT_MODES = {"AES": ("ECB", "CBC", "CFB", "OFB", "CTR", "OPENPGP", "CCM", "EAX", "SIV", "GCM", "OCB", "KW", "KWP")}
for _c in ("DES", "DES3", "Blowfish", "CAST", "ARC2"):
    CT_MODES[_c] = ("ECB", "CBC", "CFB", "OFB", "CTR", "OPENPGP", "EAX")
IVNAME = {"CBC": "iv", "CFB": "iv", "OFB": "iv", "OPENPGP": "iv", "CTR": "nonce", "CCM": "nonce", "EAX": "nonce",
          "SIV": "nonce", "GCM": "nonce", "OCB": "nonce"}
DEFIV = {"CCM": 11, "EAX": 16, "SIV": 16, "GCM": 12, "OCB": 15}


def use_cipher(c, mode, bs):
    """a little traffic on a freshly constructed cipher object"""
    if mode in ("KW", "KWP"):
        ct = c.seal(data(16))
        return "ok"
    if mode == "SIV":
        c.update(data(3, 3000))
        c.encrypt_and_digest(data(17))
        return "ok"
    if mode in ("CCM", "EAX", "GCM", "OCB", "CHAPOLY"):
        c.update(data(3, 3000))
        c.encrypt(data(17))
        if mode == "OCB":
            c.encrypt()
        c.digest()
        return "ok"
    c.encrypt(data(2 * bs))
    return "ok"


@family("ctor")
class Ctor(object):
    @staticmethod
    def shards(tier):
        out = [("ctor", c) for c in CT_MODES]
        out += [("ctor", "ARC4"), ("ctor", "Salsa20"), ("ctor", "ChaCha20"), ("ctor", "ChaCha20_Poly1305")]
        return out

    @staticmethod
    def gen(shard, tier):
        c = shard[1]
        out = []
        if c in CT_MODES:
            bs = BLOCK[c]
            for mode in CT_MODES[c]:
                kmax = 140 if c in ("ARC2",) else 70
                for klen in range(0, kmax):
                    for pl in "ES":
                        out.append(("ctor", c, mode, "key", klen, 0, pl))
                if mode in IVNAME:
                    ivl = list(range(0, 36)) + ([63, 64, 65, 127, 128, 129, 255, 256, 257] if mode in ("GCM", "EAX", "SIV") else [])
                    for n in ivl:
                        for pl in "ES":
                            out.append(("ctor", c, mode, "iv", n, 0, pl))
                if mode == "CFB":
                    for seg in (-8, 0, 1, 7, 8, 9, 16, 24, 63, 64, 65, 72, 120, 128, 129, 136, 256, 2 ** 31, 2 ** 32 + 8):
                        out.append(("ctor", c, mode, "segment_size", seg, 0, "E"))
                if mode == "CTR":
                    for nlen in range(0, bs + 1):
                        cl = bs - nlen
                        for iv in (0, 1, 2 ** (8 * cl) - 2, 2 ** (8 * cl) - 1, 2 ** (8 * cl), 2 ** 64, 2 ** 128):
                            out.append(("ctor", c, mode, "initial_value", nlen, iv, "E"))
                        for ivb in range(0, bs + 2):
                            for pl in "ES":
                                out.append(("ctor", c, mode, "initial_value_bytes", nlen, ivb, pl))
                    for nbits in (0, 8, 16, 32, 56, 64, 72, 120, 128, 136):
                        for plen in (0, 1, bs // 2, bs - 1, bs):
                            for le in (0, 1):
                                out.append(("ctor", c, mode, "counter", nbits, plen * 2 + le, "E"))
                if mode in ("CCM", "EAX", "GCM", "OCB"):
                    for ml in list(range(-1, 20)) + [32, 255, 256, 2 ** 31]:
                        out.append(("ctor", c, mode, "mac_len", ml, 0, "E"))
                if mode == "CCM":
                    for ml in (0, 1, 2 ** 16 - 1, 2 ** 16, 2 ** 32, 2 ** 64, -1):
                        for al in (0, 1, 2 ** 16 - 2 ** 8 - 1, 2 ** 16 - 2 ** 8, 2 ** 32, 2 ** 64, -1):
                            for nl in (7, 13):
                                out.append(("ctor", c, mode, "ccm_len", ml, al * 16 + nl if al >= 0 else -nl, "E"))
                if c == "ARC2":
                    for ek in (-1, 0, 1, 39, 40, 41, 127, 128, 1023, 1024, 1025, 2 ** 31):
                        out.append(("ctor", c, mode, "effective_keylen", ek, 0, "E"))
                if c == "AES" and mode in IVNAME:
                    for n in (0, 1, 7, 12, 15, 16, 17):
                        out.append(("ctor", c, mode, "iv_noaesni", n, 0, "E"))
        elif c == "ARC4":
            for klen in list(range(0, 300)) + [511, 512, 4096]:
                for pl in "ES":
                    out.append(("ctor", c, "", "key", klen, 0, pl))
            for drop in (0, 1, 255, 256, 257, 768, 3072, 65536):
                out.append(("ctor", c, "", "drop", drop, 0, "E"))
        else:
            for klen in range(0, 70):
                for pl in "ES":
                    out.append(("ctor", c, "", "key", klen, 0, pl))
            for n in range(0, 40):
                for pl in "ES":
                    out.append(("ctor", c, "", "iv", n, 0, pl))
        return out

    @staticmethod
    def group(case):
        return "%s.new(%s,%s)" % (case[1], case[2], case[3])

    @staticmethod
    def run(case):
        _, c, mode, what, a, b, pl = case
        m = mod("Crypto.Cipher." + c)
        if c in ("ARC4", "Salsa20", "ChaCha20", "ChaCha20_Poly1305"):
            klen = a if what == "key" else (16 if c == "ARC4" else 32)
            key = S.K.view(klen, pl, data(klen, 1000))
            if c == "ARC4":
                o = m.new(key, drop=a) if what == "drop" else m.new(key)
                o.encrypt(data(20))
                return "ok"
            nlen = a if what == "iv" else 8
            o = m.new(key=key, nonce=S.N.view(nlen, pl, data(nlen, 2000)))
            if c == "ChaCha20_Poly1305":
                return use_cipher(o, "CHAPOLY", 64)
            o.encrypt(data(70))
            return "ok"
        bs = BLOCK[c]
        klen = a if what == "key" else (KEYLEN[c] * (2 if mode == "SIV" else 1))
        key = S.K.view(klen, pl, data(klen, 1000))
        kw = {}
        if what == "iv_noaesni":
            kw["use_aesni"] = False
        if mode in IVNAME and mode != "CTR" and what != "ccm_len":
            n = a if what in ("iv", "iv_noaesni") else DEFIV.get(mode, bs)
            kw[IVNAME[mode]] = S.N.view(n, pl, data(n, 2000))
        if mode == "CTR":
            if what in ("iv", "iv_noaesni"):
                kw["nonce"] = data(a, 2000)
            elif what == "initial_value":
                kw["nonce"] = data(a, 2000)
                kw["initial_value"] = b
            elif what == "initial_value_bytes":
                kw["nonce"] = data(a, 2000)
                kw["initial_value"] = data(b, 2100)
            elif what == "counter":
                from Crypto.Util import Counter
                plen, le = b // 2, b % 2
                kw["counter"] = Counter.new(a, prefix=data(plen, 2000), suffix=data(max(0, bs - plen - a // 8), 2100),
                                            initial_value=2 ** a - 1 if a else 0, little_endian=bool(le))
            else:
                kw["nonce"] = data(bs // 2, 2000)
        if what in ("segment_size", "mac_len", "effective_keylen"):
            kw[what] = a
        if what == "ccm_len":
            nl = abs(b) % 16
            kw["nonce"] = S.N.view(nl, pl, data(nl, 2000))
            if a >= 0:
                kw["msg_len"] = a
            if b >= 0:
                kw["assoc_len"] = b // 16
        o = m.new(key, getattr(m, "MODE_" + mode), **kw)
        if what == "ccm_len":
            # declared lengths are promises about later calls: a short message must then be refused
            o.update(data(1, 3000))
            o.encrypt(data(1))
            o.digest()
            return "ok"
        return use_cipher(o, mode, bs)


# ---------------------------------------------------------------------------------------------------
# strxor, scrypt, bcrypt, PBKDF2 fast path, PKCS#1 decoders, cpuid
# ---------------------------------------------------------------------------------------------------
def _pkcs1_em(n, mlen, kind):
    """an encoded message of n bytes; kind: v valid (message of mlen bytes), z no zero separator,
    h wrong header, e early zero in the padding"""
    if kind == "v" and n >= mlen + 11:
        ps = bytes((x | 1) for x in data(n - mlen - 3, 4000))
        return b"\x00\x02" + ps + b"\x00" + data(mlen, 4100)
    if kind == "z":
        return (b"\x00\x02" + bytes((x | 1) for x in data(max(n - 2, 0), 4000)))[:n]
    if kind == "h":
        return (b"\x00\x01" + bytes((x | 1) for x in data(max(n - 2, 0), 4000)))[:n]
    if kind == "e":
        return (b"\x00\x02\x55\x00" + bytes(max(n - 4, 0)))[:n]
    return bytes((x | 1) for x in data(n, 4000))


@family("misc")
class Misc(object):
    @staticmethod
    def shards(tier):
        out = [("misc", "strxor"), ("misc", "strxor_c"), ("misc", "scrypt"), ("misc", "bcrypt"), ("misc", "eks"),
               ("misc", "oaep"), ("misc", "rsa"), ("misc", "cpuid"), ("misc", "pbkdf2")]
        for r in range(4):
            out.append(("misc", "pkcs1", r))
        return out

    @staticmethod
    def gen(shard, tier):
        part = shard[1]
        th = tier == "thorough"
        out = []
        if part == "strxor":
            for L in lens_for(tier, 16, big=True):
                for pl in pls(L):
                    for v in ("r", "o", "p", "a", "b", "same", "v", "w", "big", "small", "m1", "m2"):
                        if L > 8193 and v in ("p", "v", "w", "m1", "m2", "big", "small"):
                            continue
                        out.append(("misc", "strxor", L, v, pl))
            # every alignment (address mod 8) of the two inputs and of the output, every short length: word-at-a-time code has an
            # alignment prologue and a tail, and all three buffers sit between canaries
            for L in range(0, 25):
                for ai in range(8):
                    for bi in range(8):
                        for oi in range(8):
                            out.append(("misc", "strxor", L, "al", (ai, bi, oi)))
        elif part == "strxor_c":
            for L in range(0, 25):
                for ai in range(8):
                    for oi in range(8):
                        for c in (0, 0xA5):
                            out.append(("misc", "strxor_c", L, "al", c, (ai, oi)))
            for L in lens_for(tier, 16, big=True):
                for pl in pls(L):
                    for v in ("r", "o", "p", "a", "v", "w", "big", "small"):
                        for c in ((0, 255) if L <= 64 else (0x5A,)):
                            out.append(("misc", "strxor_c", L, v, c, pl))
            for c in (-1, 256, 2 ** 31, 2 ** 64):
                out.append(("misc", "strxor_c", 5, "r", c, "E"))
        elif part == "scrypt":
            for (N, r, p) in ((2, 1, 1), (4, 1, 1), (16, 1, 1), (2, 2, 1), (2, 8, 1), (4, 3, 2), (16, 8, 2), (2, 1, 3),
                              (2, 33, 1), (1024, 1, 1), (1, 1, 1), (0, 1, 1), (3, 1, 1), (2, 0, 1), (2, 1, 0), (2 ** 32, 1, 1),
                              (2 ** 16, 1, 1), (-2, 1, 1), (2 ** 15, 1, 1) if th else (2 ** 12, 2, 1)):
                for plen, slen in ((0, 0), (1, 1), (8, 16), (63, 7), (64, 64), (65, 65), (200, 129)):
                    for klen in (1, 31, 32, 33, 64, 65, 100):
                        for pl in "ES":
                            if N >= 1024 and (plen, klen, pl) not in ((8, 32, "E"), (8, 65, "S")):
                                continue
                            out.append(("misc", "scrypt", N, r, p, plen, slen, klen, pl))
            for nk in (1, 2, 3):
                out.append(("misc", "scrypt_keys", 4, 1, 1, 8, 8, 33, nk))
        elif part == "bcrypt":
            for plen in range(0, 75):
                for pl in "ES":
                    out.append(("misc", "bcrypt", plen, 16, 4, pl))
            for slen in range(0, 34):
                for pl in "ES":
                    out.append(("misc", "bcrypt", 8, slen, 4, pl))
            for cost in (-1, 0, 3, 4, 5, 6, 31 + 1, 2 ** 31):
                out.append(("misc", "bcrypt", 8, 16, cost, "E"))
            for plen in (0, 1, 8, 71, 72):
                for pl in "ES":
                    out.append(("misc", "bcrypt_check", plen, 16, 4, pl))
            for hl in list(range(0, 64)):
                out.append(("misc", "bcrypt_check_hash", 8, hl, 4, "E"))
        elif part == "eks":
            # Crypto.Cipher._EKSBlowfish (the seam below bcrypt): key 1..72 (+ illegal), salt lengths, cost, invert.
            # key length 0 is excluded: blowfish.c xorP() then loops forever without touching memory (reported as an
            # observation by the driver, it is not a memory-safety matter)
            # the empty salt first (on the pinned tree the child dies here: see the driver's report)
            for pl in "ES":
                out.append(("misc", "eks", 8, 0, 2, 1, pl))
            for klen in range(1, 76):
                for inv in (0, 1):
                    for pl in "ES":
                        out.append(("misc", "eks", klen, 16, 2, inv, pl))
            for slen in range(1, 34):
                for inv in (0, 1):
                    for pl in "ES":
                        out.append(("misc", "eks", 8, slen, 2, inv, pl))
            for cost in (0, 1, 5):
                for L in (0, 1, 7, 8, 9, 16, 24):
                    for pl in "ES":
                        out.append(("misc", "eks_use", 8, 16, cost, L, pl))
            # other chaining modes over the same base cipher (some refuse: the base cipher is then released again)
            for m in range(0, 15):
                out.append(("misc", "eks_mode", 8, 16, 1, m, "E"))
        elif part == "pkcs1":
            r = shard[2]
            ems = list(range(0, 41)) + ([64, 128, 256] if not th else [63, 64, 65, 127, 128, 129, 255, 256, 257, 512])
            for n in ems:
                if n % 4 != r:
                    continue
                sents = sorted({x for x in (0, 1, n - 11, n - 10, n, n + 1) if x >= 0})
                exps = sorted({x for x in (0, 1, n - 12, n - 11, n - 10, n) if x >= 0}) + [2 ** 32 - 1, 2 ** 32, 2 ** 64 - 1]
                if th:
                    sents = sorted({x for x in (0, 1, 2, n - 12, n - 11, n - 10, n - 9, n - 1, n, n + 1, n + 2, 2 * n + 1) if x >= 0})
                    exps = sorted({x for x in (0, 1, 2, n - 13, n - 12, n - 11, n - 10, n - 9, n - 1, n, n + 1) if x >= 0}) + \
                        [2 ** 31 - 1, 2 ** 31, 2 ** 32 - 1, 2 ** 32, 2 ** 63, 2 ** 64 - 1]
                if th and n <= 40:
                    sents = list(range(0, n + 3))
                    exps = list(range(0, n + 2)) + [2 ** 31 - 1, 2 ** 31, 2 ** 32 - 1, 2 ** 32, 2 ** 63, 2 ** 64 - 1]
                kinds = [("v", m) for m in sorted({0, 1, max(n - 12, 0), max(n - 11, 0)}) if n >= m + 11] + \
                    [("z", 0), ("h", 0), ("e", 0), ("x", 0)]
                for sl in sents:
                    for ex in exps:
                        for kind, mlen in kinds:
                            for pl in "ES":
                                out.append(("misc", "pkcs1", n, sl, ex, kind, mlen, pl))
                for ol in (0, 1, n - 1, n + 1):
                    if ol >= 0 and ol != n:
                        out.append(("misc", "pkcs1_out", n, 0, 0, "z", ol, "E"))
        elif part == "oaep":
            hs = (0, 1, 16, 20, 32, 48, 64) if th else (0, 1, 20, 32)
            for n in list(range(0, 41 if not th else 81)) + [63, 64, 65, 127, 128, 129, 130, 131, 256]:
                for h in hs:
                    for dl in sorted({x for x in (0, 1, n - 2 - h, n - 1 - h, n - h, n, n + 1) if x >= 0}):
                        for kind in ("v0", "v1", "vmax", "no1", "y1", "lh", "ps"):
                            for pl in "ES":
                                out.append(("misc", "oaep", n, h, dl, kind, pl))
        elif part == "rsa":
            for mlen in list(range(0, 8)) + [53, 54, 55, 116, 117, 118]:
                for sl in (0, 1, 16, 127, 128, 129):
                    for ex in (0, mlen, mlen + 1):
                        out.append(("misc", "rsa15", mlen, sl, ex, "E"))
            for mlen in (0, 1, 61, 62, 63):
                for h in ("SHA1", "SHA256"):
                    out.append(("misc", "rsaoaep", mlen, h, 0, "E"))
            for n in range(0, 12):
                out.append(("misc", "rsa15raw", n, 16, 0, "E"))
        elif part == "cpuid":
            for i in range(8):
                out.append(("misc", "cpuid", i))
        elif part == "pbkdf2":
            for h in ("MD5", "SHA1", "SHA224", "SHA256", "SHA384", "SHA512"):
                dl = mod_digest_size(h)
                for plen in (0, 1, 63, 64, 65, 127, 128, 129, 200):
                    for slen in (0, 1, 8, 64):
                        for dk in (1, dl - 1, dl, dl + 1, 2 * dl + 1):
                            for cnt in (1, 2, 3):
                                for pl in "ES":
                                    if pl == "S" and cnt != 2:
                                        continue
                                    out.append(("misc", "pbkdf2", h, plen, slen, dk, cnt, pl))
        return out

    @staticmethod
    def group(case):
        if case[1] == "eks" and case[3] == 0:
            return "eks(empty salt)"          # its own entry-point label: a death here must not skip the other eks cases
        return {"pkcs1_out": "pkcs1", "eks_use": "eks", "eks_mode": "eks", "scrypt_keys": "scrypt", "bcrypt_check_hash": "bcrypt_check",
                "rsa15raw": "rsa15"}.get(case[1], case[1])

    @staticmethod
    def run(case):
        kind = case[1]
        if kind == "strxor":
            _, _, L, v, pl = case
            from Crypto.Util.strxor import strxor
            if v == "al":
                ai, bi, oi = pl
                a = S.IN.view(L, "S", data(L), shift=ai)
                b = S.A.view(L, "S", data(L, 3000), shift=bi)
                o = S.OUT.view(L, "S", shift=oi)
                strxor(a, b, output=o)
                return "ok" if bytes(o) == bytes(x ^ y for x, y in zip(data(L), data(L, 3000))) else "wrong-value"
            b = S.A.view(L, pl, data(L, 3000))
            if v in ("v", "w"):
                iv, ov = C.io_views(L, pl, v, 16)
                strxor(iv, b, output=ov)
                return "ok"
            if v == "m2":
                strxor(S.IN.view(L + 1, pl, data(L + 1)), b)
                return "length-mismatch-accepted"
            a = S.IN.view(L, pl, data(L))
            if v == "r":
                r = strxor(a, b)
                return "ok" if len(r) == L else "ret-shape"
            if v == "o":
                strxor(a, b, output=S.OUT.view(L, pl))
            elif v == "p":
                strxor(a, b, output=S.OUT.view(L, other(pl)))
            elif v == "a":
                strxor(a, b, output=a)
            elif v == "b":
                strxor(a, b, output=b)
            elif v == "same":
                strxor(a, a, output=S.OUT.view(L, pl))
            elif v == "big":
                strxor(a, b, output=S.OUT.view(L + 1, pl))
                return "wrong-size-output-accepted"
            elif v == "small":
                strxor(a, b, output=S.OUT.view(max(L - 1, 0), pl))
                return "wrong-size-output-accepted" if L else "ok"
            elif v == "m1":
                strxor(a, S.X.view(L + 1, pl, data(L + 1, 3000)))
                return "length-mismatch-accepted"
            return "ok"
        if kind == "strxor_c":
            _, _, L, v, c, pl = case
            from Crypto.Util.strxor import strxor_c
            if v == "al":
                ai, oi = pl
                a = S.IN.view(L, "S", data(L), shift=ai)
                o = S.OUT.view(L, "S", shift=oi)
                strxor_c(a, c, output=o)
                return "ok" if bytes(o) == bytes(x ^ c for x in data(L)) else "wrong-value"
            if v in ("v", "w"):
                iv, ov = C.io_views(L, pl, v, 16)
                strxor_c(iv, c, output=ov)
                return "ok"
            a = S.IN.view(L, pl, data(L))
            if v == "r":
                r = strxor_c(a, c)
                return "ok" if len(r) == L else "ret-shape"
            if v == "o":
                strxor_c(a, c, output=S.OUT.view(L, pl))
            elif v == "p":
                strxor_c(a, c, output=S.OUT.view(L, other(pl)))
            elif v == "a":
                strxor_c(a, c, output=a)
            elif v == "big":
                strxor_c(a, c, output=S.OUT.view(L + 1, pl))
                return "wrong-size-output-accepted"
            elif v == "small":
                strxor_c(a, c, output=S.OUT.view(max(L - 1, 0), pl))
                return "wrong-size-output-accepted" if L else "ok"
            return "ok"
        if kind in ("scrypt", "scrypt_keys"):
            from Crypto.Protocol.KDF import scrypt
            if kind == "scrypt_keys":
                _, _, N, r, p, plen, slen, klen, nk = case
                ks = scrypt(data(plen, 1000).hex()[:plen], data(slen, 2000), klen, N, r, p, num_keys=nk)
                return "ok"
            _, _, N, r, p, plen, slen, klen, pl = case
            pw = S.K.view(plen, pl, data(plen, 1000))
            salt = S.N.view(slen, pl, data(slen, 2000))
            k = scrypt(pw, salt, klen, N, r, p)
            return "ok" if len(k) == klen else "ret-shape"
        if kind in ("bcrypt", "bcrypt_check", "bcrypt_check_hash"):
            from Crypto.Protocol.KDF import bcrypt, bcrypt_check
            _, _, plen, slen, cost, pl = case
            pwb = bytes((x % 255) + 1 for x in data(plen, 1000))
            pw = S.K.view(plen, pl, pwb)
            if kind == "bcrypt":
                h = bcrypt(pw, cost, S.N.view(slen, pl, data(slen, 2000)))
                return "ok" if len(h) == 60 else "ret-shape"
            if kind == "bcrypt_check":
                h = bcrypt(pwb, cost, data(16, 2000))
                bcrypt_check(pw, S.X.view(len(h), pl, h))
                return "ok"
            h = bcrypt(pwb, cost, data(16, 2000))
            hv = S.X.view(slen, pl, (h * 2)[:slen])
            bcrypt_check(pw, hv)
            return "ok" if slen == 60 else "truncated-hash-accepted"
        if kind == "eks_mode":
            from Crypto.Cipher import _EKSBlowfish
            _, _, klen, slen, cost, m, pl = case
            c = _EKSBlowfish.new(S.K.view(klen, pl, data(klen, 1000)), m, S.N.view(slen, pl, data(slen, 2000)), cost, True)
            c.encrypt(S.IN.view(16, pl, data(16)))
            return "ok"
        if kind in ("eks", "eks_use"):
            from Crypto.Cipher import _EKSBlowfish
            if kind == "eks":
                _, _, klen, slen, cost, inv, pl = case
                L = 8
            else:
                _, _, klen, slen, cost, L, pl = case
                inv = 1
            c = _EKSBlowfish.new(S.K.view(klen, pl, data(klen, 1000)), _EKSBlowfish.MODE_ECB,
                                 S.N.view(slen, pl, data(slen, 2000)), cost, bool(inv))
            c.encrypt(S.IN.view(L, pl, data(L)), output=S.OUT.view(L, pl))
            c.decrypt(S.IN.view(L, pl, data(L)))
            return "ok"
        if kind in ("pkcs1", "pkcs1_out"):
            from Crypto.Cipher import _pkcs1_oaep_decode as D
            _, _, n, sl, ex, k, mlen, pl = case
            em = S.IN.view(n, pl, _pkcs1_em(n, mlen if kind == "pkcs1" else 0, k))
            sent = S.K.view(sl, pl, data(sl, 1000))
            if kind == "pkcs1_out":
                D.pkcs1_decode(em, sent, ex, S.OUT.view(mlen, pl))
                return "wrong-size-output-accepted"
            out = S.OUT.view(n, pl)
            r = D.pkcs1_decode(em, sent, ex, out)
            if not isinstance(r, int) or r < -1 or r > n:
                return "ret-shape:%r" % (r,)
            return "ok" if r >= 0 else "ok-refused"
        if kind == "oaep":
            from Crypto.Cipher import _pkcs1_oaep_decode as D
            _, _, n, h, dl, k, pl = case
            lh = data(h, 1000)
            # db = lHash || PS || 01 || M
            body = max(dl - h, 0)
            if k == "v0":
                db = lh + bytes(max(body - 1, 0)) + b"\x01"
            elif k == "v1":
                db = lh + bytes(max(body - 2, 0)) + b"\x01" + b"M"
            elif k == "vmax":
                db = lh + b"\x01" + data(max(body - 1, 0), 4100)
            elif k == "no1":
                db = lh + bytes(body)
            elif k == "lh":
                db = bytes(x ^ 1 for x in lh) + bytes(max(body - 1, 0)) + b"\x01"
            elif k == "ps":
                db = lh + b"\x02" + bytes(max(body - 2, 0)) + b"\x01"
            else:
                db = lh + bytes(max(body - 1, 0)) + b"\x01"
            db = (db + bytes(dl))[:dl]
            em = bytes([1 if k == "y1" else 0]) + data(max(n - 1, 0), 4000)
            em = em[:n]
            r = D.oaep_decode(S.IN.view(n, pl, em), S.K.view(h, pl, lh), S.A.view(dl, pl, db))
            if not isinstance(r, int) or r < -1 or r > dl:
                return "ret-shape:%r" % (r,)
            return "ok" if r >= 0 else "ok-refused"
        if kind in ("rsa15", "rsaoaep", "rsa15raw"):
            from ..keys import rsa_key, Stream
            from Crypto.Cipher import PKCS1_v1_5, PKCS1_OAEP
            key = rsa_key(1024)
            _, _, a, b, c, pl = case
            if kind == "rsa15":
                ct = PKCS1_v1_5.new(key, randfunc=Stream("c17")).encrypt(data(a))
                r = PKCS1_v1_5.new(key).decrypt(S.IN.view(len(ct), pl, ct), S.K.view(b, pl, data(b, 1000)), expected_pt_len=c)
                return "ok"
            if kind == "rsa15raw":
                # ciphertexts that decrypt to short integers (em with leading zeros)
                ct = pow(a + 2, key.e, key.n).to_bytes(128, "big")
                PKCS1_v1_5.new(key).decrypt(ct, S.K.view(b, pl, data(b, 1000)))
                return "ok"
            hm = mod("Crypto.Hash." + b)
            ct = PKCS1_OAEP.new(key, hashAlgo=hm, randfunc=Stream("c17")).encrypt(data(a))
            PKCS1_OAEP.new(key, hashAlgo=hm).decrypt(S.IN.view(len(ct), pl, ct))
            return "ok"
        if kind == "cpuid":
            from Crypto.Util import _cpu_features
            a, b = _cpu_features.have_aes_ni(), _cpu_features.have_clmul()
            return "ok" if a in (0, 1, True, False) and b in (0, 1, True, False) else "ret-shape"
        if kind == "pbkdf2":
            from Crypto.Protocol.KDF import PBKDF2
            _, _, h, plen, slen, dk, cnt, pl = case
            r = PBKDF2(S.K.view(plen, pl, data(plen, 1000)), S.N.view(slen, pl, data(slen, 2000)), dk, cnt,
                       hmac_hash_module=mod("Crypto.Hash." + h))
            return "ok" if len(r) == dk else "ret-shape"
        raise HarnessBug("misc kind %r" % kind)


def mod_digest_size(h):
    return {"MD5": 16, "SHA1": 20, "SHA224": 28, "SHA256": 32, "SHA384": 48, "SHA512": 64}[h]


# ---------------------------------------------------------------------------------------------------
# elliptic curves
# ---------------------------------------------------------------------------------------------------
WCURVES = ("p192", "p224", "p256", "p384", "p521")
ECURVES = ("ed25519", "ed448")
XCURVES = ("curve25519", "curve448")
FIELD = {"p192": 2 ** 192 - 2 ** 64 - 1, "p224": 2 ** 224 - 2 ** 96 + 1, "p256": 2 ** 256 - 2 ** 224 + 2 ** 192 + 2 ** 96 - 1,
         "p384": 2 ** 384 - 2 ** 128 - 2 ** 96 + 2 ** 32 - 1, "p521": 2 ** 521 - 1, "ed25519": 2 ** 255 - 19,
         "ed448": 2 ** 448 - 2 ** 224 - 1, "curve25519": 2 ** 255 - 19, "curve448": 2 ** 448 - 2 ** 224 - 1}
PATTERNS = ("01", "ff", "80", "seed", "one-low")


def scalar(klen, pat):
    if klen == 0:
        return 0
    if pat == "01":
        b = b"\x01" + bytes(klen - 1)
    elif pat == "ff":
        b = b"\xff" * klen
    elif pat == "80":
        b = b"\x80" + bytes(klen - 1)
    elif pat == "one-low":
        b = b"\x01" * klen
    else:
        b = bytes([data(1, 6000 + klen)[0] | 1]) + data(klen - 1, 6100)
    return int.from_bytes(b, "big")


def coord_alphabet(curve):
    from Crypto.PublicKey._point import _curves
    c = _curves[curve]
    p = FIELD[curve]
    size = (c.modulus_bits + 7) // 8
    vals = [0, 1, 2, p - 1, p, p + 1, 2 ** c.modulus_bits - 1, 2 ** (8 * size) - 1, 2 ** (8 * size), 2 ** (8 * size + 8) - 1]
    if hasattr(c.G, "y"):
        vals += [int(c.G.x), int(c.G.y), int(c.G.x) + p, p - int(c.G.y)]
    else:
        vals += [int(c.G.x), int(c.G.x) + p, 9, 5]
    return vals


NCOORD = 14


@family("ec")
class Ec(object):
    @staticmethod
    def shards(tier):
        out = []
        for c in WCURVES + ECURVES + XCURVES:
            out.append(("ec", c, "new"))
            out.append(("ec", c, "arith"))
            out.append(("ec", c, "mul"))
        out.append(("ec", "high", "api"))
        out.append(("ec", "pairs", "cross"))
        return out

    @staticmethod
    def gen(shard, tier):
        _, c, part = shard[:3]
        th = tier == "thorough"
        out = []
        if part == "new":
            if c in XCURVES:
                for i in range(NCOORD):
                    out.append(("ec", c, "new", i, 0))
                out.append(("ec", c, "new", -1, 0))
            else:
                for i in range(NCOORD):
                    for j in range(NCOORD):
                        out.append(("ec", c, "new", i, j))
        elif part == "arith":
            pts = ("G", "2G", "7G", "-G", "inf", "nG-1")
            for a in pts:
                for b in pts:
                    for op in ("add", "iadd", "eq"):
                        out.append(("ec", c, "arith", op, a, b))
                for op in ("double", "neg", "copy", "xy", "mul0", "mul1", "mulorder", "set"):
                    out.append(("ec", c, "arith", op, a, a))
        elif part == "mul":
            kmax = 81
            heavy = c in ("p521", "ed448", "curve448", "p384")
            for pat in PATTERNS:
                for klen in range(0, kmax):
                    if not th and heavy and klen > 40 and klen % 8 not in (0, 1, 7):
                        continue
                    if not th and pat in ("80", "one-low") and klen > 8 and klen % 8 not in (0, 1, 7):
                        continue
                    for base in ("G", "7G", "inf"):
                        if base == "inf" and klen % 8 not in (0, 1):
                            continue
                        out.append(("ec", c, "mul", pat, klen, base))
        elif part == "api":
            for curve in WCURVES + ECURVES + XCURVES:
                for what in ("construct", "dh", "sign", "export"):
                    out.append(("ec", curve, "api", what))
        elif part == "cross":
            # operands that live on two DIFFERENT curves (coordinate arrays of different lengths), every ordered pair
            allc = WCURVES + ECURVES + XCURVES
            for c1 in allc:
                for c2 in allc:
                    if c1 != c2:
                        for op in ("eq", "add", "iadd", "set", "keyeq", "dh"):
                            for which in ("G", "inf"):
                                out.append(("ec", c1, "cross", op, c2, which))
        return out

    @staticmethod
    def group(case):
        return "%s.%s" % (case[1], case[2])

    @staticmethod
    def point(c, which):
        from Crypto.PublicKey._point import _curves
        cv = _curves[c]
        G = cv.G
        if which == "G":
            return G.copy()
        if which == "2G":
            return G * 2
        if which == "7G":
            return G * 7
        if which == "-G":
            return -G if c not in XCURVES else G * 3
        if which == "inf":
            return G.point_at_infinity()
        if which == "nG-1":
            return G * (int(cv.order) - 1)
        raise HarnessBug(which)

    @staticmethod
    def touch(P, c):
        if c in XCURVES:
            try:
                return int(P.x)
            except ValueError:
                return None
        return (int(P.x), int(P.y))

    @staticmethod
    def run(case):
        _, c, part = case[:3]
        from Crypto.PublicKey._point import _curves, EccPoint, EccXPoint
        if part == "new":
            vals = coord_alphabet(c)
            if len(vals) != NCOORD:
                raise HarnessBug("coordinate alphabet size %d" % len(vals))
            i, j = case[3], case[4]
            if c in XCURVES:
                P = EccXPoint(None if i < 0 else vals[i], c)
                Ec.touch(P, c)
                Q = P * 8
                Ec.touch(Q, c)
                return "ok"
            P = EccPoint(vals[i], vals[j], c)
            Ec.touch(P, c)
            Q = P * 5 + P
            Ec.touch(Q, c)
            return "ok"
        if part == "arith":
            _, _, _, op, a, b = case
            if c in XCURVES and op in ("add", "iadd", "double", "neg"):
                return "ok-na"
            P, Q = Ec.point(c, a), Ec.point(c, b)
            if op == "add":
                if c in XCURVES:
                    return "ok-na"
                R = P + Q
                Ec.touch(R, c)
            elif op == "iadd":
                if c in XCURVES:
                    return "ok-na"
                P += Q
                P += P
                Ec.touch(P, c)
            elif op == "eq":
                _ = (P == Q), (P != Q), (P == P)
            elif op == "double":
                P.double()
                Ec.touch(P, c)
            elif op == "neg":
                R = -P
                Ec.touch(R, c)
            elif op == "copy":
                R = P.copy()
                del P
                gc.collect()
                Ec.touch(R, c)
            elif op == "xy":
                Ec.touch(P, c)
                P.is_point_at_infinity()
            elif op == "mul0":
                Ec.touch(P * 0, c)
            elif op == "mul1":
                Ec.touch(P * 1, c)
            elif op == "mulorder":
                n = int(_curves[c].order)
                Ec.touch(P * n, c)
                Ec.touch(P * (n + 1), c)
            elif op == "set":
                R = Ec.point(c, "7G")
                R.set(P)
                del P
                gc.collect()
                Ec.touch(R, c)
            return "ok"
        if part == "mul":
            _, _, _, pat, klen, base = case
            k = scalar(klen, pat)
            if base == "G":
                P = _curves[c].G * k          # generator: fixed-base tables on the NIST curves
            else:
                P = Ec.point(c, base)
                P *= k
            Ec.touch(P, c)
            return "ok"
        if part == "cross":
            from Crypto.PublicKey import ECC
            _, _, _, op, c2, which = case
            if c in XCURVES and op in ("add", "iadd"):
                return "ok-na"                     # EccXPoint has no addition
            P, Q = Ec.point(c, "7G"), Ec.point(c2, which)
            if op == "eq":
                _ = (P == Q), (P != Q)
            elif op == "add":
                Ec.touch(P + Q, c)
            elif op == "iadd":
                P += Q
                Ec.touch(P, c)
            elif op == "set":
                P.set(Q)
                Ec.touch(P, c2)
            elif op in ("keyeq", "dh"):
                if which == "inf":
                    return "ok-na"
                seedlen = {"ed25519": 32, "ed448": 57, "curve25519": 32, "curve448": 56}
                ks = []
                for cc in (c, c2):
                    if cc in seedlen:
                        ks.append(ECC.construct(curve=cc, seed=data(seedlen[cc], 1000)))
                    else:
                        ks.append(ECC.construct(curve=cc, d=scalar(20, "seed")))
                if op == "keyeq":
                    _ = (ks[0] == ks[1]), (ks[0].public_key() == ks[1].public_key()), (ks[0] != ks[1])
                else:
                    from Crypto.Protocol.DH import key_agreement
                    key_agreement(static_priv=ks[0], static_pub=ks[1].public_key(), kdf=lambda x: x)
            return "ok"
        if part == "api":
            from Crypto.PublicKey import ECC
            what = case[3]
            seedlen = {"ed25519": 32, "ed448": 57, "curve25519": 32, "curve448": 56}
            if c in seedlen:
                key = ECC.construct(curve=c, seed=data(seedlen[c], 1000))
            else:
                key = ECC.construct(curve=c, d=scalar(20, "seed"))
            if what == "construct":
                Ec.touch(key.pointQ, c)
                key.public_key()
            elif what == "export":
                blob = key.public_key().export_key(format="DER")
                k2 = ECC.import_key(S.IN.view(len(blob), "E", blob))
                Ec.touch(k2.pointQ, c)
                der = key.export_key(format="DER")
                ECC.import_key(S.A.view(len(der), "S", der))
                if c not in seedlen:
                    sec1 = key.public_key().export_key(format="SEC1", compress=True)
                    k3 = ECC.import_key(S.X.view(len(sec1), "E", sec1), curve_name=c)
                    Ec.touch(k3.pointQ, c)
            elif what == "dh":
                from Crypto.Protocol.DH import key_agreement
                if c in ECURVES:
                    return "ok-na"
                if c in seedlen:
                    other_k = ECC.construct(curve=c, seed=data(seedlen[c], 1100))
                else:
                    other_k = ECC.construct(curve=c, d=scalar(21, "seed"))
                key_agreement(static_priv=key, static_pub=other_k.public_key(), kdf=lambda x: x)
            elif what == "sign":
                from Crypto.Hash import SHA512, SHAKE256
                if c in XCURVES:
                    return "ok-na"
                if c in ECURVES:
                    from Crypto.Signature import eddsa
                    s = eddsa.new(key, "rfc8032").sign(data(33))
                    eddsa.new(key.public_key(), "rfc8032").verify(S.IN.view(33, "E", data(33)), S.T.view(len(s), "E", s))
                else:
                    from Crypto.Signature import DSS
                    h = SHA512.new(data(33))
                    s = DSS.new(key, "deterministic-rfc6979").sign(h)
                    DSS.new(key.public_key(), "fips-186-3").verify(h, S.T.view(len(s), "E", s))
            return "ok"
        raise HarnessBug("ec part %r" % part)


# ---------------------------------------------------------------------------------------------------
# modular exponentiation / Montgomery multiplication (Crypto.Math._IntegerCustom over _modexp)
# ---------------------------------------------------------------------------------------------------
def operand(nbytes, pat, odd=None):
    if nbytes == 0:
        return 0
    if pat == "ff":
        v = 2 ** (8 * nbytes) - 1
    elif pat == "80":
        v = 2 ** (8 * nbytes - 1) + 1
    elif pat == "01":
        v = 2 ** (8 * nbytes - 8) + 3
    else:
        v = int.from_bytes(bytes([data(1, 6500 + nbytes)[0] | 0x80]) + data(nbytes - 1, 6600), "big")
    if odd is True:
        v |= 1
    elif odd is False:
        v &= ~1
    return v


@family("modexp")
class Modexp(object):
    @staticmethod
    def sizes(tier):
        if tier == "thorough":
            return list(range(1, 281))
        s = set(range(1, 42))
        for w in range(6, 34):
            s.update((8 * w - 1, 8 * w, 8 * w + 1))
        s.update((265, 272))
        return sorted(s)

    @staticmethod
    def shards(tier):
        return [("modexp", pat) for pat in ("ff", "80", "01", "seed")] + [("modexp", "mul")]

    @staticmethod
    def gen(shard, tier):
        pat = shard[1]
        out = []
        if pat == "mul":
            for n in Modexp.sizes(tier):
                for mp in ("ff", "80", "seed"):
                    for tp in ("zero", "one", "m-1", "seed", "m+5", "neg"):
                        out.append(("modexp", "mul", n, mp, tp))
            for mp in ("even", "zero", "neg", "one"):
                out.append(("modexp", "mul", 8, mp, "seed"))
            return out
        for n in Modexp.sizes(tier):
            if tier != "thorough" and pat in ("80", "01") and n > 16 and n % 8 not in (0, 1, 7):
                continue
            for bp in ("zero", "one", "m-1", "seed", "big"):
                for ep in ("0", "1", "2", "65537", "short", "full", "ff", "long"):
                    if n > 72 and ep in ("full", "ff", "long") and bp != "seed":
                        continue
                    if tier != "thorough" and n > 40 and ep in ("ff", "long") and n % 8 not in (0, 1, 7):
                        continue
                    out.append(("modexp", "pow", n, pat, bp, ep))
        for mp in ("even", "zero", "neg", "one"):
            out.append(("modexp", "pow", 8, mp, "seed", "short"))
        return out

    @staticmethod
    def group(case):
        return "IntegerCustom." + case[1]

    @staticmethod
    def modulus(n, mp):
        if mp == "even":
            return operand(n, "seed", odd=False)
        if mp == "zero":
            return 0
        if mp == "neg":
            return -operand(n, "seed", odd=True)
        if mp == "one":
            return 1
        return operand(n, mp, odd=True)

    @staticmethod
    def run(case):
        from Crypto.Math._IntegerCustom import IntegerCustom
        if case[1] == "mul":
            _, _, n, mp, tp = case
            m = Modexp.modulus(n, mp)
            t = {"zero": 0, "one": 1, "m-1": m - 1, "seed": operand(n, "seed") % max(m, 1), "m+5": m + 5, "neg": -3}[tp]
            r = IntegerCustom._mult_modulo_bytes(IntegerCustom(t), IntegerCustom(operand(n, "seed")), IntegerCustom(m))
            if int.from_bytes(r, "big") != (t * operand(n, "seed")) % m:
                return "wrong-product"
            return "ok"
        _, _, n, mp, bp, ep = case
        m = Modexp.modulus(n, mp)
        base = {"zero": 0, "one": 1, "m-1": m - 1, "seed": operand(n, "seed") % max(abs(m), 2), "big": operand(n + 9, "seed")}[bp]
        e = {"0": 0, "1": 1, "2": 2, "65537": 65537, "short": 0xC0FFEE, "full": operand(n, "seed"), "ff": 2 ** (8 * n) - 1,
             "long": operand(n + 9, "ff")}[ep]
        x = IntegerCustom(base)
        x.inplace_pow(e, m)
        if m > 1 and int(x) != pow(base, e, m):
            return "wrong-power"
        return "ok"


# ---------------------------------------------------------------------------------------------------
# object life-cycle histories
# ---------------------------------------------------------------------------------------------------
LIFE_OPS = ("useA", "useB", "copy", "delA", "delB", "gc", "newB", "finA")


def life_classes():
    """name -> (create(), use(obj), finish(obj), copy(obj) or None)"""
    L = {}

    def hashcls(name):
        def create():
            return new_hash(name, "E", guard=False)

        def use(o):
            o.update(S.IN.view(37, "E", data(37)))

        def fin(o):
            finish(o, name)

        cp = None if HASHES[name][0].startswith(NO_COPY) else (lambda o: o.copy())
        return create, use, fin, cp
    for n in HASHES:
        L["hash:" + n] = hashcls(n)

    def blk(t):
        bs = BLOCK[t[0]]

        def create():
            return C.new_blk(t, "E")

        def use(o):
            o.encrypt(S.IN.view(2 * bs, "E", data(2 * bs)), output=S.OUT.view(2 * bs, "E"))

        def fin(o):
            o.encrypt(data(bs))
        return create, use, fin, None
    for c in ("AES", "DES3", "DES", "Blowfish", "CAST", "ARC2"):
        for mode in ("ECB", "CBC", "CFB", "OFB", "CTR"):
            t = (c, KEYLEN[c], mode, (("segment_size", 8),) if mode == "CFB" else ())
            L["blk:%s-%s" % (c, mode)] = blk(t)
    L["blk:AES-ECB-noaesni"] = blk(("AES", 16, "ECB", (("use_aesni", False),)))
    L["blk:AES-CTR-noaesni"] = blk(("AES", 32, "CTR", (("use_aesni", False),)))

    def stream(t):
        def create():
            return C.new_stream(t, "E")

        def use(o):
            o.encrypt(S.IN.view(70, "E", data(70)))
        return create, use, use, None
    for t in (("ARC4", 16, 0), ("Salsa20", 32, 8), ("ChaCha20", 32, 12), ("ChaCha20", 32, 24)):
        L["stream:%s-%d" % (t[0], t[2])] = stream(t)

    def aead(t):
        mode = t[2]

        def create():
            return C.new_aead(t, "E", msg_len=40, assoc_len=37)

        def use(o):
            o.update(S.A.view(37, "E", data(37, 3000)))

        def fin(o):
            if mode == "SIV":
                o.encrypt_and_digest(data(40))
            else:
                o.encrypt(S.IN.view(40, "E", data(40)))
                if mode == "OCB":
                    o.encrypt()
                o.digest()
        return create, use, fin, None
    for t in (("AES", 16, "GCM", ()), ("AES", 16, "GCM", (("use_clmul", False),)), ("AES", 16, "CCM", (("declare", True),)),
              ("AES", 16, "EAX", ()), ("DES3", 24, "EAX", ()), ("AES", 32, "SIV", ()), ("AES", 16, "OCB", ()),
              ("ChaCha20_Poly1305", 32, "CHAPOLY", ())):
        L["aead:%s-%s%s" % (t[0], t[2], "-noclmul" if t[3] and t[3][0][0] == "use_clmul" else "")] = aead(t)

    def point(c):
        def create():
            return Ec.point(c, "7G")

        def use(o):
            o *= 3
            Ec.touch(o, c)

        def fin(o):
            Ec.touch(o, c)
        return create, use, fin, (lambda o: o.copy())
    for c in WCURVES + ECURVES + XCURVES:
        L["point:" + c] = point(c)

    def eks():
        from Crypto.Cipher import _EKSBlowfish

        def create():
            return _EKSBlowfish.new(data(9, 1000), _EKSBlowfish.MODE_ECB, data(16, 2000), 1, True)

        def use(o):
            o.encrypt(S.IN.view(16, "E", data(16)))
        return create, use, use, None
    L["blk:EKSBlowfish"] = eks()
    return L


LIFE_NAMES = None


def life_names():
    names = ["hash:" + n for n in HASHES]
    for c in ("AES", "DES3", "DES", "Blowfish", "CAST", "ARC2"):
        for mode in ("ECB", "CBC", "CFB", "OFB", "CTR"):
            names.append("blk:%s-%s" % (c, mode))
    names += ["blk:AES-ECB-noaesni", "blk:AES-CTR-noaesni", "stream:ARC4-0", "stream:Salsa20-8", "stream:ChaCha20-12",
              "stream:ChaCha20-24", "aead:AES-GCM", "aead:AES-GCM-noclmul", "aead:AES-CCM", "aead:AES-EAX", "aead:DES3-EAX",
              "aead:AES-SIV", "aead:AES-OCB", "aead:ChaCha20_Poly1305-CHAPOLY"]
    names += ["point:" + c for c in WCURVES + ECURVES + XCURVES]
    names.append("blk:EKSBlowfish")
    return names


_LIFE = {}
_HIST = {}


def life_histories(depth):
    """all histories of length 1..depth over LIFE_OPS in which no step is a no-op: operations on an object that
    does not exist (any more) and gc directly after gc are left out (abstract state: A alive?, B alive?)"""
    if depth in _HIST:
        return _HIST[depth]
    out = []

    def rec(h, a, b, lastgc):
        if h:
            out.append(h)
        if len(h) == depth:
            return
        for i, op in enumerate(LIFE_OPS):
            if op in ("useA", "finA", "copy", "delA") and not a:
                continue
            if op in ("useB", "delB") and not b:
                continue
            if op == "gc" and lastgc:
                continue
            rec(h + str(i), a and op != "delA", (b or op in ("copy", "newB")) and op != "delB", op == "gc")
    rec("", True, False, False)
    out.sort(key=lambda x: (len(x), x))
    _HIST[depth] = out
    return out


# quick tier: depth 4 for one class per native implementation family, depth 3 for the rest
LIFE_PRIMARY = ("hash:SHA256", "hash:SHA3-256", "hash:SHAKE128", "hash:BLAKE2b-512", "hash:HMAC-SHA256", "hash:CMAC-AES",
                "hash:Poly1305-ChaCha20", "blk:AES-CBC", "blk:AES-CTR", "blk:DES3-CFB", "blk:AES-ECB-noaesni",
                "stream:ChaCha20-12", "aead:AES-GCM", "aead:AES-OCB", "aead:AES-EAX", "aead:AES-SIV", "aead:AES-CCM",
                "aead:ChaCha20_Poly1305-CHAPOLY", "point:p256", "point:ed25519", "point:curve25519")


@family("life")
class Life(object):
    @staticmethod
    def shards(tier):
        return [("life", n) for n in life_names()]

    @staticmethod
    def gen(shard, tier):
        name = shard[1]
        depth = 4 if (tier == "thorough" or name in LIFE_PRIMARY) else 3
        return [("life", name, h) for h in life_histories(depth)]

    @staticmethod
    def group(case):
        return "life:" + case[1]

    @staticmethod
    def run(case):
        _, name, hist = case
        if not _LIFE:
            _LIFE.update(life_classes())
        create, use, fin, cp = _LIFE[name]
        A = create()
        B = None
        finA = finB = False
        for ch in hist:
            op = LIFE_OPS[int(ch)]
            try:
                if op == "useA" and A is not None:
                    use(A)
                elif op == "useB" and B is not None:
                    use(B)
                elif op == "copy" and A is not None:
                    B = cp(A) if cp else create()
                elif op == "delA":
                    A = None
                elif op == "delB":
                    B = None
                elif op == "gc":
                    gc.collect()
                elif op == "newB":
                    B = create()
                elif op == "finA" and A is not None:
                    fin(A)
            except (TypeError, ValueError):
                pass                     # call-order refusals are legal; the history continues
        # everything still alive is used once more and finished, in both orders of destruction
        for o in (B, A):
            if o is not None:
                try:
                    use(o)
                except (TypeError, ValueError):
                    pass
                try:
                    fin(o)
                except (TypeError, ValueError):
                    pass
        A = None
        gc.collect()
        if B is not None:
            try:
                fin(B)
            except (TypeError, ValueError):
                pass
        return "ok"
