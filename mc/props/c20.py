"""C20 - Shamir secret sharing: any k shares rebuild the secret, over a true GF(2^128).

Bounded-exhaustive enumeration (ShapeExplorer + TapeExplorer) against the real
Crypto.Protocol.SecretSharing:

* split   : the module's entropy seam `SecretSharing.rng` is a tape; for ALL (k, n), 2 <= k <= n <= 6,
            both ssss modes, all secrets of the element alphabet Phi and all coefficient tapes of a stated
            product alphabet, the returned shares must equal the reference polynomial evaluated with
            exactly the tape's coefficients, exactly k-1 draws of 16 bytes must be made and no other
            entropy source may be touched.
* combine : for every (k, mode, secret, tape) of a stated grid, EVERY k-subset of the 6 real shares in EVERY
            order (k-subsets of n < 6 shares are the subsets with indexes <= n: split(k, n) is verified to be a
            prefix of split(k, 6), and the stateless combine() is not called twice with identical arguments),
            every superset in index order, every (k-1)-subset, every index list with a repeated index.
* secrecy : executable witness of "k-1 shares are consistent with every secret": for every (k-1)-subset J and
            every alternative secret s' of Phi the coefficient tape that maps s' onto the same J-shares is
            computed with the reference (linear algebra) and the REAL split run on that tape must reproduce them.
* field   : _Element laws on Phi (all pairs, all 14^3 triples), all 128 x 128 products of basis monomials and
            inverses of 435 elements against the reference GF(2^128) (reduction by x^128 + x^7 + x^2 + x + 1).
"""
import itertools
import math
import os

from ..common import Acc, short, seeded, seeded_int
from ..ref import gf128 as G

LEVEL = "exploration"
RULE = ("complete enumeration of the stated finite grids: (k, n, mode, secret, coefficient tape) for split; "
        "(k, mode, secret, tape) x every ordered k-subset / superset / (k-1)-subset / repeated-index list of the 6 "
        "shares for combine; (k, mode, base case, (k-1)-subset, alternative secret) for the secrecy witness; element "
        "pairs / triples / basis-monomial pairs for the field laws.  A case is distinct by its full parameter tuple; "
        "distinct_nontrivial counts distinct (part, k, n or index set, mode, outcome class) tuples actually observed "
        "on the real library")
BUDGET = {"quick": 150, "thorough": 1500}

MASK = (1 << 128) - 1
NMAX = 6
KN = [(k, n) for k in range(2, NMAX + 1) for n in range(k, NMAX + 1)]          # the 15 (k, n) pairs
MAXV = 25          # per shard and key: stop enumerating a part after that many failing cases (verdict is decided)


# ---------------------------------------------------------------------------
# element alphabet
# ---------------------------------------------------------------------------
PHI_NAMES = ["0", "1", "x", "x+1", "x^7", "0x87", "x^64", "x^127", "x^127+1", "2^128-1", "0xAA..AA",
             "seeded1", "seeded2", "seeded3"]


def phi():
    return [0, 1, 2, 3, 0x80, 0x87, 1 << 64, 1 << 127, (1 << 127) | 1, MASK, int("AA" * 16, 16)] + \
           [seeded_int("c20/phi/%d" % i, 128) for i in (1, 2, 3)]


def sub(names):
    p = phi()
    return [p[PHI_NAMES.index(n)] for n in names]


T6N = ["0", "1", "0x87", "x^127+1", "2^128-1", "seeded1"]
T4N = ["0", "1", "2^128-1", "seeded1"]
T3N = ["0", "2^128-1", "seeded1"]
T2N = ["0", "seeded1"]


def b16(v):
    return int(v).to_bytes(16, "big")


def fixed_tapes(k):
    """4 stated tapes (draw order) for the quick tier at k = 5, 6"""
    p = phi()
    s1, s2, s3 = p[11], p[12], p[13]
    gen = [s1, s2, s3, s1 ^ MASK, s2 ^ MASK][:k - 1]
    return [tuple([0] * (k - 1)), tuple(gen), tuple([MASK] * (k - 1)), tuple([0] * (k - 2) + [s1])]


# grids: tier -> k -> (secret alphabet names | None = Phi, tape spec)
#   tape spec: ("prod", names | None) = every (k-1)-tuple over that alphabet;  ("fixed",) = fixed_tapes(k)
SPLIT_GRID = {
    "thorough": {2: (None, ("prod", None)), 3: (None, ("prod", None)), 4: (None, ("prod", T6N)),
                 5: (None, ("prod", T6N)), 6: (None, ("prod", T4N))},
    "quick": {2: (None, ("prod", None)), 3: (None, ("prod", None)), 4: (None, ("prod", T4N)),
              5: (None, ("prod", T3N)), 6: (None, ("prod", T3N))},
}
COMBINE_GRID = {
    "thorough": {2: (None, ("prod", None)), 3: (None, ("prod", T6N)), 4: (T6N, ("prod", T4N)),
                 5: (T4N, ("prod", T3N)), 6: (T4N, ("prod", T2N))},
    "quick": {2: (None, ("prod", None)), 3: (T6N, ("prod", T4N)), 4: (T4N, ("prod", T2N)),
              5: (["2^128-1", "seeded1"], ("prod", T2N)), 6: (["2^128-1", "seeded1"], ("fixed",))},
}


def grid_cases(spec, k):
    """-> list of (secret int, tape tuple of ints in DRAW order), simplest first"""
    snames, tspec = spec
    secrets = phi() if snames is None else sub(snames)
    if tspec[0] == "prod":
        al = phi() if tspec[1] is None else sub(tspec[1])
        tapes = list(itertools.product(al, repeat=k - 1))
    else:
        tapes = fixed_tapes(k)
    return [(s, t) for s in secrets for t in tapes]


def grid_text(spec, k):
    snames, tspec = spec
    s = "Phi(14)" if snames is None else "{%s}" % ",".join(snames)
    if tspec[0] == "prod":
        t = "%s^%d" % ("Phi(14)" if tspec[1] is None else "{%s}" % ",".join(tspec[1]), k - 1)
    else:
        t = "{0^(k-1), generic distinct, (2^128-1)^(k-1), leading coefficients 0 and a_1 = seeded1}"
    return "secrets %s x tapes %s" % (s, t)


# ---------------------------------------------------------------------------
# driving the real library
# ---------------------------------------------------------------------------
class Tape:
    """SecretSharing.rng replacement: answers the i-th call with the i-th chunk; every call is recorded"""

    def __init__(self, chunks_):
        self.chunks = [bytes(c) for c in chunks_]
        self.calls = []

    def __call__(self, n):
        i = len(self.calls)
        self.calls.append(n)
        if i < len(self.chunks) and n == len(self.chunks[i]):
            return self.chunks[i]
        return seeded("c20/tape-overrun/%d" % i, n)       # judged by the caller through self.calls


class Trip:
    def __init__(self):
        self.n = 0

    def __call__(self, n):
        self.n += 1
        return seeded("c20/tripwire/%d" % self.n, n)


def real_split(k, n, secret, tape_ints, ssss):
    """-> (('ok', shares) | ('exc', name, msg), tape call sizes, tripwire hits)"""
    import Crypto.Random as CR
    from Crypto.Protocol import SecretSharing as SS
    if not hasattr(SS, "rng"):
        raise RuntimeError("seam Crypto.Protocol.SecretSharing.rng not found")
    tape, trip = Tape([b16(c) for c in tape_ints]), Trip()
    saved = (SS.rng, CR.get_random_bytes, getattr(CR, "urandom", None), os.urandom)
    SS.rng = tape
    CR.get_random_bytes = trip
    os.urandom = trip
    if saved[2] is not None:
        CR.urandom = trip
    try:
        try:
            r = ("ok", SS.Shamir.split(k, n, secret, ssss=ssss))
        except Exception as e:  # noqa
            r = ("exc", type(e).__name__, str(e))
    finally:
        SS.rng, CR.get_random_bytes, os.urandom = saved[0], saved[1], saved[3]
        if saved[2] is not None:
            CR.urandom = saved[2]
    return r, tape.calls, trip.n


def real_combine(shares, ssss):
    from Crypto.Protocol.SecretSharing import Shamir
    try:
        return ("ok", bytes(Shamir.combine(shares, ssss=ssss)))
    except Exception as e:  # noqa
        return ("exc", type(e).__name__, str(e))


def ref_combine(lst, ssss, acc):
    """reference interpolation; None when the reference refuses the list (index 0 etc.: only under a broken split)"""
    try:
        return G.shamir_combine(lst, ssss)
    except ValueError:
        acc.count("reference_refused")
        return None


def mode(ssss):
    return "ssss" if ssss else "native"


def fmt_tape(t):
    return "[" + ",".join("%032x" % c for c in t) + "]"


def fmt_res(r):
    return r[1].hex() if r[0] == "ok" else "%s(%s)" % (r[1], r[2])


# ---------------------------------------------------------------------------
# part 1: split against the reference polynomial, tape accounting
# ---------------------------------------------------------------------------
def check_split(k, n, ssss, secret, tape, acc, part="split"):
    """one split() on a tape.  -> list of (index, 16 bytes) as returned by the library, or None"""
    sb = b16(secret)
    case = {"part": "split", "k": k, "n": n, "ssss": ssss, "secret": sb, "tape": [b16(c) for c in tape]}
    size = (k * 10 + n) * 10000 + secret.bit_length() + sum(c.bit_length() for c in tape)      # simplest case first
    acc.count("evaluations")
    acc.count("split_calls")
    res, calls, tripped = real_split(k, n, sb, tape, ssss)
    what0 = "Shamir.split(%d, %d, %s, ssss=%s) with rng tape %s" % (k, n, sb.hex(), ssss, fmt_tape(tape))
    if tripped:
        acc.error("entropy was requested outside the SecretSharing.rng seam (%d calls to Crypto.Random.get_random_bytes / "
                  "os.urandom during split): the harness no longer owns the coefficients" % tripped)
        return None
    if res[0] != "ok":
        acc.violation("C20/split/raises-%s" % res[1], "%s raised %s: %s" % (what0, res[1], res[2]), case, size=size)
        return None
    try:
        shares = [(int(i), bytes(v)) for i, v in res[1]]
        if any(not isinstance(i, int) or isinstance(i, bool) for i, _ in res[1]):
            raise TypeError("index is not an int")
    except Exception as e:  # noqa
        acc.violation("C20/split/malformed-result", "%s returned %s (%s)" % (what0, short(res[1]), e), case, size=size)
        return None
    acc.count("tape_bytes", sum(calls))
    ok = True
    if sum(calls) < 16 * (k - 1):
        ok = False
        acc.violation("C20/split/fewer-than-k-1-coefficients-drawn",
                      "%s drew %r bytes from the random source; a polynomial of degree k-1 = %d with a fixed constant term "
                      "needs %d random coefficients of 16 bytes" % (what0, calls, k - 1, k - 1), case, size=size)
    elif calls != [16] * (k - 1):
        acc.error("split(k=%d) read the tape as %r, not as k-1 draws of 16 bytes: the tape model of the harness is out of date"
                  % (k, calls))
        return None
    acc.seen("classes", (part, k, n, ssss, "ok"))
    idxs = [i for i, _ in shares]
    if len(shares) != n:
        acc.violation("C20/split/number-of-shares-is-not-n", "%s returned %d shares" % (what0, len(shares)), case, size=size)
        return None
    if len(set(idxs)) != n or any(not 1 <= i <= MASK for i in idxs):
        # index 0 is q(0) = the secret itself (one share < k reveals it); a repeated index cannot be combined
        acc.violation("C20/split/share-index-zero-or-repeated",
                      "%s returned indexes %r: a share with index 0 is the polynomial at 0, i.e. the secret itself (%s), so fewer "
                      "than k shares are NOT consistent with every secret; repeated indexes are refused by combine()"
                      % (what0, idxs[:8], dict(shares).get(0, b"").hex()), case, size=size)
        return shares
    if idxs == list(range(1, n + 1)):
        exp = G.shamir_split(k, n, sb, list(reversed(tape)), ssss)
    else:
        # the statement does not fix the numbering: evaluate the reference polynomial at the indexes really used
        acc.observe("split() numbers the shares differently from the documented 1..n")
        poly = [secret] + list(reversed(tape)) + ([1] if ssss else [])
        exp = [(i, G.to_bytes(G.poly_eval(poly, i))) for i in idxs]
    if shares != exp:
        ok = False
        j = next(i for i in range(len(exp)) if shares[i] != exp[i])
        acc.violation("C20/split/%s/shares-differ-from-polynomial-of-tape-coefficients" % mode(ssss),
                      "%s: share #%d is %s, the polynomial secret + sum a_i X^i%s with the drawn coefficients gives %s"
                      % (what0, exp[j][0], shares[j][1].hex(), " + X^k" if ssss else "", exp[j][1].hex()),
                      case, size=size)
    if ok:
        acc.count("split_ok")
        if len(acc.distinct.get("share_values", ())) < 4000:
            for _, v in shares:
                acc.seen("share_values", v)
    return shares


def split_worker(shard):
    """shard: (k, n, ssss, tier, part index, parts)"""
    k, n, ssss, tier, pi, parts = shard
    acc = Acc()
    cases = grid_cases(SPLIT_GRID[tier][k], k)[pi::parts]
    for secret, tape in cases:
        check_split(k, n, ssss, secret, tape, acc)
    if cases:
        acc.sample({"part": "split", "k": k, "n": n, "ssss": ssss, "secret": b16(secret), "tape_draws": [b16(c) for c in tape],
                    "cases_in_shard": len(cases)})
    return acc


# ---------------------------------------------------------------------------
# part 2: combine - every ordered k-subset, supersets, (k-1)-subsets
# ---------------------------------------------------------------------------
def judge_rebuild(kind, k, n, ssss, secret, tape, shares, order, acc, res=None):
    """`order`: tuple of share indexes (1-based) presented in that order; must give the secret"""
    sb = b16(secret)
    by = dict(shares)
    lst = [(i, by[i]) for i in order]
    if res is None:
        res = real_combine(lst, ssss)
    if res == ("ok", sb):
        return True
    case = {"part": "combine", "kind": kind, "k": k, "n": n, "ssss": ssss, "secret": sb, "tape": [b16(c) for c in tape],
            "order": list(order)}
    srt = tuple(sorted(order))
    what = "secret %s split with k=%d, ssss=%s, tape %s; combine(shares with indexes %r in that order) -> %s" \
        % (sb.hex(), k, ssss, fmt_tape(tape), list(order), fmt_res(res))
    size = ((k * 10 + len(order)) * 10 + sum(1 for a, b in zip(order, srt) if a != b)) * 10000 \
        + secret.bit_length() + sum(c.bit_length() for c in tape)                  # simplest case first
    if tuple(order) != srt and real_combine([(i, by[i]) for i in srt], ssss) == ("ok", sb):
        acc.violation("C20/combine/%s/result-depends-on-the-order-of-shares" % mode(ssss),
                      what + " although the same shares in index order give the secret", case, size=size)
    elif res[0] == "exc":
        acc.violation("C20/combine/%s/%s-raise-%s" % (mode(ssss), kind, res[1]), what, case, size=size)
    else:
        acc.violation("C20/combine/%s/%s-do-not-rebuild-the-secret" % (mode(ssss), kind), what, case, size=size)
    return False


def judge_kminus1(k, n, ssss, secret, tape, shares, order, acc):
    """k-1 shares: must not hand out the secret unless Lagrange interpolation of these very points does"""
    sb = b16(secret)
    by = dict(shares)
    lst = [(i, by[i]) for i in order]
    res = real_combine(lst, ssss)
    ref = ref_combine(lst, ssss, acc)
    if ref is None:
        return
    deg = ref == sb
    acc.seen("classes", ("k-1", k, tuple(order), ssss, "degenerate" if deg else "generic", res[0]))
    acc.count("kminus1_degenerate" if deg else "kminus1_generic")
    if res[0] == "ok" and res[1] == sb and not deg:
        acc.violation("C20/combine/%s/k-1-shares-return-the-secret" % mode(ssss),
                      "secret %s split with k=%d, ssss=%s, tape %s; combine of only %d shares %r returned the secret "
                      "(interpolation of these points gives %s)" % (sb.hex(), k, ssss, fmt_tape(tape), k - 1, list(order), ref.hex()),
                      {"part": "combine", "kind": "k-1-shares", "k": k, "n": n, "ssss": ssss, "secret": sb,
                       "tape": [b16(c) for c in tape], "order": list(order)},
                      size=k * 10000 + secret.bit_length() + sum(c.bit_length() for c in tape))
    elif res != ("ok", ref):
        acc.observe("combine() of k-1 shares differs from plain Lagrange interpolation of the presented points "
                    "(not demanded by the property)")


def combine_case(k, ssss, secret, tape, acc, extras=True, n_max=NMAX):
    """all recombinations for one (k, mode, secret, tape)"""
    sb = b16(secret)
    # split for every n; each must be the reference (and hence a prefix of the n_max one)
    shares = None
    for n in range(k, n_max + 1):
        sh = check_split(k, n, ssss, secret, tape, acc, part="combine-split")
        if sh is None:
            return
        if shares is not None and sh[:len(shares)] != shares:
            acc.violation("C20/split/shares-depend-on-n",
                          "split(%d, n, %s, ssss=%s) with tape %s: the first shares differ between n=%d and n=%d"
                          % (k, sb.hex(), ssss, fmt_tape(tape), n - 1, n),
                          {"part": "combine-all", "k": k, "ssss": ssss, "secret": sb, "tape": [b16(c) for c in tape]})
            return
        shares = sh
    idx = [i for i, _ in shares]
    by = dict(shares)
    bad = 0
    for subset in itertools.combinations(idx, k):
        good = 0
        for order in itertools.permutations(subset):
            acc.count("evaluations")
            acc.count("combine_k_calls")
            # this call stands for the same call in every (k, n) with n >= max index
            acc.count("combine_k_cases_over_kn", n_max - max(subset) + 1)
            res = real_combine([(i, by[i]) for i in order], ssss)
            if res == ("ok", sb):
                good += 1
            else:
                bad += 1
                judge_rebuild("k-shares", k, max(subset), ssss, secret, tape, shares, order, acc, res)
        acc.seen("classes", ("combine", k, subset, ssss, "all-orders-ok" if good else "fails"))
        acc.seen("ordered_subsets", (k, ssss, subset, good))
        if bad >= MAXV:
            return
    if not extras:
        return
    # supersets, presented in index order and in reverse order
    for m in range(k + 1, n_max + 1):
        for subset in itertools.combinations(idx, m):
            for order in (subset, subset[::-1]):
                acc.count("evaluations")
                acc.count("combine_superset_calls")
                res = real_combine([(i, by[i]) for i in order], ssss)
                if not ssss:
                    # split(k) with tape t == split(m) with tape (0,..,0,t): m shares of an m-sharing
                    judge_rebuild("superset-of-shares", k, max(subset), ssss, secret, tape, shares, order, acc, res)
                    acc.seen("classes", ("superset", k, m, ssss, res[0], res[0] == "ok" and res[1] == sb))
                else:
                    ref = ref_combine([(i, by[i]) for i in order], True, acc)
                    if ref is None:
                        continue
                    acc.seen("classes", ("superset", k, m, ssss, res[0], res[0] == "ok" and res[1] == sb))
                    if res == ("ok", ref) and ref != sb:
                        acc.observe("ssss mode: presenting more than k shares does not give the secret (combine removes X^m, "
                                    "m = number of shares presented; documented: pass exactly k shares)")
                    elif res != ("ok", ref):
                        acc.observe("ssss mode: combine of a superset differs from the reference interpolation")
    # (k-1)-subsets
    for subset in itertools.combinations(idx, k - 1):
        for order in (subset, subset[::-1]) if k > 2 else (subset,):
            acc.count("evaluations")
            acc.count("combine_kminus1_calls")
            judge_kminus1(k, max(subset), ssss, secret, tape, shares, order, acc)


def combine_worker(shard):
    """shard: (k, ssss, [(secret, tape, extras)...])"""
    k, ssss, cases = shard
    acc = Acc()
    for secret, tape, extras in cases:
        combine_case(k, ssss, secret, tape, acc, extras)
        acc.count("combine_cases")
    acc.sample({"part": "combine", "k": k, "ssss": ssss, "secret": b16(secret), "tape_draws": [b16(c) for c in tape],
                "ordered_k_subsets_per_case": sum(1 for _ in itertools.permutations(range(NMAX), k))})
    return acc


# ---- wide indexes: n = 300 (and 65537), subsets over boundary indexes ------
WIDE = {300: [1, 2, 3, 127, 128, 255, 256, 257, 299, 300], 65537: [1, 255, 256, 65535, 65536, 65537]}


def wide_case(k, n, ssss, secret, tape, acc):
    shares = check_split(k, n, ssss, secret, tape, acc, part="wide-split")
    if shares is None:
        return
    by = dict(shares)
    if any(i not in by for i in WIDE[n]):
        return                             # split did not return indexes 1..n: reported by check_split
    sb = b16(secret)
    bad = 0
    for order in itertools.permutations(WIDE[n], k):
        acc.count("evaluations")
        acc.count("combine_wide_calls")
        res = real_combine([(i, by[i]) for i in order], ssss)
        if res != ("ok", sb):
            bad += 1
            judge_rebuild("k-shares", k, n, ssss, secret, tape, shares, order, acc, res)
            if bad >= MAXV:
                return
    acc.seen("classes", ("wide", k, n, ssss, "ok" if not bad else "fails"))


def wide_worker(shard):
    k, n, ssss, cases = shard
    acc = Acc()
    for secret, tape in cases:
        wide_case(k, n, ssss, secret, tape, acc)
    acc.sample({"part": "wide-indexes", "k": k, "n": n, "ssss": ssss, "indexes": WIDE[n], "cases": len(cases)})
    return acc


def large_worker(shard):
    """Large thresholds (the statement says 'for every threshold k ... with 2 <= k <= n'): k = 16..128, where the ssss term
    X^k reaches degree 128 for small share indexes (2^128, 4^64, 16^32, 256^16 = x^128).  split() against the reference
    polynomial, then combine() of k shares in three orders, one of them containing the critical indexes."""
    k, n, ssss, must = shard
    acc = Acc()
    P = phi()
    secret = P[12]
    tape = tuple(P[11 + (i % 3)] ^ (i * 0x0101010101010101) for i in range(k - 1))
    shares = check_split(k, n, ssss, secret, tape, acc, part="large-split")
    if shares is not None and len(shares) == n:
        idx = [i for i, _ in shares]
        first = tuple(idx[:k])
        withmust = tuple([i for i in must if i in idx] + [i for i in idx if i not in must])[:k]
        for order in {first, tuple(reversed(first)), withmust, tuple(reversed(idx))[:k]}:
            acc.count("evaluations")
            acc.count("combine_large_calls")
            ok = judge_rebuild("k-shares", k, n, ssss, secret, tape, shares, order, acc)
            acc.seen("classes", ("large", k, n, ssss, ok))
    acc.sample({"part": "large-threshold", "k": k, "n": n, "ssss": ssss, "indexes_forced_into_one_subset": list(must)})
    return acc


# ---------------------------------------------------------------------------
# part 3: repeated share indexes must be refused
# ---------------------------------------------------------------------------
def check_dup(ssss, idxs, variant, acc, shares=None):
    """idxs: index list with at least one repetition; variant 'same': the repeated share is the identical
    tuple; 'other': same index, different share value"""
    m = len(idxs)
    if shares is None:
        shares = dup_shares(m, ssss)
    by = dict(shares)
    lst, seen = [], set()
    for i in idxs:
        v = by[i]
        if i in seen and variant == "other":
            v = bytes([v[0] ^ 0x80]) + v[1:15] + bytes([v[15] ^ 1])
        seen.add(i)
        lst.append((i, v))
    acc.count("evaluations")
    acc.count("dup_calls")
    res = real_combine(lst, ssss)
    if res[0] == "ok":
        acc.violation("C20/combine/duplicate-share-index-accepted",
                      "Shamir.combine(%s, ssss=%s): index list %r repeats an index (%s share value) but a result %s was returned"
                      % (short(lst), ssss, list(idxs), "same" if variant == "same" else "different", res[1].hex()),
                      {"part": "dup", "ssss": ssss, "idxs": list(idxs), "variant": variant}, size=m)
        return False
    acc.count("dup_refused")
    acc.seen("classes", ("dup", m, ssss, variant, res[1], "Duplicate" in res[2]))
    if res[1] != "ValueError":
        acc.observe("repeated share index refused with %s instead of ValueError" % res[1])
    elif "uplicate" not in res[2]:
        acc.observe("repeated share index refused, but not by the duplicate detection (message: %s)" % res[2])
    return True


_DUP = {}


def dup_shares(m, ssss):
    key = (m, ssss)
    if key not in _DUP:
        p = phi()
        tape = [p[11], p[12], p[13], p[11] ^ MASK, p[12] ^ MASK][:m - 1]
        res, _, _ = real_split(m, NMAX, b16(p[13] ^ MASK), tape, ssss)
        if res[0] != "ok":
            raise RuntimeError("split failed while preparing the duplicate-index cases: %r" % (res,))
        _DUP[key] = [(int(i), bytes(v)) for i, v in res[1]]
    return _DUP[key]


def dup_worker(shard):
    """shard: (m, ssss, first index or None)"""
    m, ssss, first = shard
    acc = Acc()
    shares = dup_shares(m, ssss)
    bad = 0
    last = None
    ix = [i for i, _ in shares]            # 1..6 (whatever split really returned is what gets repeated)
    for idxs in itertools.product(ix, repeat=m):
        if first is not None and idxs[0] != ix[first - 1]:
            continue
        if len(set(idxs)) == m:
            continue
        for variant in ("same", "other"):
            if not check_dup(ssss, idxs, variant, acc, shares):
                bad += 1
        last = idxs
        if bad >= MAXV:
            break
    acc.sample({"part": "duplicate-indexes", "list_length": m, "ssss": ssss, "last_index_list": list(last or ())})
    return acc


# ---------------------------------------------------------------------------
# part 4: secrecy witness - k-1 shares are consistent with every candidate secret
# ---------------------------------------------------------------------------
def _mat_inv(M):
    """Gauss-Jordan over the reference field"""
    n = len(M)
    A = [list(r) + [1 if i == j else 0 for j in range(n)] for i, r in enumerate(M)]
    for c in range(n):
        p = next(r for r in range(c, n) if A[r][c])
        A[c], A[p] = A[p], A[c]
        iv = G.gf_inv(A[c][c])
        A[c] = [G.gf_mul(iv, v) for v in A[c]]
        for r in range(n):
            if r != c and A[r][c]:
                f = A[r][c]
                A[r] = [a ^ G.gf_mul(f, b) for a, b in zip(A[r], A[c])]
    return [r[n:] for r in A]


_MINV = {}


def witness_case(k, ssss, secret, tape, J, alt, acc, shares=None):
    """the k-1 shares with indexes J of split(secret, tape) must also come out of split(alt, tape') for the tape'
    the reference computes"""
    sb = b16(secret)
    if shares is None:
        res, _, _ = real_split(k, NMAX, sb, tape, ssss)
        if res[0] != "ok":
            return                         # reported by the split part
        shares = [(int(i), bytes(v)) for i, v in res[1]]
    by = dict(shares)
    if any(x not in by for x in J):
        return                             # split did not return indexes 1..6: reported by the split part
    if (J, k) not in _MINV:
        _MINV[(J, k)] = _mat_inv([[G.gf_pow(x, i) for i in range(1, k)] for x in J])
    Minv = _MINV[(J, k)]
    rhs = [G.from_bytes(by[x]) ^ alt ^ (G.gf_pow(x, k) if ssss else 0) for x in J]
    coeffs = [0] * (k - 1)                 # a_1 .. a_{k-1}
    for r in range(k - 1):
        v = 0
        for c in range(k - 1):
            v ^= G.gf_mul(Minv[r][c], rhs[c])
        coeffs[r] = v
    tape2 = tuple(reversed(coeffs))        # draw order: a_{k-1} first
    refsh = dict(G.shamir_split(k, NMAX, b16(alt), coeffs, ssss))
    if any(refsh[x] != by[x] for x in J):
        # the original shares are not on any reference polynomial for `alt`: only possible if split itself is off
        acc.count("witness_reference_mismatch")
        return
    acc.count("evaluations")
    acc.count("witness_calls")
    res, calls, tripped = real_split(k, NMAX, b16(alt), tape2, ssss)
    case = {"part": "witness", "k": k, "ssss": ssss, "secret": sb, "tape": [b16(c) for c in tape], "J": list(J), "alt": b16(alt)}
    ok = res[0] == "ok" and not tripped
    if ok:
        try:
            got = dict((int(i), bytes(v)) for i, v in res[1])
            ok = all(got.get(x) == by[x] for x in J) and calls == [16] * (k - 1)
        except Exception:  # noqa
            ok = False
    acc.seen("classes", ("witness", k, J, ssss, ok))
    if alt != secret:
        acc.count("witness_alt_differs")
    if not ok:
        acc.violation("C20/secrecy/%s/k-1-shares-exclude-a-candidate-secret" % mode(ssss),
                      "split(k=%d, ssss=%s) of secret %s with tape %s gives shares %r = %s; for candidate secret %s the coefficients "
                      "%s reproduce exactly these shares in the reference polynomial, but the real split() run on that tape does "
                      "not (%s; tape reads %r)"
                      % (k, ssss, sb.hex(), fmt_tape(tape), list(J), short([by[x] for x in J]), b16(alt).hex(), fmt_tape(tape2),
                         res[1] if res[0] == "exc" else "different shares", calls), case,
                      size=k * 10000 + secret.bit_length() + alt.bit_length() + sum(c.bit_length() for c in tape))


def witness_worker(shard):
    k, ssss, bases = shard
    acc = Acc()
    alts = phi()
    for secret, tape in bases:
        res, _, _ = real_split(k, NMAX, b16(secret), tape, ssss)
        if res[0] != "ok":
            continue
        shares = [(int(i), bytes(v)) for i, v in res[1]]
        for J in itertools.combinations(range(1, NMAX + 1), k - 1):
            for alt in alts + [secret ^ 1]:
                witness_case(k, ssss, secret, tape, J, alt, acc, shares)
            if sum(acc.viol_count.values()) >= MAXV:
                break
    acc.sample({"part": "secrecy-witness", "k": k, "ssss": ssss, "base_cases": len(bases),
                "k-1_subsets": sum(1 for _ in itertools.combinations(range(NMAX), k - 1)), "candidate_secrets": len(alts) + 1})
    return acc


# ---------------------------------------------------------------------------
# part 5: field laws on Crypto.Protocol.SecretSharing._Element
# ---------------------------------------------------------------------------
def _E():
    from Crypto.Protocol.SecretSharing import _Element
    return _Element


def _val(e):
    return int(e)


def field_mul(a, b, acc, law="mul"):
    """library product a*b (as int) checked against the reference"""
    E = _E()
    acc.count("evaluations")
    acc.count("field_mul")
    try:
        r = _val(E(a) * E(b))
    except Exception as e:  # noqa
        acc.violation("C20/field/multiplication-raises-%s" % type(e).__name__,
                      "_Element(0x%x) * _Element(0x%x) raised %s: %s" % (a, b, type(e).__name__, e),
                      {"part": "field", "law": "mul", "a": a, "b": b}, size=a.bit_length() + b.bit_length())
        return None
    exp = G.gf_mul(a, b)
    if r != exp:
        acc.violation("C20/field/multiplication-differs-from-GF(2^128)-mod-x^128+x^7+x^2+x+1",
                      "_Element(0x%x) * _Element(0x%x) = 0x%x, carry-less product reduced by x^128+x^7+x^2+x+1 is 0x%x"
                      % (a, b, r, exp), {"part": "field", "law": "mul", "a": a, "b": b}, size=a.bit_length() + b.bit_length())
    return r


def field_basis(i, acc):
    for j in range(128):
        r = field_mul(1 << i, 1 << j, acc)
        acc.seen("basis_products", r)
    acc.seen("classes", ("field", "basis-row", i))


def field_pair(a, b, acc):
    E = _E()
    ab = field_mul(a, b, acc)
    ba = field_mul(b, a, acc)
    if ab is not None and ba is not None and ab != ba:
        acc.violation("C20/field/multiplication-not-commutative", "a=0x%x b=0x%x: a*b=0x%x, b*a=0x%x" % (a, b, ab, ba),
                      {"part": "field", "law": "pair", "a": a, "b": b})
    s1, s2 = _val(E(a) + E(b)), _val(E(b) + E(a))
    acc.count("evaluations")
    if s1 != (a ^ b) or s2 != s1 or _val(E(a) + E(a)) != 0:
        acc.violation("C20/field/addition-differs-from-xor", "a=0x%x b=0x%x: a+b=0x%x, b+a=0x%x" % (a, b, s1, s2),
                      {"part": "field", "law": "pair", "a": a, "b": b})
    acc.seen("classes", ("field", "pair", ab == 0, a == b))


def field_triple(a, b, c, acc):
    E = _E()
    ea, eb, ec = E(a), E(b), E(c)
    case = {"part": "field", "law": "triple", "a": a, "b": b, "c": c}
    acc.count("evaluations")
    acc.count("field_triples")
    try:
        ab, bc = ea * eb, eb * ec
        l, r = _val(ab * ec), _val(ea * bc)
        d1, d2 = _val(ea * (eb + ec)), _val(ab + ea * ec)
        e1, e2 = _val((ea + eb) * ec), _val(ea * ec + bc)
    except Exception as e:  # noqa
        acc.violation("C20/field/multiplication-raises-%s" % type(e).__name__, "triple (0x%x, 0x%x, 0x%x): %s" % (a, b, c, e), case)
        return
    acc.count("field_mul", 8)
    ref = G.gf_mul(G.gf_mul(a, b), c)
    size = a.bit_length() + b.bit_length() + c.bit_length()
    if l != r:
        acc.violation("C20/field/multiplication-not-associative",
                      "a=0x%x b=0x%x c=0x%x: (a*b)*c = 0x%x, a*(b*c) = 0x%x" % (a, b, c, l, r), case, size=size)
    if d1 != d2 or e1 != e2:
        acc.violation("C20/field/multiplication-not-distributive-over-addition",
                      "a=0x%x b=0x%x c=0x%x: a*(b+c) = 0x%x, a*b+a*c = 0x%x; (a+b)*c = 0x%x, a*c+b*c = 0x%x"
                      % (a, b, c, d1, d2, e1, e2), case, size=size)
    if l != ref or d1 != G.gf_mul(a, b ^ c):
        acc.violation("C20/field/multiplication-differs-from-GF(2^128)-mod-x^128+x^7+x^2+x+1",
                      "a=0x%x b=0x%x c=0x%x: (a*b)*c = 0x%x, reference 0x%x; a*(b+c) = 0x%x, reference 0x%x"
                      % (a, b, c, l, ref, d1, G.gf_mul(a, b ^ c)), case, size=size)
    acc.seen("triple_products", l)


def field_inverse(a, acc):
    E = _E()
    case = {"part": "field", "law": "inverse", "a": a}
    acc.count("evaluations")
    acc.count("field_inverse")
    try:
        inv = E(a).inverse()
        r = ("ok", _val(inv))
    except Exception as e:  # noqa
        r = ("exc", type(e).__name__, str(e))
    acc.seen("classes", ("field", "inverse", a == 0, r[0] if r[0] == "ok" else r[1]))
    if a == 0:
        if r[0] == "ok":
            acc.violation("C20/field/inverse-of-zero-accepted", "_Element(0).inverse() returned 0x%x" % r[1], case)
        elif r[1] != "ValueError":
            acc.observe("_Element(0).inverse() refused with %s (ValueError expected)" % r[1])
        return
    if r[0] != "ok":
        acc.violation("C20/field/non-zero-element-without-inverse", "_Element(0x%x).inverse() raised %s: %s" % (a, r[1], r[2]),
                      case, size=a.bit_length())
        return
    p1, p2 = _val(E(a) * inv), _val(inv * E(a))
    exp = G.gf_inv(a)
    if p1 != 1 or p2 != 1 or r[1] != exp or not 0 <= r[1] <= MASK:
        acc.violation("C20/field/inverse-is-not-the-multiplicative-inverse",
                      "a=0x%x: a.inverse() = 0x%x (reference 0x%x), a * a.inverse() = 0x%x" % (a, r[1], exp, p1), case,
                      size=a.bit_length())
    acc.seen("inverses", r[1])


def field_codec(a, acc):
    E = _E()
    acc.count("evaluations")
    b = b16(a)
    try:
        ok = E(b).encode() == b and E(a).encode() == b and int(E(b)) == a and E(b) == E(a) and len(E(a).encode()) == 16
        for bad in (b[:15], b + b"\0"):
            try:
                E(bad)
                ok = False
            except ValueError:
                pass
    except Exception as e:  # noqa
        ok = False
    acc.seen("classes", ("field", "codec", ok))
    if not ok:
        acc.violation("C20/field/encode-decode-roundtrip", "_Element round trip int <-> 16 bytes (big endian) fails for 0x%032x" % a,
                      {"part": "field", "law": "codec", "a": a}, size=a.bit_length())


def inverse_set():
    s = list(phi())
    s += [1 << i for i in range(128)]
    s += [(1 << i) - 1 for i in range(2, 129)]
    s += [(1 << i) | 1 for i in range(1, 128)]
    s += list(range(4, 64))
    out, seen = [], set()
    for v in s:
        if v not in seen:
            seen.add(v)
            out.append(v)
    return out


def field_misc(acc):
    """pairs, inverses, codec, pow, helper functions, and the out-of-domain behaviours (observations)"""
    from Crypto.Protocol import SecretSharing as SS
    E = SS._Element
    P = phi()
    for a in P:
        for b in P:
            field_pair(a, b, acc)
        for i in range(128):
            field_pair(a, 1 << i, acc)
    for a in inverse_set():
        field_inverse(a, acc)
        field_codec(a, acc)
    # __pow__ (used for the ssss term X^k with small bases); not one of the laws in the statement
    for a in P + [4, 5, 6, 255, 256, 300, 65537]:
        for e in range(0, 9):
            acc.count("evaluations")
            try:
                r = _val(E(a) ** e)
            except Exception as ex:  # noqa
                r = type(ex).__name__
            exp = G.gf_pow(a, e)
            acc.seen("classes", ("field", "pow", e == 0, r == exp))
            if r != exp:
                if e == 0:
                    acc.observe("_Element(a) ** 0 returns a instead of 1 (private helper; split/combine only use exponents >= 1)")
                else:
                    acc.observe("_Element(0x%x) ** %d differs from the reference power" % (a, e))
    # helpers _mult_gf2 / _div_gf2 (used by inverse())
    for a in P:
        for b in P:
            acc.count("evaluations")
            try:
                okm = SS._mult_gf2(a, b) == G._clmul(a, b)
                okd = True
                if b:
                    q, r = SS._div_gf2(a, b)
                    okd = (G._clmul(q, b) ^ r) == a and (r == 0 or r.bit_length() < b.bit_length())
            except Exception:  # noqa
                okm = okd = False
            acc.seen("classes", ("field", "helpers", okm, okd))
            if not okm:
                acc.observe("private helper _mult_gf2 disagrees with the carry-less product for some operands")
            if not okd:
                acc.observe("private helper _div_gf2(a, b) returns (0, a) when a < b as integers although deg a == deg b "
                            "(remainder not reduced, contrary to its docstring); inverse() only needs one more Euclid step and "
                            "agrees with the reference on every element tried")
    edge_observations(acc)


def edge_observations(acc):
    """behaviour outside the domain of the statement (2 <= k <= n, 16-byte values, indexes 1..n): logged, never judged"""
    from Crypto.Protocol import SecretSharing as SS
    E = SS._Element
    s = b16(phi()[11])

    def beh(fn):
        try:
            return "returns %s" % short(fn())
        except Exception as e:  # noqa
            return "raises %s" % type(e).__name__
    obs = [
        ("_Element(2^128 + 5).encode() (integer beyond 128 bits is neither reduced nor refused)", lambda: E((1 << 128) + 5).encode()),
        ("Shamir.combine([]) (no shares)", lambda: SS.Shamir.combine([])),
        ("Shamir.combine with share index 0", lambda: SS.Shamir.combine([(0, s), (1, s)])),
        ("Shamir.combine with share index 2^128 (not a 128-bit element: neither reduced nor refused)",
         lambda: SS.Shamir.combine([(1, s), (1 << 128, s)])),
    ]
    for text, fn in obs:
        acc.count("evaluations")
        b = beh(fn)
        acc.seen("classes", ("edge", text, b.split()[0]))
        acc.observe("outside the stated domain: %s %s" % (text, b))
    for k, n in ((0, 3), (1, 3), (3, 2), (2, 0)):
        acc.count("evaluations")
        res, calls, _ = real_split(k, n, s, [1, 2, 3], False)
        b = "returns %d shares (tape reads %r)" % (len(res[1]), calls) if res[0] == "ok" else "raises %s" % res[1]
        acc.seen("classes", ("edge", "split", k, n, res[0]))
        acc.observe("outside the stated domain: Shamir.split(k=%d, n=%d) %s" % (k, n, b))


def field_worker(shard):
    acc = Acc()
    kind = shard[0]
    if kind == "basis":
        for i in shard[1]:
            field_basis(i, acc)
        acc.sample({"part": "field-basis", "rows_x^i": list(shard[1]), "columns": "x^0..x^127"})
    elif kind == "triples":
        P = phi()
        a = P[shard[1]]
        for b in P:
            for c in P:
                field_triple(a, b, c, acc)
        acc.sample({"part": "field-triples", "a": PHI_NAMES[shard[1]], "b,c": "all of Phi x Phi"})
    elif kind == "misc":
        field_misc(acc)
    return acc


# ---------------------------------------------------------------------------
def _cost(k):
    """rough seconds per combine case (all ordered k-subsets of 6 shares)"""
    return {2: 0.05, 3: 0.22, 4: 0.7, 5: 1.6, 6: 1.9}[k]


def run(ctx):
    q = ctx.quick
    tier = "quick" if q else "thorough"
    G.selftest()
    from Crypto.Protocol import SecretSharing as SS
    if not hasattr(SS, "rng") or not hasattr(SS, "_Element"):
        ctx.acc.error("seam Crypto.Protocol.SecretSharing.rng / _Element not found")
        return
    P = phi()
    ctx.require(len(set(P)) == len(P) == len(PHI_NAMES), "element alphabet has colliding members")
    T4 = set(sub(T4N))
    shards = []           # (estimated cost, worker, shard)
    # combine
    ncomb = {}
    for k in range(2, NMAX + 1):
        cases = grid_cases(COMBINE_GRID[tier][k], k)
        ncomb[k] = len(cases)
        # supersets and (k-1)-subsets: on every case for k >= 4; for k = 2, 3 on the sub-grid secret in T4, tape in T4^(k-1)
        cs = [(s, t, k >= 4 or (s in T4 and all(c in T4 for c in t))) for s, t in cases]
        per = max(1, int(6.0 / _cost(k)))
        for ssss in (False, True):
            for i in range(0, len(cs), per):
                shards.append((_cost(k) * len(cs[i:i + per]), combine_worker, (k, ssss, cs[i:i + per])))
    # wide indexes
    s1, allones = P[11], MASK
    for ssss in (False, True):
        for k in (2, 3):
            secrets = [s1] if q else [allones, s1]
            tapes = list(itertools.product([0, s1] if k == 3 else [0, allones, s1], repeat=k - 1))
            for sec in secrets:
                shards.append((1.5 * len(tapes), wide_worker, (k, 300, ssss, [(sec, t) for t in tapes])))
        if not q:
            shards.append((6, wide_worker, (2, 65537, ssss, [(s1, (P[12],)), (allones, (0,))])))
    # large thresholds (both modes): (k, n, indexes that must appear together in one k-subset)
    for k, n, must in ([(16, 257, (256, 257)), (32, 32, (16, 17))] +
                       ([] if q else [(64, 64, (4, 5)), (128, 128, (2, 3)), (17, 40, (16, 17)), (33, 40, (2, 3, 4, 5))])):
        for ssss in (False, True):
            shards.append((4.0, large_worker, (k, n, ssss, must)))
    # split
    nsplit = {}
    for k, n in KN:
        cases = len(grid_cases(SPLIT_GRID[tier][k], k))
        nsplit[(k, n)] = cases
        parts = max(1, cases // 1500)
        for ssss in (False, True):
            for pi in range(parts):
                shards.append((cases / parts * 0.0012, split_worker, (k, n, ssss, tier, pi, parts)))
    # duplicates
    for m in range(2, NMAX + 1):
        for ssss in (False, True):
            if m >= 5:
                for first in range(1, NMAX + 1):
                    shards.append((1.0, dup_worker, (m, ssss, first)))
            else:
                shards.append((0.3, dup_worker, (m, ssss, None)))
    # secrecy witness
    for k in range(2, NMAX + 1):
        gen = tuple([P[11], P[12], P[13], P[11] ^ MASK, P[12] ^ MASK][:k - 1])
        bases = [(P[12], gen), (0, tuple([0] * (k - 1))), (MASK, tuple([MASK] * (k - 2) + [1]))]
        if not q:
            bases += [(P[13], tuple([0] * (k - 2) + [P[11]])), (1, tuple(reversed(gen)))]
        for ssss in (False, True):
            for b in bases:
                shards.append((0.6, witness_worker, (k, ssss, [b])))
    # field
    for i in range(0, 128, 8):
        shards.append((0.5, field_worker, ("basis", list(range(i, i + 8)))))
    for ai in range(len(P)):
        shards.append((1.2, field_worker, ("triples", ai)))
    shards.append((2.0, field_worker, ("misc",)))

    shards.sort(key=lambda s: -s[0])
    ctx.pmap(_dispatch, [(fn.__name__, sh) for _, fn, sh in shards])

    a = ctx.acc
    cl = a.distinct.get("classes", set())
    if not a.viol:
        _guards(ctx, a, cl, P, nsplit, ncomb)

    ctx.coverage_extra.update({
        "evaluations": a.n.get("evaluations", 0),
        "distinct_nontrivial": len(cl),
        "exhaustive": not a.caps,
        "kn_pairs": len(KN), "modes": ["native", "ssss"],
        "element_alphabet_Phi": PHI_NAMES,
        "split": {"cases_per_(k,n,mode)": {"k=%d" % k: nsplit[(k, NMAX)] for k in range(2, NMAX + 1)},
                  "grid": {"k=%d" % k: grid_text(SPLIT_GRID[tier][k], k) for k in range(2, NMAX + 1)},
                  "split_calls_total": a.n.get("split_calls", 0), "tape_bytes_consumed": a.n.get("tape_bytes", 0),
                  "distinct_share_values": len(a.distinct.get("share_values", ()))},
        "combine": {"cases_per_(k,mode)": {"k=%d" % k: ncomb[k] for k in ncomb},
                    "grid": {"k=%d" % k: grid_text(COMBINE_GRID[tier][k], k) for k in ncomb},
                    "ordered_k_subsets_per_case": {"k=%d" % k: math.perm(NMAX, k) for k in ncomb},
                    "combine_calls_on_ordered_k_subsets": a.n.get("combine_k_calls", 0),
                    "the_same_counted_per_(k,n)_pair": a.n.get("combine_k_cases_over_kn", 0),
                    "superset_calls": a.n.get("combine_superset_calls", 0),
                    "k-1_subset_calls": a.n.get("combine_kminus1_calls", 0),
                    "k-1_generic/degenerate": [a.n.get("kminus1_generic", 0), a.n.get("kminus1_degenerate", 0)],
                    "wide_index_calls (n=300%s)" % ("" if q else ", 65537"): a.n.get("combine_wide_calls", 0),
                    "repeated_index_lists_refused": a.n.get("dup_refused", 0)},
        "secrecy": {"witness_splits": a.n.get("witness_calls", 0),
                    "theorem": "shares == reference polynomial q(X) = s + a_1 X + .. + a_{k-1} X^{k-1} (+X^k) for exactly the k-1 drawn "
                               "16-byte coefficients (checked on every split above); for any k-1 distinct non-zero indexes the map "
                               "(a_1..a_{k-1}) -> (q(x_j))_j is a bijection of GF(2^128)^(k-1) for every fixed s (Vandermonde), so k-1 "
                               "shares are equally consistent with every secret.  The witness executes this on the real split()."},
        "field": {"basis_monomial_pairs": 128 * 128, "triples": len(P) ** 3, "inverses": a.n.get("field_inverse", 0),
                  "library_multiplications": a.n.get("field_mul", 0)},
    })
    ctx.assume("n <= 6 for the complete subset/order enumeration (plus n = 300%s over boundary indexes for k = 2, 3); secrets and "
               "coefficients range over the stated alphabets, not over all 2^128 values" % ("" if q else " and 65537"))
    ctx.assume("combine() is a stateless static method: a k-subset of the n < 6 first shares is the same call as for n = 6 (split(k, n) "
               "is verified to be a prefix of split(k, 6) on the real library for every case) and is executed once")
    ctx.assume("entropy seam: module attribute Crypto.Protocol.SecretSharing.rng; Crypto.Random.get_random_bytes and os.urandom are "
               "tripwired during every split()")
    ctx.assume("outside the domain of the statement and therefore logged only: k < 2, k > n, share index 0 or >= 2^128, empty share "
               "list, _Element ** 0, more than k shares in ssss mode, the value combine() returns for k-1 shares")
    ctx.assume("repeated indexes: every index list of length 2..6 over the indexes 1..6 with at least one repetition, the repeated "
               "share once identical and once with a different value, both modes")
    ctx.assume("any exception counts as refusal of a repeated index (ValueError observed); the message tells whether the duplicate "
               "detection or the inversion of zero refused")


def _guards(ctx, a, cl, P, nsplit, ncomb):
    """vacuity guards: they protect a SILENT verdict (with violations on record enumerations are cut short)"""
    for part in ("split", "combine-split"):
        got = {(c[1], c[2], c[3]) for c in cl if c[0] == part}
        ctx.require(got == {(k, n, s) for k, n in KN for s in (False, True)},
                    "%s: not all 15 (k, n) pairs x 2 modes were executed" % part)
    ctx.require(a.n.get("split_calls", 0) >= 2 * sum(nsplit.values()), "fewer split() cases than the grid defines")
    ctx.require(a.n.get("tape_bytes", 0) > 0 and a.n.get("split_ok", 0) == a.n.get("split_calls", 0),
                "split bookkeeping inconsistent")
    exp_k = sum(2 * ncomb[k] * math.perm(NMAX, k) for k in ncomb)
    ctx.require(a.n.get("combine_k_calls", 0) == exp_k,
                "ordered k-subset count %d differs from the grid (%d)" % (a.n.get("combine_k_calls", 0), exp_k))
    osub = a.distinct.get("ordered_subsets", ())
    ctx.require(len({(c[0], c[1], c[2]) for c in osub}) == 2 * sum(math.comb(NMAX, k) for k in range(2, NMAX + 1)),
                "not every k-subset of the 6 shares was presented in both modes")
    ctx.require(all(c[3] == math.factorial(c[0]) for c in osub), "a k-subset was not recombined in all k! orders")
    ndup = 2 * 2 * sum(NMAX ** m - math.perm(NMAX, m) for m in range(2, NMAX + 1))
    ctx.require(a.n.get("dup_refused", 0) == a.n.get("dup_calls", 0) == ndup,
                "repeated-index lists: %d enumerated, %d refused, %d expected" % (a.n.get("dup_calls", 0), a.n.get("dup_refused", 0), ndup))
    ctx.require(a.n.get("witness_calls", 0) > 1000 and not a.n.get("witness_reference_mismatch"),
                "secrecy witness did not run on the expected number of cases")
    ctx.require(a.n.get("witness_alt_differs", 0) > 900, "secrecy witness never used a different candidate secret")
    ctx.require(a.n.get("kminus1_generic", 0) > 100 and a.n.get("kminus1_degenerate", 0) > 10,
                "(k-1)-subsets: generic and degenerate polynomials were not both met")
    ctx.require(not a.n.get("reference_refused"), "the reference refused share lists the real split() produced")
    ctx.require(len(a.distinct.get("share_values", ())) > 1000, "fewer than 1000 distinct share values: tapes not effective")
    ctx.require(sum(1 for c in cl if c[:2] == ("field", "basis-row")) == 128, "not all 128 basis rows multiplied")
    ctx.require(a.n.get("field_triples", 0) == len(P) ** 3, "not all %d triples evaluated" % len(P) ** 3)
    ctx.require(len(a.distinct.get("basis_products", ())) == 255 and len(a.distinct.get("triple_products", ())) > 300,
                "field products collapse to few values")
    ctx.require(("field", "inverse", True, "ValueError") in cl, "inverse of zero was not refused with ValueError")
    ctx.require(len(a.distinct.get("inverses", ())) >= 380, "fewer than 380 distinct inverses computed")
    ctx.require(any(c[0] == "superset" and not c[3] and c[5] for c in cl), "no superset recombination in native mode")
    ctx.require(any(c[0] == "wide" for c in cl), "wide-index part did not run")


def _dispatch(item):
    name, shard = item
    return globals()[name](shard)


# ---------------------------------------------------------------------------
def replay(case, acc):
    p = case["part"]
    if p == "split":
        check_split(case["k"], case["n"], case["ssss"], G.from_bytes(case["secret"]),
                    tuple(G.from_bytes(c) for c in case["tape"]), acc)
    elif p == "combine-all":
        combine_case(case["k"], case["ssss"], G.from_bytes(case["secret"]), tuple(G.from_bytes(c) for c in case["tape"]), acc)
    elif p == "combine":
        k, ssss = case["k"], case["ssss"]
        secret, tape = G.from_bytes(case["secret"]), tuple(G.from_bytes(c) for c in case["tape"])
        n = max(NMAX, case["n"], max(case["order"])) if case["n"] <= NMAX else case["n"]
        res, _, _ = real_split(k, n, case["secret"], tape, ssss)
        if res[0] != "ok":
            acc.error("replay: split failed: %r" % (res,))
            return
        shares = [(int(i), bytes(v)) for i, v in res[1]]
        if case["kind"] == "k-1-shares":
            judge_kminus1(k, case["n"], ssss, secret, tape, shares, tuple(case["order"]), acc)
        else:
            judge_rebuild(case["kind"], k, case["n"], ssss, secret, tape, shares, tuple(case["order"]), acc)
    elif p == "dup":
        check_dup(case["ssss"], tuple(case["idxs"]), case["variant"], acc)
    elif p == "witness":
        witness_case(case["k"], case["ssss"], G.from_bytes(case["secret"]), tuple(G.from_bytes(c) for c in case["tape"]),
                     tuple(case["J"]), G.from_bytes(case["alt"]), acc)
    elif p == "field":
        law = case["law"]
        if law == "mul":
            field_mul(case["a"], case["b"], acc)
        elif law == "pair":
            field_pair(case["a"], case["b"], acc)
        elif law == "triple":
            field_triple(case["a"], case["b"], case["c"], acc)
        elif law == "inverse":
            field_inverse(case["a"], acc)
        elif law == "codec":
            field_codec(case["a"], acc)
        else:
            acc.error("unknown field law %r" % law)
    else:
        acc.error("unknown replay part %r" % p)
