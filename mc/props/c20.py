"""C20 - Shamir secret sharing: any k shares rebuild the secret, over a true GF(2^128).

Bounded-exhaustive enumeration (ShapeExplorer + TapeExplorer) against the real
Crypto.Protocol.SecretSharing:

* split   : the module's entropy seam `SecretSharing.rng` is a tape; for ALL (k, n), 2 <= k <= n <= 6,
            both ssss modes, all secrets of the element alphabet Phi and all coefficient tapes of a stated
            product alphabet, the returned shares must equal the reference polynomial evaluated with
            exactly the tape's coefficients, exactly k-1 draws of 16 bytes must be made and no other
            entropy source may be touched.
* combine : for every (k, mode, secret, tape) of a stated grid, EVERY k-subset of the 6 real shares in EVERY
            order (k-subsets of n < 6 shares are the subsets with indexes <= n: split(k, n) is verified to be a
            prefix of split(k, 6), and the stateless combine() is not called twice with identical arguments),
            every superset in index order, every (k-1)-subset, every index list with a repeated index.
* secrecy : executable witness of "k-1 shares are consistent with every secret": for every (k-1)-subset J and
            every alternative secret s' of Phi the coefficient tape that maps s' onto the same J-shares is
            computed with the reference (linear algebra) and the REAL split run on that tape must reproduce them.
* field   : _Element laws on Phi (all pairs, all 14^3 triples), all 128 x 128 products of basis monomials and
            inverses of 435 elements against the reference GF(2^128) (reduction by x^128 + x^7 + x^2 + x + 1).

The thorough tier adds (all complete enumerations, none of them in the quick tier):
* split for all 28 (k, n), 2 <= k <= n <= 8;  share counts n = 7 and n = 8: every k-subset (k = 2..n) that contains the new
  share n in every order, supersets and (k-1)-subsets containing it (subsets without it are the calls made for n - 1);
* EVERY threshold k = 7..64 with n = k + 1 (every leave-one-out k-subset, reversed and rotated orders), k = 96, 127, 129;
* wide indexes: k = 4, 5 for n = 300, n = 1025 (k = 2, 3, 4), n = 65537 with k = 3, 4;
* repeated indexes: every list of length 2..7 over the indexes 1..7, lists of length 2..4 over the boundary indexes of n = 300;
* secrecy witness for k = 2..7 over the (k-1)-subsets of 7 shares, 7 base cases, 41 candidate secrets;
* field: all 40^3 triples of the alphabet Psi, every two-term element x^i + x^j times Phi (both orders) and squared,
  inverses of every two-term element, every run of ones, every shifted odd byte and every integer below 4096.
"""
import itertools
import math
import os
import time

from ..common import Acc, short, seeded, seeded_int
from ..ref import gf128 as G

LEVEL = "exploration"
RULE = ("complete enumeration of the stated finite grids: (k, n, mode, secret, coefficient tape) for split; "
        "(k, mode, secret, tape) x every ordered k-subset / superset / (k-1)-subset / repeated-index list of the 6 "
        "shares for combine; (k, mode, base case, (k-1)-subset, alternative secret) for the secrecy witness; element "
        "pairs / triples / basis-monomial pairs for the field laws.  A case is distinct by its full parameter tuple; "
        "distinct_nontrivial counts distinct (part, k, n or index set, mode, outcome class) tuples actually observed "
        "on the real library")
BUDGET = {"quick": 150, "thorough": 1500}

MASK = (1 << 128) - 1
NMAX = 6
KN = [(k, n) for k in range(2, NMAX + 1) for n in range(k, NMAX + 1)]          # the 15 (k, n) pairs
NMAX_T = 8         # thorough tier: split for every (k, n) up to here; share counts NMAX+1..NMAX_T are "layers" (see layer_case)
KN_T = [(k, n) for k in range(2, NMAX_T + 1) for n in range(k, NMAX_T + 1)]    # the 28 (k, n) pairs of the thorough tier
MAXV = 25          # per shard and key: stop enumerating a part after that many failing cases (verdict is decided)


# ---------------------------------------------------------------------------
# element alphabet
# ---------------------------------------------------------------------------
PHI_NAMES = ["0", "1", "x", "x+1", "x^7", "0x87", "x^64", "x^127", "x^127+1", "2^128-1", "0xAA..AA",
             "seeded1", "seeded2", "seeded3"]


def phi():
    return [0, 1, 2, 3, 0x80, 0x87, 1 << 64, 1 << 127, (1 << 127) | 1, MASK, int("AA" * 16, 16)] + \
           [seeded_int("c20/phi/%d" % i, 128) for i in (1, 2, 3)]


def sub(names):
    p = phi()
    return [p[PHI_NAMES.index(n)] for n in names]


# thorough tier, field laws and candidate secrets: Phi plus 26 more boundary patterns
PSI_EXTRA = [("x^2", 4), ("x^6", 0x40), ("x^8", 0x100), ("x^63", 1 << 63), ("x^65", 1 << 65), ("x^120", 1 << 120),
             ("x^121", 1 << 121), ("x^126", 1 << 126), ("x^127+x^126", 3 << 126), ("2^64-1", (1 << 64) - 1),
             ("2^64+1", (1 << 64) + 1), ("2^127-1", (1 << 127) - 1), ("2^128-2", MASK - 1), ("0x87<<1", 0x10E),
             ("0x87>>1", 0x43), ("0x87<<120", 0x87 << 120), ("x^127+0x87", (1 << 127) | 0x87), ("0x55..55", int("55" * 16, 16)),
             ("0x0F..0F", int("0F" * 16, 16)), ("x^64+x^63", 3 << 63), ("0xFF<<60", 0xFF << 60), ("1/x", None), ("1/(x+1)", None),
             ("seeded4", None), ("seeded5", None), ("0xF0..F0", int("F0" * 16, 16))]
PSI_NAMES = PHI_NAMES + [n for n, _ in PSI_EXTRA]


def psi():
    special = {"1/x": lambda: G.gf_inv(2), "1/(x+1)": lambda: G.gf_inv(3),
               "seeded4": lambda: seeded_int("c20/phi/4", 128), "seeded5": lambda: seeded_int("c20/phi/5", 128)}
    return phi() + [v if v is not None else special[n]() for n, v in PSI_EXTRA]


T6N = ["0", "1", "0x87", "x^127+1", "2^128-1", "seeded1"]
T4N = ["0", "1", "2^128-1", "seeded1"]
T3N = ["0", "2^128-1", "seeded1"]
T2N = ["0", "seeded1"]


def b16(v):
    return int(v).to_bytes(16, "big")


def fixed_tapes(k):
    """4 stated tapes (draw order) for the quick tier at k = 5, 6"""
    p = phi()
    s1, s2, s3 = p[11], p[12], p[13]
    gen = [s1, s2, s3, s1 ^ MASK, s2 ^ MASK, s3 ^ MASK, s1 ^ s2][:k - 1]           # k <= 8
    return [tuple([0] * (k - 1)), tuple(gen), tuple([MASK] * (k - 1)), tuple([0] * (k - 2) + [s1])]


# grids: tier -> k -> (secret alphabet names | None = Phi, tape spec)
#   tape spec: ("prod", names | None) = every (k-1)-tuple over that alphabet;  ("fixed",) = fixed_tapes(k);
#              ("generic",) = the one tape of k-1 distinct seeded coefficients (fixed_tapes(k)[1])
SPLIT_GRID = {
    "thorough": {2: (None, ("prod", None)), 3: (None, ("prod", None)), 4: (None, ("prod", T6N)),
                 5: (None, ("prod", T6N)), 6: (None, ("prod", T4N)), 7: (None, ("prod", T3N)), 8: (None, ("prod", T3N))},
    "quick": {2: (None, ("prod", None)), 3: (None, ("prod", None)), 4: (None, ("prod", T4N)),
              5: (None, ("prod", T3N)), 6: (None, ("prod", T3N))},
}
COMBINE_GRID = {
    "thorough": {2: (None, ("prod", None)), 3: (None, ("prod", T6N)), 4: (T6N, ("prod", T4N)),
                 5: (T4N, ("prod", T3N)), 6: (T4N, ("prod", T2N))},
    "quick": {2: (None, ("prod", None)), 3: (T6N, ("prod", T4N)), 4: (T4N, ("prod", T2N)),
              5: (["2^128-1", "seeded1"], ("prod", T2N)), 6: (["2^128-1", "seeded1"], ("fixed",))},
}


# thorough tier only: share counts n = 7, 8 (layer_case): n -> k -> grid
T2S = ["2^128-1", "seeded1"]
LAYER_GRID = {
    7: {2: (None, ("prod", None)), 3: (None, ("prod", T6N)), 4: (T6N, ("prod", T4N)), 5: (T4N, ("prod", T2N)),
        6: (T4N, ("fixed",)), 7: (T4N, ("fixed",))},
    8: {2: (T6N, ("prod", T6N)), 3: (T6N, ("prod", T4N)), 4: (T4N, ("prod", T2N)), 5: (T2S, ("fixed",)),
        6: (T4N, ("generic",)), 7: (T2S, ("generic",)), 8: (T2S, ("generic",))},
}


def grid_cases(spec, k):
    """-> list of (secret int, tape tuple of ints in DRAW order), simplest first"""
    snames, tspec = spec
    secrets = phi() if snames is None else sub(snames)
    if tspec[0] == "prod":
        al = phi() if tspec[1] is None else sub(tspec[1])
        tapes = list(itertools.product(al, repeat=k - 1))
    elif tspec[0] == "generic":
        tapes = fixed_tapes(k)[1:2]
    else:
        tapes = fixed_tapes(k)
    return [(s, t) for s in secrets for t in tapes]


def grid_text(spec, k):
    snames, tspec = spec
    s = "Phi(14)" if snames is None else "{%s}" % ",".join(snames)
    if tspec[0] == "prod":
        t = "%s^%d" % ("Phi(14)" if tspec[1] is None else "{%s}" % ",".join(tspec[1]), k - 1)
    elif tspec[0] == "generic":
        t = "{generic distinct}"
    else:
        t = "{0^(k-1), generic distinct, (2^128-1)^(k-1), leading coefficients 0 and a_1 = seeded1}"
    return "secrets %s x tapes %s" % (s, t)


# ---------------------------------------------------------------------------
# driving the real library
# ---------------------------------------------------------------------------
class Tape:
    """SecretSharing.rng replacement: answers the i-th call with the i-th chunk; every call is recorded"""

    def __init__(self, chunks_):
        self.chunks = [bytes(c) for c in chunks_]
        self.calls = []

    def __call__(self, n):
        i = len(self.calls)
        self.calls.append(n)
        if i < len(self.chunks) and n == len(self.chunks[i]):
            return self.chunks[i]
        return seeded("c20/tape-overrun/%d" % i, n)       # judged by the caller through self.calls


class Trip:
    def __init__(self):
        self.n = 0

    def __call__(self, n):
        self.n += 1
        return seeded("c20/tripwire/%d" % self.n, n)


def real_split(k, n, secret, tape_ints, ssss):
    """-> (('ok', shares) | ('exc', name, msg), tape call sizes, tripwire hits)"""
    import Crypto.Random as CR
    from Crypto.Protocol import SecretSharing as SS
    if not hasattr(SS, "rng"):
        raise RuntimeError("seam Crypto.Protocol.SecretSharing.rng not found")
    tape, trip = Tape([b16(c) for c in tape_ints]), Trip()
    saved = (SS.rng, CR.get_random_bytes, getattr(CR, "urandom", None), os.urandom)
    SS.rng = tape
    CR.get_random_bytes = trip
    os.urandom = trip
    if saved[2] is not None:
        CR.urandom = trip
    try:
        try:
            r = ("ok", SS.Shamir.split(k, n, secret, ssss=ssss))
        except Exception as e:  # noqa
            r = ("exc", type(e).__name__, str(e))
    finally:
        SS.rng, CR.get_random_bytes, os.urandom = saved[0], saved[1], saved[3]
        if saved[2] is not None:
            CR.urandom = saved[2]
    return r, tape.calls, trip.n


def real_combine(shares, ssss):
    from Crypto.Protocol.SecretSharing import Shamir
    try:
        return ("ok", bytes(Shamir.combine(shares, ssss=ssss)))
    except Exception as e:  # noqa
        return ("exc", type(e).__name__, str(e))


def ref_combine(lst, ssss, acc):
    """reference interpolation; None when the reference refuses the list (index 0 etc.: only under a broken split)"""
    try:
        return G.shamir_combine(lst, ssss)
    except ValueError:
        acc.count("reference_refused")
        return None


def mode(ssss):
    return "ssss" if ssss else "native"


def fmt_tape(t):
    return "[" + ",".join("%032x" % c for c in t) + "]"


def fmt_res(r):
    return r[1].hex() if r[0] == "ok" else "%s(%s)" % (r[1], r[2])


# ---------------------------------------------------------------------------
# part 1: split against the reference polynomial, tape accounting
# ---------------------------------------------------------------------------
def check_split(k, n, ssss, secret, tape, acc, part="split"):
    """one split() on a tape.  -> list of (index, 16 bytes) as returned by the library, or None"""
    sb = b16(secret)
    case = {"part": "split", "k": k, "n": n, "ssss": ssss, "secret": sb, "tape": [b16(c) for c in tape]}
    size = (k * 10 + n) * 10000 + secret.bit_length() + sum(c.bit_length() for c in tape)      # simplest case first
    acc.count("evaluations")
    acc.count("split_calls")
    res, calls, tripped = real_split(k, n, sb, tape, ssss)
    what0 = "Shamir.split(%d, %d, %s, ssss=%s) with rng tape %s" % (k, n, sb.hex(), ssss, fmt_tape(tape))
    if tripped:
        acc.error("entropy was requested outside the SecretSharing.rng seam (%d calls to Crypto.Random.get_random_bytes / "
                  "os.urandom during split): the harness no longer owns the coefficients" % tripped)
        return None
    if res[0] != "ok":
        acc.violation("C20/split/raises-%s" % res[1], "%s raised %s: %s" % (what0, res[1], res[2]), case, size=size)
        return None
    try:
        shares = [(int(i), bytes(v)) for i, v in res[1]]
        if any(not isinstance(i, int) or isinstance(i, bool) for i, _ in res[1]):
            raise TypeError("index is not an int")
    except Exception as e:  # noqa
        acc.violation("C20/split/malformed-result", "%s returned %s (%s)" % (what0, short(res[1]), e), case, size=size)
        return None
    acc.count("tape_bytes", sum(calls))
    ok = True
    if sum(calls) < 16 * (k - 1):
        ok = False
        acc.violation("C20/split/fewer-than-k-1-coefficients-drawn",
                      "%s drew %r bytes from the random source; a polynomial of degree k-1 = %d with a fixed constant term "
                      "needs %d random coefficients of 16 bytes" % (what0, calls, k - 1, k - 1), case, size=size)
    elif calls != [16] * (k - 1):
        acc.error("split(k=%d) read the tape as %r, not as k-1 draws of 16 bytes: the tape model of the harness is out of date"
                  % (k, calls))
        return None
    acc.seen("classes", (part, k, n, ssss, "ok"))
    idxs = [i for i, _ in shares]
    if len(shares) != n:
        acc.violation("C20/split/number-of-shares-is-not-n", "%s returned %d shares" % (what0, len(shares)), case, size=size)
        return None
    if len(set(idxs)) != n or any(not 1 <= i <= MASK for i in idxs):
        # index 0 is q(0) = the secret itself (one share < k reveals it); a repeated index cannot be combined
        acc.violation("C20/split/share-index-zero-or-repeated",
                      "%s returned indexes %r: a share with index 0 is the polynomial at 0, i.e. the secret itself (%s), so fewer "
                      "than k shares are NOT consistent with every secret; repeated indexes are refused by combine()"
                      % (what0, idxs[:8], dict(shares).get(0, b"").hex()), case, size=size)
        return shares
    if idxs == list(range(1, n + 1)):
        exp = G.shamir_split(k, n, sb, list(reversed(tape)), ssss)
    else:
        # the statement does not fix the numbering: evaluate the reference polynomial at the indexes really used
        acc.observe("split() numbers the shares differently from the documented 1..n")
        poly = [secret] + list(reversed(tape)) + ([1] if ssss else [])
        exp = [(i, G.to_bytes(G.poly_eval(poly, i))) for i in idxs]
    if shares != exp:
        ok = False
        j = next(i for i in range(len(exp)) if shares[i] != exp[i])
        acc.violation("C20/split/%s/shares-differ-from-polynomial-of-tape-coefficients" % mode(ssss),
                      "%s: share #%d is %s, the polynomial secret + sum a_i X^i%s with the drawn coefficients gives %s"
                      % (what0, exp[j][0], shares[j][1].hex(), " + X^k" if ssss else "", exp[j][1].hex()),
                      case, size=size)
    if ok:
        acc.count("split_ok")
        if len(acc.distinct.get("share_values", ())) < 4000:
            for _, v in shares:
                acc.seen("share_values", v)
    return shares


def split_worker(shard):
    """shard: (k, n, ssss, tier, part index, parts)"""
    k, n, ssss, tier, pi, parts = shard
    acc = Acc()
    cases = grid_cases(SPLIT_GRID[tier][k], k)[pi::parts]
    for secret, tape in cases:
        check_split(k, n, ssss, secret, tape, acc)
    if cases:
        acc.sample({"part": "split", "k": k, "n": n, "ssss": ssss, "secret": b16(secret), "tape_draws": [b16(c) for c in tape],
                    "cases_in_shard": len(cases)})
    return acc


# ---------------------------------------------------------------------------
# part 2: combine - every ordered k-subset, supersets, (k-1)-subsets
# ---------------------------------------------------------------------------
def judge_rebuild(kind, k, n, ssss, secret, tape, shares, order, acc, res=None):
    """`order`: tuple of share indexes (1-based) presented in that order; must give the secret"""
    sb = b16(secret)
    by = dict(shares)
    lst = [(i, by[i]) for i in order]
    if res is None:
        res = real_combine(lst, ssss)
    if res == ("ok", sb):
        return True
    case = {"part": "combine", "kind": kind, "k": k, "n": n, "ssss": ssss, "secret": sb, "tape": [b16(c) for c in tape],
            "order": list(order)}
    srt = tuple(sorted(order))
    what = "secret %s split with k=%d, ssss=%s, tape %s; combine(shares with indexes %r in that order) -> %s" \
        % (sb.hex(), k, ssss, fmt_tape(tape), list(order), fmt_res(res))
    size = ((k * 10 + len(order)) * 10 + sum(1 for a, b in zip(order, srt) if a != b)) * 10000 \
        + secret.bit_length() + sum(c.bit_length() for c in tape)                  # simplest case first
    if tuple(order) != srt and real_combine([(i, by[i]) for i in srt], ssss) == ("ok", sb):
        acc.violation("C20/combine/%s/result-depends-on-the-order-of-shares" % mode(ssss),
                      what + " although the same shares in index order give the secret", case, size=size)
    elif res[0] == "exc":
        acc.violation("C20/combine/%s/%s-raise-%s" % (mode(ssss), kind, res[1]), what, case, size=size)
    else:
        acc.violation("C20/combine/%s/%s-do-not-rebuild-the-secret" % (mode(ssss), kind), what, case, size=size)
    return False


def judge_kminus1(k, n, ssss, secret, tape, shares, order, acc):
    """k-1 shares: must not hand out the secret unless Lagrange interpolation of these very points does"""
    sb = b16(secret)
    by = dict(shares)
    lst = [(i, by[i]) for i in order]
    res = real_combine(lst, ssss)
    ref = ref_combine(lst, ssss, acc)
    if ref is None:
        return
    deg = ref == sb
    acc.seen("classes", ("k-1", k, tuple(order), ssss, "degenerate" if deg else "generic", res[0]))
    acc.count("kminus1_degenerate" if deg else "kminus1_generic")
    if res[0] == "ok" and res[1] == sb and not deg:
        acc.violation("C20/combine/%s/k-1-shares-return-the-secret" % mode(ssss),
                      "secret %s split with k=%d, ssss=%s, tape %s; combine of only %d shares %r returned the secret "
                      "(interpolation of these points gives %s)" % (sb.hex(), k, ssss, fmt_tape(tape), k - 1, list(order), ref.hex()),
                      {"part": "combine", "kind": "k-1-shares", "k": k, "n": n, "ssss": ssss, "secret": sb,
                       "tape": [b16(c) for c in tape], "order": list(order)},
                      size=k * 10000 + secret.bit_length() + sum(c.bit_length() for c in tape))
    elif res != ("ok", ref):
        acc.observe("combine() of k-1 shares differs from plain Lagrange interpolation of the presented points "
                    "(not demanded by the property)")


def combine_case(k, ssss, secret, tape, acc, extras=True, n_max=NMAX):
    """all recombinations for one (k, mode, secret, tape)"""
    sb = b16(secret)
    # split for every n; each must be the reference (and hence a prefix of the n_max one)
    shares = None
    for n in range(k, n_max + 1):
        sh = check_split(k, n, ssss, secret, tape, acc, part="combine-split")
        if sh is None:
            return
        if shares is not None and sh[:len(shares)] != shares:
            acc.violation("C20/split/shares-depend-on-n",
                          "split(%d, n, %s, ssss=%s) with tape %s: the first shares differ between n=%d and n=%d"
                          % (k, sb.hex(), ssss, fmt_tape(tape), n - 1, n),
                          {"part": "combine-all", "k": k, "ssss": ssss, "secret": sb, "tape": [b16(c) for c in tape]})
            return
        shares = sh
    idx = [i for i, _ in shares]
    by = dict(shares)
    bad = 0
    for subset in itertools.combinations(idx, k):
        good = 0
        for order in itertools.permutations(subset):
            acc.count("evaluations")
            acc.count("combine_k_calls")
            # this call stands for the same call in every (k, n) with n >= max index
            acc.count("combine_k_cases_over_kn", n_max - max(subset) + 1)
            res = real_combine([(i, by[i]) for i in order], ssss)
            if res == ("ok", sb):
                good += 1
            else:
                bad += 1
                judge_rebuild("k-shares", k, max(subset), ssss, secret, tape, shares, order, acc, res)
        acc.seen("classes", ("combine", k, subset, ssss, "all-orders-ok" if good else "fails"))
        acc.seen("ordered_subsets", (k, ssss, subset, good))
        if bad >= MAXV:
            return
    if not extras:
        return
    # supersets, presented in index order and in reverse order
    for m in range(k + 1, n_max + 1):
        for subset in itertools.combinations(idx, m):
            for order in (subset, subset[::-1]):
                acc.count("evaluations")
                acc.count("combine_superset_calls")
                res = real_combine([(i, by[i]) for i in order], ssss)
                if not ssss:
                    # split(k) with tape t == split(m) with tape (0,..,0,t): m shares of an m-sharing
                    judge_rebuild("superset-of-shares", k, max(subset), ssss, secret, tape, shares, order, acc, res)
                    acc.seen("classes", ("superset", k, m, ssss, res[0], res[0] == "ok" and res[1] == sb))
                else:
                    ref = ref_combine([(i, by[i]) for i in order], True, acc)
                    if ref is None:
                        continue
                    acc.seen("classes", ("superset", k, m, ssss, res[0], res[0] == "ok" and res[1] == sb))
                    if res == ("ok", ref) and ref != sb:
                        acc.observe("ssss mode: presenting more than k shares does not give the secret (combine removes X^m, "
                                    "m = number of shares presented; documented: pass exactly k shares)")
                    elif res != ("ok", ref):
                        acc.observe("ssss mode: combine of a superset differs from the reference interpolation")
    # (k-1)-subsets
    for subset in itertools.combinations(idx, k - 1):
        for order in (subset, subset[::-1]) if k > 2 else (subset,):
            acc.count("evaluations")
            acc.count("combine_kminus1_calls")
            judge_kminus1(k, max(subset), ssss, secret, tape, shares, order, acc)


def combine_worker(shard):
    """shard: (k, ssss, [(secret, tape, extras)...])"""
    k, ssss, cases = shard
    acc = Acc()
    for secret, tape, extras in cases:
        combine_case(k, ssss, secret, tape, acc, extras)
        acc.count("combine_cases")
    acc.sample({"part": "combine", "k": k, "ssss": ssss, "secret": b16(secret), "tape_draws": [b16(c) for c in tape],
                "ordered_k_subsets_per_case": sum(1 for _ in itertools.permutations(range(NMAX), k))})
    return acc


# ---- thorough tier: share counts n = NMAX+1 .. NMAX_T, one layer per n ------
SSSS_SUPERSET_OBS = ("ssss mode: presenting more than k shares does not give the secret (combine removes X^m, "
                     "m = number of shares presented; documented: pass exactly k shares)")


def layer_case(k, n, ssss, secret, tape, acc, first=None, extras=True):
    """Everything that is NEW when the share count goes from n-1 to n: the recombinations that contain the share with
    index n (those without it are literally the calls made for n-1: combine() is a stateless static method and
    split(k, n-1) is verified here to be a prefix of split(k, n)).  Every k-subset containing share n in every order
    (`first`: only the orders that start with the first-th share, to cut one case into n shards), and with `extras`
    every superset and every (k-1)-subset containing it."""
    sb = b16(secret)
    shares = check_split(k, n, ssss, secret, tape, acc, part="layer-split")
    if shares is None or len(shares) != n:
        return
    if k <= n - 1 and first in (None, 1):
        prev = check_split(k, n - 1, ssss, secret, tape, acc, part="layer-split")
        if prev is None:
            return
        if prev != shares[:n - 1]:
            acc.violation("C20/split/shares-depend-on-n",
                          "split(%d, n, %s, ssss=%s) with tape %s: the first shares differ between n=%d and n=%d"
                          % (k, sb.hex(), ssss, fmt_tape(tape), n - 1, n),
                          {"part": "combine-all", "k": k, "ssss": ssss, "secret": sb, "tape": [b16(c) for c in tape], "n_max": n})
            return
    idx = [i for i, _ in shares]
    by = dict(shares)
    last = idx[-1]
    bad = 0
    for rest in itertools.combinations(idx[:-1], k - 1):
        subset = rest + (last,)
        good = tot = 0
        for order in itertools.permutations(subset):
            if first is not None and order[0] != idx[first - 1]:
                continue
            tot += 1
            acc.count("evaluations")
            acc.count("layer_k_calls")
            res = real_combine([(i, by[i]) for i in order], ssss)
            if res == ("ok", sb):
                good += 1
            else:
                bad += 1
                judge_rebuild("k-shares", k, n, ssss, secret, tape, shares, order, acc, res)
        acc.count("layer_k_ok", good)
        acc.seen("classes", ("layer", k, n, subset, ssss, "all-orders-ok" if good == tot else "fails"))
        acc.seen("layer_subsets", (k, n, ssss, subset))
        if bad >= MAXV:
            return
    if not extras:
        return
    for m in range(k + 1, n + 1):
        for rest in itertools.combinations(idx[:-1], m - 1):
            subset = rest + (last,)
            for order in (subset, subset[::-1]):
                acc.count("evaluations")
                acc.count("layer_superset_calls")
                res = real_combine([(i, by[i]) for i in order], ssss)
                if not ssss:
                    judge_rebuild("superset-of-shares", k, n, ssss, secret, tape, shares, order, acc, res)
                    acc.seen("classes", ("layer-superset", k, m, n, ssss, res[0], res[0] == "ok" and res[1] == sb))
                else:
                    ref = ref_combine([(i, by[i]) for i in order], True, acc)
                    if ref is None:
                        continue
                    acc.seen("classes", ("layer-superset", k, m, n, ssss, res[0], res[0] == "ok" and res[1] == sb))
                    if res == ("ok", ref) and ref != sb:
                        acc.observe(SSSS_SUPERSET_OBS)
                    elif res != ("ok", ref):
                        acc.observe("ssss mode: combine of a superset differs from the reference interpolation")
    for rest in itertools.combinations(idx[:-1], k - 2):
        subset = rest + (last,)
        for order in (subset, subset[::-1]) if k > 2 else (subset,):
            acc.count("evaluations")
            acc.count("layer_kminus1_calls")
            judge_kminus1(k, n, ssss, secret, tape, shares, order, acc)


def layer_worker(shard):
    """shard: (k, n, ssss, [(secret, tape, extras)...], first or None)"""
    k, n, ssss, cases, first = shard
    acc = Acc()
    for secret, tape, extras in cases:
        layer_case(k, n, ssss, secret, tape, acc, first, extras)
        if first in (None, 1):
            acc.count("layer_cases")
    acc.sample({"part": "layer (recombinations containing share n)", "k": k, "n": n, "ssss": ssss, "secret": b16(secret),
                "tape_draws": [b16(c) for c in tape], "orders_starting_with_share": first or "any",
                "ordered_k_subsets_containing_share_n_per_case": math.comb(n - 1, k - 1) * math.factorial(k)})
    return acc


def _ccall(m):
    """rough seconds per combine() of m shares, bookkeeping included"""
    return 0.0005 * m + 0.0004


def layer_cost(k, n, extras=True):
    c = math.comb(n - 1, k - 1) * math.factorial(k) * _ccall(k)
    if extras:
        c += sum(math.comb(n - 1, m - 1) * 2 * 2 * _ccall(m) for m in range(k + 1, n + 1))
        c += math.comb(n - 1, k - 2) * 2 * 2 * _ccall(k - 1)
    return c


# ---- wide indexes: n = 300 (and 65537), subsets over boundary indexes ------
WIDE = {300: [1, 2, 3, 127, 128, 255, 256, 257, 299, 300], 65537: [1, 255, 256, 65535, 65536, 65537],
        1025: [1, 2, 511, 512, 513, 1023, 1024, 1025]}


def wide_case(k, n, ssss, secret, tape, acc, first=None):
    """`first` (thorough tier, k = 5): only the orders that start with that index (one case is cut into shards)"""
    shares = check_split(k, n, ssss, secret, tape, acc, part="wide-split")
    if shares is None:
        return
    by = dict(shares)
    if any(i not in by for i in WIDE[n]):
        return                             # split did not return indexes 1..n: reported by check_split
    sb = b16(secret)
    bad = 0
    for order in itertools.permutations(WIDE[n], k):
        if first is not None and order[0] != first:
            continue
        acc.count("evaluations")
        acc.count("combine_wide_calls")
        res = real_combine([(i, by[i]) for i in order], ssss)
        if res != ("ok", sb):
            bad += 1
            judge_rebuild("k-shares", k, n, ssss, secret, tape, shares, order, acc, res)
            if bad >= MAXV:
                return
    acc.seen("classes", ("wide", k, n, ssss, "ok" if not bad else "fails"))


def wide_worker(shard):
    k, n, ssss, cases = shard[:4]
    first = shard[4] if len(shard) > 4 else None
    acc = Acc()
    for secret, tape in cases:
        wide_case(k, n, ssss, secret, tape, acc, first)
    acc.sample({"part": "wide-indexes", "k": k, "n": n, "ssss": ssss, "indexes": WIDE[n], "cases": len(cases)})
    return acc


def large_worker(shard):
    """Large thresholds (the statement says 'for every threshold k ... with 2 <= k <= n'): k = 16..128, where the ssss term
    X^k reaches degree 128 for small share indexes (2^128, 4^64, 16^32, 256^16 = x^128).  split() against the reference
    polynomial, then combine() of k shares in three orders, one of them containing the critical indexes."""
    k, n, ssss, must = shard
    acc = Acc()
    P = phi()
    secret = P[12]
    tape = tuple(P[11 + (i % 3)] ^ (i * 0x0101010101010101) for i in range(k - 1))
    shares = check_split(k, n, ssss, secret, tape, acc, part="large-split")
    if shares is not None and len(shares) == n:
        idx = [i for i, _ in shares]
        first = tuple(idx[:k])
        withmust = tuple([i for i in must if i in idx] + [i for i in idx if i not in must])[:k]
        for order in {first, tuple(reversed(first)), withmust, tuple(reversed(idx))[:k]}:
            acc.count("evaluations")
            acc.count("combine_large_calls")
            ok = judge_rebuild("k-shares", k, n, ssss, secret, tape, shares, order, acc)
            acc.seen("classes", ("large", k, n, ssss, ok))
    acc.sample({"part": "large-threshold", "k": k, "n": n, "ssss": ssss, "indexes_forced_into_one_subset": list(must)})
    return acc


LARGE2_K = list(range(NMAX + 1, 65))       # thorough tier: EVERY threshold 7..64
DUP_N_T = 7                                # thorough tier: repeated-index lists of length 2..7 over the indexes 1..7
WIT_N_T = 7                                # thorough tier: secrecy witness over the (k-1)-subsets of 7 shares, k = 2..7
SPARSE_SHARDS = 16
INV2_SHARDS = 24


def large2_values(k):
    """two value classes: generic distinct coefficients; secret and all coefficients 2^128-1"""
    P = phi()
    return [(P[12], tuple(P[11 + (i % 3)] ^ (i * 0x0101010101010101) for i in range(k - 1))),
            (MASK, tuple([MASK] * (k - 1)))]


def large2_orders(k, idx, vi):
    """generic values: every k-subset of the n = k+1 shares (leave one out) in index order, the first k shares reversed
    and rotated by k//2; all-ones values: the first k shares and the last k shares reversed"""
    first = tuple(idx[:k])
    if vi == 0:
        return [tuple(i for i in idx if i != out) for out in reversed(idx)] + [first[::-1], first[k // 2:] + first[:k // 2]]
    return [first, tuple(reversed(idx))[:k]]


def large2_worker(shard):
    """shard: ([k...], ssss); n = k + 1"""
    ks, ssss = shard
    acc = Acc()
    for k in ks:
        n = k + 1
        for vi, (secret, tape) in enumerate(large2_values(k)):
            shares = check_split(k, n, ssss, secret, tape, acc, part="large-split")
            if shares is None or len(shares) != n:
                continue
            idx = [i for i, _ in shares]
            allok = True
            for order in large2_orders(k, idx, vi):
                acc.count("evaluations")
                acc.count("combine_large_calls")
                acc.count("combine_large2_calls")
                allok = judge_rebuild("k-shares", k, n, ssss, secret, tape, shares, order, acc) and allok
            acc.seen("classes", ("large2", k, n, ssss, vi, allok))
    acc.sample({"part": "every-threshold", "k": list(ks), "n": "k+1", "ssss": ssss,
                "orders": "every leave-one-out k-subset in index order, first k reversed, first k rotated by k//2"})
    return acc


# ---------------------------------------------------------------------------
# part 3: repeated share indexes must be refused
# ---------------------------------------------------------------------------
def check_dup(ssss, idxs, variant, acc, shares=None, n=NMAX):
    """idxs: index list with at least one repetition; variant 'same': the repeated share is the identical
    tuple; 'other': same index, different share value"""
    m = len(idxs)
    if shares is None:
        shares = dup_shares(m, ssss, n)
    by = dict(shares)
    lst, seen = [], set()
    for i in idxs:
        v = by[i]
        if i in seen and variant == "other":
            v = bytes([v[0] ^ 0x80]) + v[1:15] + bytes([v[15] ^ 1])
        seen.add(i)
        lst.append((i, v))
    acc.count("evaluations")
    acc.count("dup_calls")
    res = real_combine(lst, ssss)
    if res[0] == "ok":
        acc.violation("C20/combine/duplicate-share-index-accepted",
                      "Shamir.combine(%s, ssss=%s): index list %r repeats an index (%s share value) but a result %s was returned"
                      % (short(lst), ssss, list(idxs), "same" if variant == "same" else "different", res[1].hex()),
                      {"part": "dup", "ssss": ssss, "idxs": list(idxs), "variant": variant, "n": n}, size=m)
        return False
    acc.count("dup_refused")
    acc.seen("classes", ("dup", m, ssss, variant, res[1], "Duplicate" in res[2]))
    if res[1] != "ValueError":
        acc.observe("repeated share index refused with %s instead of ValueError" % res[1])
    elif "uplicate" not in res[2]:
        acc.observe("repeated share index refused, but not by the duplicate detection (message: %s)" % res[2])
    return True


_DUP = {}


def dup_shares(m, ssss, n=NMAX):
    key = (m, ssss, n)
    if key not in _DUP:
        p = phi()
        tape = [p[11], p[12], p[13], p[11] ^ MASK, p[12] ^ MASK, p[13] ^ 1][:m - 1]
        res, _, _ = real_split(m, n, b16(p[13] ^ MASK), tape, ssss)
        if res[0] != "ok":
            raise RuntimeError("split failed while preparing the duplicate-index cases: %r" % (res,))
        _DUP[key] = [(int(i), bytes(v)) for i, v in res[1]]
    return _DUP[key]


def dup_worker(shard):
    """shard: (m, ssss, first index or None)"""
    m, ssss, first = shard
    acc = Acc()
    shares = dup_shares(m, ssss)
    bad = 0
    last = None
    ix = [i for i, _ in shares]            # 1..6 (whatever split really returned is what gets repeated)
    for idxs in itertools.product(ix, repeat=m):
        if first is not None and idxs[0] != ix[first - 1]:
            continue
        if len(set(idxs)) == m:
            continue
        for variant in ("same", "other"):
            if not check_dup(ssss, idxs, variant, acc, shares):
                bad += 1
        last = idxs
        if bad >= MAXV:
            break
    acc.sample({"part": "duplicate-indexes", "list_length": m, "ssss": ssss, "last_index_list": list(last or ())})
    return acc


def dup2_worker(shard):
    """thorough tier.  shard: (m, ssss, prefix, n, universe): every index list of length m that starts with `prefix`
    (a tuple of indexes), continues over `universe` (None = all indexes 1..n) and repeats at least one index;
    the shares are those of split(m, n)"""
    m, ssss, prefix, n, universe = shard
    acc = Acc()
    shares = dup_shares(m, ssss, n)
    ix = [i for i, _ in shares] if universe is None else list(universe)
    bad = 0
    last = None
    for tail in itertools.product(ix, repeat=m - len(prefix)):
        idxs = tuple(prefix) + tail
        if len(set(idxs)) == m:
            continue
        for variant in ("same", "other"):
            if not check_dup(ssss, idxs, variant, acc, shares, n):
                bad += 1
        last = idxs
        if bad >= MAXV:
            break
    acc.sample({"part": "duplicate-indexes", "list_length": m, "n": n, "ssss": ssss, "prefix": list(prefix),
                "universe": "1..%d" % n if universe is None else list(universe), "last_index_list": list(last or ())})
    return acc


# ---------------------------------------------------------------------------
# part 4: secrecy witness - k-1 shares are consistent with every candidate secret
# ---------------------------------------------------------------------------
def _mat_inv(M):
    """Gauss-Jordan over the reference field"""
    n = len(M)
    A = [list(r) + [1 if i == j else 0 for j in range(n)] for i, r in enumerate(M)]
    for c in range(n):
        p = next(r for r in range(c, n) if A[r][c])
        A[c], A[p] = A[p], A[c]
        iv = G.gf_inv(A[c][c])
        A[c] = [G.gf_mul(iv, v) for v in A[c]]
        for r in range(n):
            if r != c and A[r][c]:
                f = A[r][c]
                A[r] = [a ^ G.gf_mul(f, b) for a, b in zip(A[r], A[c])]
    return [r[n:] for r in A]


_MINV = {}


def witness_case(k, ssss, secret, tape, J, alt, acc, shares=None, n_max=NMAX):
    """the k-1 shares with indexes J of split(secret, tape) must also come out of split(alt, tape') for the tape'
    the reference computes"""
    sb = b16(secret)
    if shares is None:
        res, _, _ = real_split(k, n_max, sb, tape, ssss)
        if res[0] != "ok":
            return                         # reported by the split part
        shares = [(int(i), bytes(v)) for i, v in res[1]]
    by = dict(shares)
    if any(x not in by for x in J):
        return                             # split did not return indexes 1..n_max: reported by the split part
    if (J, k) not in _MINV:
        _MINV[(J, k)] = _mat_inv([[G.gf_pow(x, i) for i in range(1, k)] for x in J])
    Minv = _MINV[(J, k)]
    rhs = [G.from_bytes(by[x]) ^ alt ^ (G.gf_pow(x, k) if ssss else 0) for x in J]
    coeffs = [0] * (k - 1)                 # a_1 .. a_{k-1}
    for r in range(k - 1):
        v = 0
        for c in range(k - 1):
            v ^= G.gf_mul(Minv[r][c], rhs[c])
        coeffs[r] = v
    tape2 = tuple(reversed(coeffs))        # draw order: a_{k-1} first
    refsh = dict(G.shamir_split(k, n_max, b16(alt), coeffs, ssss))
    if any(refsh[x] != by[x] for x in J):
        # the original shares are not on any reference polynomial for `alt`: only possible if split itself is off
        acc.count("witness_reference_mismatch")
        return
    acc.count("evaluations")
    acc.count("witness_calls")
    res, calls, tripped = real_split(k, n_max, b16(alt), tape2, ssss)
    case = {"part": "witness", "k": k, "ssss": ssss, "secret": sb, "tape": [b16(c) for c in tape], "J": list(J), "alt": b16(alt),
            "n_max": n_max}
    ok = res[0] == "ok" and not tripped
    if ok:
        try:
            got = dict((int(i), bytes(v)) for i, v in res[1])
            ok = all(got.get(x) == by[x] for x in J) and calls == [16] * (k - 1)
        except Exception:  # noqa
            ok = False
    acc.seen("classes", ("witness", k, J, ssss, ok))
    if alt != secret:
        acc.count("witness_alt_differs")
    if not ok:
        acc.violation("C20/secrecy/%s/k-1-shares-exclude-a-candidate-secret" % mode(ssss),
                      "split(k=%d, ssss=%s) of secret %s with tape %s gives shares %r = %s; for candidate secret %s the coefficients "
                      "%s reproduce exactly these shares in the reference polynomial, but the real split() run on that tape does "
                      "not (%s; tape reads %r)"
                      % (k, ssss, sb.hex(), fmt_tape(tape), list(J), short([by[x] for x in J]), b16(alt).hex(), fmt_tape(tape2),
                         res[1] if res[0] == "exc" else "different shares", calls), case,
                      size=k * 10000 + secret.bit_length() + alt.bit_length() + sum(c.bit_length() for c in tape))


def witness_worker(shard):
    """shard: (k, ssss, bases) [quick: 6 shares, candidate secrets Phi] or (k, ssss, bases, n_max, 'psi') [thorough]"""
    k, ssss, bases = shard[:3]
    n_max = shard[3] if len(shard) > 3 else NMAX
    acc = Acc()
    alts = psi() if len(shard) > 4 and shard[4] == "psi" else phi()
    for secret, tape in bases:
        res, _, _ = real_split(k, n_max, b16(secret), tape, ssss)
        if res[0] != "ok":
            continue
        shares = [(int(i), bytes(v)) for i, v in res[1]]
        for J in itertools.combinations(range(1, n_max + 1), k - 1):
            for alt in alts + [secret ^ 1]:
                witness_case(k, ssss, secret, tape, J, alt, acc, shares, n_max)
            if sum(acc.viol_count.values()) >= MAXV:
                break
    acc.sample({"part": "secrecy-witness", "k": k, "ssss": ssss, "base_cases": len(bases),
                "k-1_subsets": sum(1 for _ in itertools.combinations(range(n_max), k - 1)), "candidate_secrets": len(alts) + 1})
    return acc


# ---------------------------------------------------------------------------
# part 5: field laws on Crypto.Protocol.SecretSharing._Element
# ---------------------------------------------------------------------------
def _E():
    from Crypto.Protocol.SecretSharing import _Element
    return _Element


def _val(e):
    return int(e)


def field_mul(a, b, acc, law="mul"):
    """library product a*b (as int) checked against the reference"""
    E = _E()
    acc.count("evaluations")
    acc.count("field_mul")
    try:
        r = _val(E(a) * E(b))
    except Exception as e:  # noqa
        acc.violation("C20/field/multiplication-raises-%s" % type(e).__name__,
                      "_Element(0x%x) * _Element(0x%x) raised %s: %s" % (a, b, type(e).__name__, e),
                      {"part": "field", "law": "mul", "a": a, "b": b}, size=a.bit_length() + b.bit_length())
        return None
    exp = G.gf_mul(a, b)
    if r != exp:
        acc.violation("C20/field/multiplication-differs-from-GF(2^128)-mod-x^128+x^7+x^2+x+1",
                      "_Element(0x%x) * _Element(0x%x) = 0x%x, carry-less product reduced by x^128+x^7+x^2+x+1 is 0x%x"
                      % (a, b, r, exp), {"part": "field", "law": "mul", "a": a, "b": b}, size=a.bit_length() + b.bit_length())
    return r


def field_basis(i, acc):
    for j in range(128):
        r = field_mul(1 << i, 1 << j, acc)
        acc.seen("basis_products", r)
    acc.seen("classes", ("field", "basis-row", i))


def field_pair(a, b, acc):
    E = _E()
    ab = field_mul(a, b, acc)
    ba = field_mul(b, a, acc)
    if ab is not None and ba is not None and ab != ba:
        acc.violation("C20/field/multiplication-not-commutative", "a=0x%x b=0x%x: a*b=0x%x, b*a=0x%x" % (a, b, ab, ba),
                      {"part": "field", "law": "pair", "a": a, "b": b})
    s1, s2 = _val(E(a) + E(b)), _val(E(b) + E(a))
    acc.count("evaluations")
    if s1 != (a ^ b) or s2 != s1 or _val(E(a) + E(a)) != 0:
        acc.violation("C20/field/addition-differs-from-xor", "a=0x%x b=0x%x: a+b=0x%x, b+a=0x%x" % (a, b, s1, s2),
                      {"part": "field", "law": "pair", "a": a, "b": b})
    acc.seen("classes", ("field", "pair", ab == 0, a == b))


def field_triple(a, b, c, acc):
    E = _E()
    ea, eb, ec = E(a), E(b), E(c)
    case = {"part": "field", "law": "triple", "a": a, "b": b, "c": c}
    acc.count("evaluations")
    acc.count("field_triples")
    try:
        ab, bc = ea * eb, eb * ec
        l, r = _val(ab * ec), _val(ea * bc)
        d1, d2 = _val(ea * (eb + ec)), _val(ab + ea * ec)
        e1, e2 = _val((ea + eb) * ec), _val(ea * ec + bc)
    except Exception as e:  # noqa
        acc.violation("C20/field/multiplication-raises-%s" % type(e).__name__, "triple (0x%x, 0x%x, 0x%x): %s" % (a, b, c, e), case)
        return
    acc.count("field_mul", 8)
    ref = G.gf_mul(G.gf_mul(a, b), c)
    size = a.bit_length() + b.bit_length() + c.bit_length()
    if l != r:
        acc.violation("C20/field/multiplication-not-associative",
                      "a=0x%x b=0x%x c=0x%x: (a*b)*c = 0x%x, a*(b*c) = 0x%x" % (a, b, c, l, r), case, size=size)
    if d1 != d2 or e1 != e2:
        acc.violation("C20/field/multiplication-not-distributive-over-addition",
                      "a=0x%x b=0x%x c=0x%x: a*(b+c) = 0x%x, a*b+a*c = 0x%x; (a+b)*c = 0x%x, a*c+b*c = 0x%x"
                      % (a, b, c, d1, d2, e1, e2), case, size=size)
    if l != ref or d1 != G.gf_mul(a, b ^ c):
        acc.violation("C20/field/multiplication-differs-from-GF(2^128)-mod-x^128+x^7+x^2+x+1",
                      "a=0x%x b=0x%x c=0x%x: (a*b)*c = 0x%x, reference 0x%x; a*(b+c) = 0x%x, reference 0x%x"
                      % (a, b, c, l, ref, d1, G.gf_mul(a, b ^ c)), case, size=size)
    acc.seen("triple_products", l)


def field_inverse(a, acc):
    E = _E()
    case = {"part": "field", "law": "inverse", "a": a}
    acc.count("evaluations")
    acc.count("field_inverse")
    try:
        inv = E(a).inverse()
        r = ("ok", _val(inv))
    except Exception as e:  # noqa
        r = ("exc", type(e).__name__, str(e))
    acc.seen("classes", ("field", "inverse", a == 0, r[0] if r[0] == "ok" else r[1]))
    if a == 0:
        if r[0] == "ok":
            acc.violation("C20/field/inverse-of-zero-accepted", "_Element(0).inverse() returned 0x%x" % r[1], case)
        elif r[1] != "ValueError":
            acc.observe("_Element(0).inverse() refused with %s (ValueError expected)" % r[1])
        return
    if r[0] != "ok":
        acc.violation("C20/field/non-zero-element-without-inverse", "_Element(0x%x).inverse() raised %s: %s" % (a, r[1], r[2]),
                      case, size=a.bit_length())
        return
    p1, p2 = _val(E(a) * inv), _val(inv * E(a))
    exp = G.gf_inv(a)
    if p1 != 1 or p2 != 1 or r[1] != exp or not 0 <= r[1] <= MASK:
        acc.violation("C20/field/inverse-is-not-the-multiplicative-inverse",
                      "a=0x%x: a.inverse() = 0x%x (reference 0x%x), a * a.inverse() = 0x%x" % (a, r[1], exp, p1), case,
                      size=a.bit_length())
    acc.seen("inverses", r[1])


def field_codec(a, acc):
    E = _E()
    acc.count("evaluations")
    b = b16(a)
    try:
        ok = E(b).encode() == b and E(a).encode() == b and int(E(b)) == a and E(b) == E(a) and len(E(a).encode()) == 16
        for bad in (b[:15], b + b"\0"):
            try:
                E(bad)
                ok = False
            except ValueError:
                pass
    except Exception as e:  # noqa
        ok = False
    acc.seen("classes", ("field", "codec", ok))
    if not ok:
        acc.violation("C20/field/encode-decode-roundtrip", "_Element round trip int <-> 16 bytes (big endian) fails for 0x%032x" % a,
                      {"part": "field", "law": "codec", "a": a}, size=a.bit_length())


def inverse_set():
    s = list(phi())
    s += [1 << i for i in range(128)]
    s += [(1 << i) - 1 for i in range(2, 129)]
    s += [(1 << i) | 1 for i in range(1, 128)]
    s += list(range(4, 64))
    out, seen = [], set()
    for v in s:
        if v not in seen:
            seen.add(v)
            out.append(v)
    return out


def inverse_set2():
    """thorough tier: every two-term element x^i + x^j, every run of ones (2^len - 1) << shift, every odd byte shifted
    to every bit position, every integer 1..4095 (duplicates removed)"""
    s = [(1 << i) | (1 << j) for i in range(128) for j in range(i)]
    s += [((1 << ln) - 1) << sh for ln in range(1, 129) for sh in range(0, 129 - ln)]
    s += [b << sh for sh in range(0, 121) for b in range(1, 256, 2)]
    s += list(range(1, 4096))
    out, seen = [], set()
    for v in s:
        if v not in seen:
            seen.add(v)
            out.append(v)
    return out


def field_sparse(i, acc):
    """every two-term element e = x^i + x^j (j < i): e * b and b * e for all b of Phi, and e * e"""
    P = phi()
    for j in range(i):
        e = (1 << i) | (1 << j)
        for b in P:
            eb = field_mul(e, b, acc)
            be = field_mul(b, e, acc)
            if eb is not None and be is not None and eb != be:
                acc.violation("C20/field/multiplication-not-commutative", "a=0x%x b=0x%x: a*b=0x%x, b*a=0x%x" % (e, b, eb, be),
                              {"part": "field", "law": "pair", "a": e, "b": b})
        sq = field_mul(e, e, acc)
        acc.seen("sparse_squares", sq)
        acc.count("field_sparse_elements")
    acc.seen("classes", ("field", "sparse-row", i))


def field_misc(acc):
    """pairs, inverses, codec, pow, helper functions, and the out-of-domain behaviours (observations)"""
    from Crypto.Protocol import SecretSharing as SS
    E = SS._Element
    P = phi()
    for a in P:
        for b in P:
            field_pair(a, b, acc)
        for i in range(128):
            field_pair(a, 1 << i, acc)
    for a in inverse_set():
        field_inverse(a, acc)
        field_codec(a, acc)
    # __pow__ (used for the ssss term X^k with small bases); not one of the laws in the statement
    for a in P + [4, 5, 6, 255, 256, 300, 65537]:
        for e in range(0, 9):
            acc.count("evaluations")
            try:
                r = _val(E(a) ** e)
            except Exception as ex:  # noqa
                r = type(ex).__name__
            exp = G.gf_pow(a, e)
            acc.seen("classes", ("field", "pow", e == 0, r == exp))
            if r != exp:
                if e == 0:
                    acc.observe("_Element(a) ** 0 returns a instead of 1 (private helper; split/combine only use exponents >= 1)")
                else:
                    acc.observe("_Element(0x%x) ** %d differs from the reference power" % (a, e))
    # helpers _mult_gf2 / _div_gf2 (used by inverse())
    for a in P:
        for b in P:
            acc.count("evaluations")
            try:
                okm = SS._mult_gf2(a, b) == G._clmul(a, b)
                okd = True
                if b:
                    q, r = SS._div_gf2(a, b)
                    okd = (G._clmul(q, b) ^ r) == a and (r == 0 or r.bit_length() < b.bit_length())
            except Exception:  # noqa
                okm = okd = False
            acc.seen("classes", ("field", "helpers", okm, okd))
            if not okm:
                acc.observe("private helper _mult_gf2 disagrees with the carry-less product for some operands")
            if not okd:
                acc.observe("private helper _div_gf2(a, b) returns (0, a) when a < b as integers although deg a == deg b "
                            "(remainder not reduced, contrary to its docstring); inverse() only needs one more Euclid step and "
                            "agrees with the reference on every element tried")
    edge_observations(acc)


def edge_observations(acc):
    """behaviour outside the domain of the statement (2 <= k <= n, 16-byte values, indexes 1..n): logged, never judged"""
    from Crypto.Protocol import SecretSharing as SS
    E = SS._Element
    s = b16(phi()[11])

    def beh(fn):
        try:
            return "returns %s" % short(fn())
        except Exception as e:  # noqa
            return "raises %s" % type(e).__name__
    obs = [
        ("_Element(2^128 + 5).encode() (integer beyond 128 bits is neither reduced nor refused)", lambda: E((1 << 128) + 5).encode()),
        ("Shamir.combine([]) (no shares)", lambda: SS.Shamir.combine([])),
        ("Shamir.combine with share index 0", lambda: SS.Shamir.combine([(0, s), (1, s)])),
        ("Shamir.combine with share index 2^128 (not a 128-bit element: neither reduced nor refused)",
         lambda: SS.Shamir.combine([(1, s), (1 << 128, s)])),
    ]
    for text, fn in obs:
        acc.count("evaluations")
        b = beh(fn)
        acc.seen("classes", ("edge", text, b.split()[0]))
        acc.observe("outside the stated domain: %s %s" % (text, b))
    for k, n in ((0, 3), (1, 3), (3, 2), (2, 0)):
        acc.count("evaluations")
        res, calls, _ = real_split(k, n, s, [1, 2, 3], False)
        b = "returns %d shares (tape reads %r)" % (len(res[1]), calls) if res[0] == "ok" else "raises %s" % res[1]
        acc.seen("classes", ("edge", "split", k, n, res[0]))
        acc.observe("outside the stated domain: Shamir.split(k=%d, n=%d) %s" % (k, n, b))


def field_worker(shard):
    acc = Acc()
    kind = shard[0]
    if kind == "basis":
        for i in shard[1]:
            field_basis(i, acc)
        acc.sample({"part": "field-basis", "rows_x^i": list(shard[1]), "columns": "x^0..x^127"})
    elif kind == "triples":
        P = phi()
        a = P[shard[1]]
        for b in P:
            for c in P:
                field_triple(a, b, c, acc)
        acc.sample({"part": "field-triples", "a": PHI_NAMES[shard[1]], "b,c": "all of Phi x Phi"})
    elif kind == "misc":
        field_misc(acc)
    elif kind == "triples2":               # thorough tier: alphabet Psi (40 elements)
        Q = psi()
        a = Q[shard[1]]
        for b in Q:
            for c in Q:
                field_triple(a, b, c, acc)
        acc.count("field_triples2", len(Q) ** 2)
        acc.sample({"part": "field-triples", "a": PSI_NAMES[shard[1]], "b,c": "all of Psi x Psi"})
    elif kind == "sparse":
        for i in shard[1]:
            field_sparse(i, acc)
        acc.sample({"part": "field-two-term-elements", "rows_x^i+x^j_for_all_j<i": list(shard[1]), "times": "all of Phi, itself"})
    elif kind == "inverses2":
        els = inverse_set2()[shard[1]::shard[2]]
        for a in els:
            field_inverse(a, acc)
            field_codec(a, acc)
        acc.count("field_inverse2", len(els))
        acc.sample({"part": "field-inverses", "elements_in_shard": len(els), "last": "0x%x" % els[-1]})
    return acc


# ---------------------------------------------------------------------------
def _cost(k):
    """rough seconds per combine case (all ordered k-subsets of 6 shares)"""
    return {2: 0.05, 3: 0.22, 4: 0.7, 5: 1.6, 6: 1.9}[k]


def run(ctx):
    q = ctx.quick
    tier = "quick" if q else "thorough"
    G.selftest()
    from Crypto.Protocol import SecretSharing as SS
    if not hasattr(SS, "rng") or not hasattr(SS, "_Element"):
        ctx.acc.error("seam Crypto.Protocol.SecretSharing.rng / _Element not found")
        return
    P = phi()
    ctx.require(len(set(P)) == len(P) == len(PHI_NAMES), "element alphabet has colliding members")
    T4 = set(sub(T4N))
    shards = []           # (estimated cost, worker, shard)
    # combine
    ncomb = {}
    for k in range(2, NMAX + 1):
        cases = grid_cases(COMBINE_GRID[tier][k], k)
        ncomb[k] = len(cases)
        # supersets and (k-1)-subsets: on every case for k >= 4; for k = 2, 3 on the sub-grid secret in T4, tape in T4^(k-1)
        cs = [(s, t, k >= 4 or (s in T4 and all(c in T4 for c in t))) for s, t in cases]
        per = max(1, int(6.0 / _cost(k)))
        for ssss in (False, True):
            for i in range(0, len(cs), per):
                shards.append((_cost(k) * len(cs[i:i + per]), combine_worker, (k, ssss, cs[i:i + per])))
    # thorough tier: share counts n = 7, 8 (everything that contains the new share)
    nlayer = {}
    if not q:
        for n in sorted(LAYER_GRID):
            for k in range(2, n + 1):
                cases = grid_cases(LAYER_GRID[n][k], k)
                nlayer[(k, n)] = len(cases)
                cs = [(s, t, k >= 4 or (s in T4 and all(c in T4 for c in t))) for s, t in cases]
                c1 = layer_cost(k, n)
                for ssss in (False, True):
                    if c1 > 10.0:
                        # one case is cut into n shards by the share the order starts with
                        for cse in cs:
                            for first in range(1, n + 1):
                                shards.append((c1 / n, layer_worker, (k, n, ssss, [cse], first)))
                    else:
                        per = max(1, int(6.0 / c1))
                        for i in range(0, len(cs), per):
                            grp = cs[i:i + per]
                            shards.append((sum(layer_cost(k, n, e) for _, _, e in grp), layer_worker, (k, n, ssss, grp, None)))
    # wide indexes
    s1, allones = P[11], MASK
    for ssss in (False, True):
        for k in (2, 3):
            secrets = [s1] if q else [allones, s1]
            tapes = list(itertools.product([0, s1] if k == 3 else [0, allones, s1], repeat=k - 1))
            for sec in secrets:
                shards.append((1.5 * len(tapes), wide_worker, (k, 300, ssss, [(sec, t) for t in tapes])))
        if not q:
            shards.append((6, wide_worker, (2, 65537, ssss, [(s1, (P[12],)), (allones, (0,))])))
            shards.append((8, wide_worker, (3, 65537, ssss, [(s1, (P[12], P[13])), (allones, (0, s1))])))
            shards.append((5, wide_worker, (4, 65537, ssss, [(s1, fixed_tapes(4)[1])])))
            for sec in (allones, s1):
                for t in fixed_tapes(4):
                    shards.append((8.0, wide_worker, (4, 300, ssss, [(sec, t)])))
                for k in (2, 3):
                    tapes = list(itertools.product([0, allones, s1], repeat=k - 1))
                    shards.append((0.3 * len(tapes), wide_worker, (k, 1025, ssss, [(sec, t) for t in tapes])))
                shards.append((11.0, wide_worker, (4, 1025, ssss, [(sec, t) for t in fixed_tapes(4)])))
            # k = 5 over the 10 boundary indexes of n = 300: 30240 orders per case, cut by the first index
            for cse in ((s1, fixed_tapes(5)[1]), (allones, fixed_tapes(5)[3])):
                for first in WIDE[300]:
                    shards.append((7.0, wide_worker, (5, 300, ssss, [cse], first)))
    # large thresholds (both modes): (k, n, indexes that must appear together in one k-subset)
    # (40 shares 1..40 and 24 shares with the indexes 232..255: the products of share indexes in the Lagrange terms pass degree 128)
    for k, n, must in ([(16, 257, (256, 257)), (32, 32, (16, 17)), (40, 40, (2, 3)), (24, 257, tuple(range(232, 256))),
                        (40, 257, tuple(range(216, 256)))] +      # k * deg(index) = 280: X^k is reduced more than once
                       ([] if q else [(64, 64, (4, 5)), (128, 128, (2, 3)), (17, 40, (16, 17)), (33, 40, (2, 3, 4, 5))])):
        for ssss in (False, True):
            shards.append((4.0, large_worker, (k, n, ssss, must)))
    if not q:
        for k, n, must in [(96, 96, (2, 3)), (127, 128, (2, 3)), (129, 130, (2, 3))]:
            for ssss in (False, True):
                shards.append((4.0, large_worker, (k, n, ssss, must)))
        # every threshold 7..64, n = k + 1
        c2 = lambda k: (k + 5) * 0.000035 * k * k + 0.02                           # noqa: E731
        for ssss in (False, True):
            grp = []
            for k in LARGE2_K:
                grp.append(k)
                if sum(c2(j) for j in grp) >= 3.0 or k == LARGE2_K[-1]:
                    shards.append((sum(c2(j) for j in grp), large2_worker, (tuple(grp), ssss)))
                    grp = []
    # split
    nsplit = {}
    for k, n in (KN if q else KN_T):
        cases = len(grid_cases(SPLIT_GRID[tier][k], k))
        nsplit[(k, n)] = cases
        parts = max(1, cases // 1500)
        for ssss in (False, True):
            for pi in range(parts):
                shards.append((cases / parts * 0.0012, split_worker, (k, n, ssss, tier, pi, parts)))
    # duplicates
    ND = NMAX if q else DUP_N_T
    for m in range(2, ND + 1):
        for ssss in (False, True):
            if q:
                if m >= 5:
                    for first in range(1, NMAX + 1):
                        shards.append((1.0, dup_worker, (m, ssss, first)))
                else:
                    shards.append((0.3, dup_worker, (m, ssss, None)))
            else:
                # every list of length m over the indexes 1..7; cut by the first max(0, m - 5) indexes
                for prefix in itertools.product(range(1, ND + 1), repeat=max(0, m - 5)):
                    shards.append((ND ** min(m, 5) * 0.00008, dup2_worker, (m, ssss, prefix, ND, None)))
    if not q:
        for m in (2, 3, 4):
            for ssss in (False, True):
                shards.append((0.5, dup2_worker, (m, ssss, (), 300, tuple(WIDE[300]))))
    # secrecy witness
    nbases = 0
    for k in range(2, (NMAX if q else WIT_N_T) + 1):
        gen = fixed_tapes(k)[1]
        bases = [(P[12], gen), (0, tuple([0] * (k - 1))), (MASK, tuple([MASK] * (k - 2) + [1]))]
        if not q:
            bases += [(P[13], tuple([0] * (k - 2) + [P[11]])), (1, tuple(reversed(gen))),
                      (P[11], tuple([P[11]] * (k - 1))), (1 << 127, tuple([MASK, 0] * k)[:k - 1])]
        nbases = len(bases)
        for ssss in (False, True):
            for b in bases:
                if q:
                    shards.append((0.6, witness_worker, (k, ssss, [b])))
                else:
                    shards.append((math.comb(WIT_N_T, k - 1) * 41 * 0.004, witness_worker, (k, ssss, [b], WIT_N_T, "psi")))
    # field
    for i in range(0, 128, 8):
        shards.append((0.5, field_worker, ("basis", list(range(i, i + 8)))))
    for ai in range(len(P)):
        shards.append((1.2, field_worker, ("triples", ai)))
    shards.append((2.0, field_worker, ("misc",)))
    if not q:
        Q = psi()
        ctx.require(len(set(Q)) == len(Q) == len(PSI_NAMES) == 40 and Q[:len(P)] == P, "alphabet Psi has colliding members")
        for ai in range(len(Q)):
            shards.append((3.0, field_worker, ("triples2", ai)))
        for r in range(SPARSE_SHARDS):
            rows = list(range(127 - r, 0, -SPARSE_SHARDS))
            shards.append((sum(rows) * 29 * 0.00025, field_worker, ("sparse", rows)))
        for pi in range(INV2_SHARDS):
            shards.append((len(inverse_set2()) / INV2_SHARDS * 0.0012, field_worker, ("inverses2", pi, INV2_SHARDS)))

    shards.sort(key=lambda s: -s[0])
    ctx.pmap(_dispatch, [(fn.__name__, sh) for _, fn, sh in shards])

    a = ctx.acc
    cl = a.distinct.get("classes", set())
    if not a.viol:
        _guards(ctx, a, cl, P, nsplit, ncomb)
        if not q:
            _guards_thorough(ctx, a, cl, nlayer, nbases)

    ctx.coverage_extra.update({
        "evaluations": a.n.get("evaluations", 0),
        "distinct_nontrivial": len(cl),
        "exhaustive": not a.caps,
        "kn_pairs": len(KN), "modes": ["native", "ssss"],
        "element_alphabet_Phi": PHI_NAMES,
        "split": {"cases_per_(k,n,mode)": {"k=%d" % k: nsplit[(k, NMAX)] for k in range(2, NMAX + 1)},
                  "grid": {"k=%d" % k: grid_text(SPLIT_GRID[tier][k], k) for k in range(2, NMAX + 1)},
                  "split_calls_total": a.n.get("split_calls", 0), "tape_bytes_consumed": a.n.get("tape_bytes", 0),
                  "distinct_share_values": len(a.distinct.get("share_values", ()))},
        "combine": {"cases_per_(k,mode)": {"k=%d" % k: ncomb[k] for k in ncomb},
                    "grid": {"k=%d" % k: grid_text(COMBINE_GRID[tier][k], k) for k in ncomb},
                    "ordered_k_subsets_per_case": {"k=%d" % k: math.perm(NMAX, k) for k in ncomb},
                    "combine_calls_on_ordered_k_subsets": a.n.get("combine_k_calls", 0),
                    "the_same_counted_per_(k,n)_pair": a.n.get("combine_k_cases_over_kn", 0),
                    "superset_calls": a.n.get("combine_superset_calls", 0),
                    "k-1_subset_calls": a.n.get("combine_kminus1_calls", 0),
                    "k-1_generic/degenerate": [a.n.get("kminus1_generic", 0), a.n.get("kminus1_degenerate", 0)],
                    "wide_index_calls (n=300%s)" % ("" if q else ", 65537"): a.n.get("combine_wide_calls", 0),
                    "repeated_index_lists_refused": a.n.get("dup_refused", 0)},
        "secrecy": {"witness_splits": a.n.get("witness_calls", 0),
                    "theorem": "shares == reference polynomial q(X) = s + a_1 X + .. + a_{k-1} X^{k-1} (+X^k) for exactly the k-1 drawn "
                               "16-byte coefficients (checked on every split above); for any k-1 distinct non-zero indexes the map "
                               "(a_1..a_{k-1}) -> (q(x_j))_j is a bijection of GF(2^128)^(k-1) for every fixed s (Vandermonde), so k-1 "
                               "shares are equally consistent with every secret.  The witness executes this on the real split()."},
        "field": {"basis_monomial_pairs": 128 * 128, "triples": len(P) ** 3, "inverses": a.n.get("field_inverse", 0),
                  "library_multiplications": a.n.get("field_mul", 0)},
    })
    if q:
        ctx.assume("n <= 6 for the complete subset/order enumeration (plus n = 300 over boundary indexes for k = 2, 3); secrets and "
                   "coefficients range over the stated alphabets, not over all 2^128 values")
    else:
        kmax = NMAX_T
        lay = sorted(LAYER_GRID)
        ctx.coverage_extra["kn_pairs"] = len(KN_T)
        ctx.coverage_extra["element_alphabet_Psi (field triples, candidate secrets of the witness)"] = PSI_NAMES
        ctx.coverage_extra["split"]["cases_per_(k,n,mode)"] = {"k=%d" % k: nsplit[(k, kmax)] for k in range(2, kmax + 1)}
        ctx.coverage_extra["split"]["grid"] = {"k=%d" % k: grid_text(SPLIT_GRID[tier][k], k) for k in range(2, kmax + 1)}
        ctx.coverage_extra["split"]["(k,n)_pairs"] = "all 28 with 2 <= k <= n <= 8"
        comb = ctx.coverage_extra["combine"]
        del comb["wide_index_calls (n=300, 65537)"]
        comb["wide_index_calls (n=300: k=2,3,4,5; n=1025: k=2,3,4; n=65537: k=2,3,4)"] = a.n.get("combine_wide_calls", 0)
        comb["wide_index_sets"] = {"n=%d" % n: WIDE[n] for n in sorted(WIDE)}
        comb["repeated_index_lists"] = ("every list of length 2..%d over the indexes 1..%d, every list of length 2..4 over the boundary "
                                        "indexes of n=300, each with the repeated share identical and with a different value" % (DUP_N_T, DUP_N_T))
        ctx.coverage_extra["layers (share counts n = 7, 8: every recombination that contains share n)"] = {
            "cases_per_(k,n,mode)": {"n=%d" % n: {"k=%d" % k: nlayer[(k, n)] for k in range(2, n + 1)} for n in lay},
            "grid": {"n=%d" % n: {"k=%d" % k: grid_text(LAYER_GRID[n][k], k) for k in range(2, n + 1)} for n in lay},
            "ordered_k_subsets_containing_share_n_per_case": {"n=%d" % n: {"k=%d" % k: math.comb(n - 1, k - 1) * math.factorial(k)
                                                                            for k in range(2, n + 1)} for n in lay},
            "combine_calls_on_ordered_k_subsets": a.n.get("layer_k_calls", 0),
            "superset_calls": a.n.get("layer_superset_calls", 0), "k-1_subset_calls": a.n.get("layer_kminus1_calls", 0),
            "extras": "supersets and (k-1)-subsets containing share n: every case for k >= 4; k = 2, 3: secret in T4, tape in T4^(k-1)"}
        ctx.coverage_extra["large_thresholds"] = {
            "every_k": "%d..%d with n = k+1, both modes; generic values: all k+1 leave-one-out k-subsets in index order, first k "
                       "shares reversed and rotated by k//2; secret = coefficients = 2^128-1: first k shares, last k shares reversed"
                       % (LARGE2_K[0], LARGE2_K[-1]),
            "single_(k,n)": [[16, 257], [32, 32], [64, 64], [128, 128], [17, 40], [33, 40], [96, 96], [127, 128], [129, 130]],
            "combine_calls": a.n.get("combine_large_calls", 0)}
        ctx.coverage_extra["secrecy"]["grid"] = ("k = 2..%d, both modes, %d base cases, every (k-1)-subset of %d shares, candidate secrets "
                                                 "Psi(40) + {secret xor 1}" % (WIT_N_T, nbases, WIT_N_T))
        ctx.coverage_extra["field"] = {
            "basis_monomial_pairs": 128 * 128, "triples": "Phi^3 (%d) and Psi^3 (%d)" % (len(P) ** 3, len(PSI_NAMES) ** 3),
            "two_term_elements_x^i+x^j": a.n.get("field_sparse_elements", 0),
            "two_term_products": "each two-term element times every element of Phi in both orders, and squared",
            "inverses": a.n.get("field_inverse", 0),
            "inverse_set": "quick set (435) + every x^i+x^j, every ((2^len)-1)<<shift below 2^128, every odd byte << 0..120, every "
                           "integer 1..4095 (%d distinct)" % len(inverse_set2()),
            "library_multiplications": a.n.get("field_mul", 0)}
        ctx.assume("n <= 8 for the complete subset/order enumeration: n <= 6 on the combine grid, n = 7 and n = 8 as layers (every "
                   "ordered k-subset, superset and (k-1)-subset that contains share n) on their own grids; every threshold k = 7..64 with "
                   "n = k+1 over the leave-one-out subsets only; n = 300, 1025, 65537 over boundary indexes for k = 2, 3, 4 (n = 300: also 5); secrets and "
                   "coefficients range over the stated alphabets, not over all 2^128 values")
    ctx.assume("combine() is a stateless static method: a k-subset of the n < 6 first shares is the same call as for n = 6 (split(k, n) "
               "is verified to be a prefix of split(k, 6) on the real library for every case) and is executed once"
               + ("" if q else "; likewise a subset of n = 7 (8) shares that does not contain share 7 (8) is a call of n = 6 (7), "
                  "split(k, n-1) being verified to be a prefix of split(k, n) for every layer case"))
    ctx.assume("entropy seam: module attribute Crypto.Protocol.SecretSharing.rng; Crypto.Random.get_random_bytes and os.urandom are "
               "tripwired during every split()")
    ctx.assume("outside the domain of the statement and therefore logged only: k < 2, k > n, share index 0 or >= 2^128, empty share "
               "list, _Element ** 0, more than k shares in ssss mode, the value combine() returns for k-1 shares")
    ctx.assume("repeated indexes: every index list of length 2..%d over the indexes 1..%d with at least one repetition, the repeated "
               "share once identical and once with a different value, both modes" % ((NMAX, NMAX) if q else (DUP_N_T, DUP_N_T)))
    ctx.assume("any exception counts as refusal of a repeated index (ValueError observed); the message tells whether the duplicate "
               "detection or the inversion of zero refused")


def _guards(ctx, a, cl, P, nsplit, ncomb):
    """vacuity guards: they protect a SILENT verdict (with violations on record enumerations are cut short)"""
    for part in ("split", "combine-split"):
        got = {(c[1], c[2], c[3]) for c in cl if c[0] == part}
        kn = KN_T if part == "split" and not ctx.quick else KN
        ctx.require(got == {(k, n, s) for k, n in kn for s in (False, True)},
                    "%s: not all %d (k, n) pairs x 2 modes were executed" % (part, len(kn)))
    ctx.require(a.n.get("split_calls", 0) >= 2 * sum(nsplit.values()), "fewer split() cases than the grid defines")
    ctx.require(a.n.get("tape_bytes", 0) > 0 and a.n.get("split_ok", 0) == a.n.get("split_calls", 0),
                "split bookkeeping inconsistent")
    exp_k = sum(2 * ncomb[k] * math.perm(NMAX, k) for k in ncomb)
    ctx.require(a.n.get("combine_k_calls", 0) == exp_k,
                "ordered k-subset count %d differs from the grid (%d)" % (a.n.get("combine_k_calls", 0), exp_k))
    osub = a.distinct.get("ordered_subsets", ())
    ctx.require(len({(c[0], c[1], c[2]) for c in osub}) == 2 * sum(math.comb(NMAX, k) for k in range(2, NMAX + 1)),
                "not every k-subset of the 6 shares was presented in both modes")
    ctx.require(all(c[3] == math.factorial(c[0]) for c in osub), "a k-subset was not recombined in all k! orders")
    ND = NMAX if ctx.quick else DUP_N_T
    ndup = 2 * 2 * sum(ND ** m - math.perm(ND, m) for m in range(2, ND + 1))
    if not ctx.quick:
        ndup += 2 * 2 * sum(len(WIDE[300]) ** m - math.perm(len(WIDE[300]), m) for m in (2, 3, 4))
    ctx.require(a.n.get("dup_refused", 0) == a.n.get("dup_calls", 0) == ndup,
                "repeated-index lists: %d enumerated, %d refused, %d expected" % (a.n.get("dup_calls", 0), a.n.get("dup_refused", 0), ndup))
    ctx.require(a.n.get("witness_calls", 0) > 1000 and not a.n.get("witness_reference_mismatch"),
                "secrecy witness did not run on the expected number of cases")
    ctx.require(a.n.get("witness_alt_differs", 0) > 900, "secrecy witness never used a different candidate secret")
    ctx.require(a.n.get("kminus1_generic", 0) > 100 and a.n.get("kminus1_degenerate", 0) > 10,
                "(k-1)-subsets: generic and degenerate polynomials were not both met")
    ctx.require(not a.n.get("reference_refused"), "the reference refused share lists the real split() produced")
    ctx.require(len(a.distinct.get("share_values", ())) > 1000, "fewer than 1000 distinct share values: tapes not effective")
    ctx.require(sum(1 for c in cl if c[:2] == ("field", "basis-row")) == 128, "not all 128 basis rows multiplied")
    ntri = len(P) ** 3 + (0 if ctx.quick else len(PSI_NAMES) ** 3)
    ctx.require(a.n.get("field_triples", 0) == ntri, "not all %d triples evaluated" % ntri)
    ctx.require(len(a.distinct.get("basis_products", ())) == 255 and len(a.distinct.get("triple_products", ())) > 300,
                "field products collapse to few values")
    ctx.require(("field", "inverse", True, "ValueError") in cl, "inverse of zero was not refused with ValueError")
    ctx.require(len(a.distinct.get("inverses", ())) >= 380, "fewer than 380 distinct inverses computed")
    ctx.require(any(c[0] == "superset" and not c[3] and c[5] for c in cl), "no superset recombination in native mode")
    ctx.require(any(c[0] == "wide" for c in cl), "wide-index part did not run")


def _guards_thorough(ctx, a, cl, nlayer, nbases):
    """vacuity guards of the dimensions only the thorough tier has"""
    lay = sorted(LAYER_GRID)
    got = {(c[1], c[2], c[3]) for c in cl if c[0] == "layer-split"}
    exp = {(k, m, s) for n in lay for k in range(2, n + 1) for m in (n - 1, n) if m >= k for s in (False, True)}
    ctx.require(got == exp, "layers: not every (k, n), n = 7, 8 (and its predecessor n-1) x 2 modes was split")
    exp_k = sum(2 * nlayer[(k, n)] * math.comb(n - 1, k - 1) * math.factorial(k) for (k, n) in nlayer)
    ctx.require(a.n.get("layer_k_calls", 0) == a.n.get("layer_k_ok", 0) == exp_k,
                "layers: %d ordered k-subsets recombined, %d gave the secret, the grid defines %d"
                % (a.n.get("layer_k_calls", 0), a.n.get("layer_k_ok", 0), exp_k))
    ctx.require(a.n.get("layer_cases", 0) == 2 * sum(nlayer.values()), "layers: number of cases differs from the grid")
    ctx.require(len(a.distinct.get("layer_subsets", ())) == 2 * sum(2 ** (n - 1) - 1 for n in lay),
                "layers: not every k-subset containing share n was presented in both modes")
    ctx.require(all(any(c[0] == "layer-superset" and c[3] == n and not c[4] and c[6] for c in cl) for n in lay)
                and a.n.get("layer_kminus1_calls", 0) > 1000, "layers: supersets / (k-1)-subsets did not run")
    gl = {(c[1], c[3], c[4]) for c in cl if c[0] == "large2" and c[5]}
    ctx.require(gl == {(k, s, v) for k in LARGE2_K for s in (False, True) for v in (0, 1)},
                "every-threshold part: not every k = %d..%d x 2 modes x 2 value classes rebuilt the secret" % (LARGE2_K[0], LARGE2_K[-1]))
    ctx.require(a.n.get("combine_large2_calls", 0) == 2 * sum(k + 5 for k in LARGE2_K), "every-threshold part: call count")
    ctx.require({(c[1], c[2]) for c in cl if c[0] == "large" and c[4]} >=
                {(16, 257), (32, 32), (64, 64), (128, 128), (17, 40), (33, 40), (96, 96), (127, 128), (129, 130)},
                "large thresholds: not every stated (k, n) rebuilt the secret")
    ctx.require({(c[1], c[2], c[3]) for c in cl if c[0] == "wide" and c[4] == "ok"} ==
                {(k, n, s) for k in (2, 3, 4) for n in (300, 1025, 65537) for s in (False, True)} | {(5, 300, False), (5, 300, True)},
                "wide indexes: not every (k, n), k = 2, 3, 4, n = 300, 1025, 65537 and (5, 300) ran in both modes")
    ctx.require(a.n.get("combine_wide_calls", 0) >= 2 * 2 * math.perm(len(WIDE[300]), 5), "wide indexes: k = 5 did not run on all orders")
    nwit = 2 * nbases * (len(PSI_NAMES) + 1) * sum(math.comb(WIT_N_T, k - 1) for k in range(2, WIT_N_T + 1))
    ctx.require(a.n.get("witness_calls", 0) == nwit, "secrecy witness: %d splits, %d expected" % (a.n.get("witness_calls", 0), nwit))
    ctx.require(all(c[4] for c in cl if c[0] == "witness") and
                len({(c[1], c[2], c[3]) for c in cl if c[0] == "witness"}) == 2 * (2 ** WIT_N_T - 2),
                "secrecy witness: not every (k-1)-subset of the %d shares, k = 2..%d, in both modes" % (WIT_N_T, WIT_N_T))
    ctx.require(a.n.get("field_sparse_elements", 0) == 128 * 127 // 2 and
                sum(1 for c in cl if c[:2] == ("field", "sparse-row")) == 127 and
                len(a.distinct.get("sparse_squares", ())) == 128 * 127 // 2,
                "field: not all 8128 two-term elements were multiplied (squaring is injective: 8128 distinct squares expected)")
    ctx.require(a.n.get("field_inverse2", 0) == len(inverse_set2()) and
                len(a.distinct.get("inverses", ())) >= len(inverse_set2()),
                "field: not every element of the large inverse set was inverted to a distinct value")


def _dispatch(item):
    name, shard = item
    t0 = time.process_time()
    acc = globals()[name](shard)
    acc.count("_cpu/" + name, time.process_time() - t0)        # per-part CPU seconds (hidden counter, for calibration only)
    return acc


# ---------------------------------------------------------------------------
def replay(case, acc):
    p = case["part"]
    if p == "split":
        check_split(case["k"], case["n"], case["ssss"], G.from_bytes(case["secret"]),
                    tuple(G.from_bytes(c) for c in case["tape"]), acc)
    elif p == "combine-all":
        combine_case(case["k"], case["ssss"], G.from_bytes(case["secret"]), tuple(G.from_bytes(c) for c in case["tape"]), acc,
                     n_max=case.get("n_max", NMAX))
    elif p == "combine":
        k, ssss = case["k"], case["ssss"]
        secret, tape = G.from_bytes(case["secret"]), tuple(G.from_bytes(c) for c in case["tape"])
        n = max(NMAX, case["n"], max(case["order"])) if case["n"] <= NMAX else case["n"]
        res, _, _ = real_split(k, n, case["secret"], tape, ssss)
        if res[0] != "ok":
            acc.error("replay: split failed: %r" % (res,))
            return
        shares = [(int(i), bytes(v)) for i, v in res[1]]
        if case["kind"] == "k-1-shares":
            judge_kminus1(k, case["n"], ssss, secret, tape, shares, tuple(case["order"]), acc)
        else:
            judge_rebuild(case["kind"], k, case["n"], ssss, secret, tape, shares, tuple(case["order"]), acc)
    elif p == "dup":
        check_dup(case["ssss"], tuple(case["idxs"]), case["variant"], acc, n=case.get("n", NMAX))
    elif p == "witness":
        witness_case(case["k"], case["ssss"], G.from_bytes(case["secret"]), tuple(G.from_bytes(c) for c in case["tape"]),
                     tuple(case["J"]), G.from_bytes(case["alt"]), acc, n_max=case.get("n_max", NMAX))
    elif p == "field":
        law = case["law"]
        if law == "mul":
            field_mul(case["a"], case["b"], acc)
        elif law == "pair":
            field_pair(case["a"], case["b"], acc)
        elif law == "triple":
            field_triple(case["a"], case["b"], case["c"], acc)
        elif law == "inverse":
            field_inverse(case["a"], acc)
        elif law == "codec":
            field_codec(case["a"], acc)
        else:
            acc.error("unknown field law %r" % law)
    else:
        acc.error("unknown replay part %r" % p)
