"""Reference RC2 (RFC 2268), pure Python, standard library only.  Helper of the C02 driver.

Written from the RFC text: key expansion (section 2) with an arbitrary effective key
length T1 in bits, MIX / MASH rounds (section 3) and their inverses (section 4).
PITABLE is the table printed in RFC 2268 section 2 (a permutation of 0..255 derived
from the digits of pi); selftest() checks that it is a permutation and runs all eight
test vectors of RFC 2268 section 5 through this implementation (no library involved).
"""

PITABLE = bytes.fromhex(
    "d978f9c419ddb5ed28e9fd794aa0d89dc67e37832b76538e624c6488448bfba2"
    "179a59f587b34f1361456d8d09817d32bd8f40eb86b77b0bf09521225c6b4e82"
    "54d66593ce60b21c7356c014a78cf1dc1275ca1f3bbee4d1423dd430a33cb626"
    "6fbf0eda4669075727f21d9bbc944303f811c7f690ef3ee706c3d52fc8661ed7"
    "08e8eade8052eef784aa72ac354d6a2a961ad2715a1549744b9fd05e0418a4ec"
    "c2e0416e0f51cbcc2491af50a1f47039997c3a8523b8b47afc02365b25559731"
    "2d5dfa98e38a92ae05df2910676cbac9d300e6cfe19ea82c6316013f58e289a9"
    "0d38341bab33ffb0bb480c5fb9b1cd2ec5f3db47e5a59c770aa62068fe7fc1ad")

_S = (1, 2, 3, 5)


class RC2(object):
    block_size = 8

    def __init__(self, key, effective_bits=1024):
        key = bytes(key)
        t = len(key)
        if not 1 <= t <= 128:
            raise ValueError("RC2 key must be 1..128 bytes")
        t1 = effective_bits
        if not 1 <= t1 <= 1024:
            raise ValueError("RC2 effective key length must be 1..1024 bits")
        t8 = (t1 + 7) // 8
        tm = 255 % (1 << (8 + t1 - 8 * t8))
        L = list(key) + [0] * (128 - t)
        for i in range(t, 128):
            L[i] = PITABLE[(L[i - 1] + L[i - t]) & 255]
        L[128 - t8] = PITABLE[L[128 - t8] & tm]
        for i in range(127 - t8, -1, -1):
            L[i] = PITABLE[L[i + 1] ^ L[i + t8]]
        self.K = [L[2 * i] | (L[2 * i + 1] << 8) for i in range(64)]

    def encrypt_block(self, b):
        b = bytes(b)
        if len(b) != 8:
            raise ValueError("RC2 block is 8 bytes")
        K = self.K
        R = [b[0] | (b[1] << 8), b[2] | (b[3] << 8), b[4] | (b[5] << 8), b[6] | (b[7] << 8)]
        j = 0
        for rnd in range(16):
            for i in range(4):                                  # MIX
                v = (R[i] + K[j] + (R[i - 1] & R[i - 2]) + ((~R[i - 1]) & R[i - 3])) & 0xFFFF
                j += 1
                s = _S[i]
                R[i] = ((v << s) | (v >> (16 - s))) & 0xFFFF
            if rnd in (4, 10):                                  # MASH after 5 and after 11 MIX rounds
                for i in range(4):
                    R[i] = (R[i] + K[R[i - 1] & 63]) & 0xFFFF
        return bytes([R[0] & 255, R[0] >> 8, R[1] & 255, R[1] >> 8,
                      R[2] & 255, R[2] >> 8, R[3] & 255, R[3] >> 8])

    def decrypt_block(self, b):
        b = bytes(b)
        if len(b) != 8:
            raise ValueError("RC2 block is 8 bytes")
        K = self.K
        R = [b[0] | (b[1] << 8), b[2] | (b[3] << 8), b[4] | (b[5] << 8), b[6] | (b[7] << 8)]
        j = 63
        for rnd in range(15, -1, -1):
            for i in range(3, -1, -1):                          # R-MIX
                s = _S[i]
                v = ((R[i] >> s) | (R[i] << (16 - s))) & 0xFFFF
                R[i] = (v - K[j] - (R[i - 1] & R[i - 2]) - ((~R[i - 1]) & R[i - 3])) & 0xFFFF
                j -= 1
            if rnd in (5, 11):                                  # R-MASH (mirror of the forward order)
                for i in range(3, -1, -1):
                    R[i] = (R[i] - K[R[i - 1] & 63]) & 0xFFFF
        return bytes([R[0] & 255, R[0] >> 8, R[1] & 255, R[1] >> 8,
                      R[2] & 255, R[2] >> 8, R[3] & 255, R[3] >> 8])


# RFC 2268 section 5: (key, effective bits, plaintext, ciphertext)
RFC2268_VECTORS = (
    ("0000000000000000", 63, "0000000000000000", "ebb773f993278eff"),
    ("ffffffffffffffff", 64, "ffffffffffffffff", "278b27e42e2f0d49"),
    ("3000000000000000", 64, "1000000000000001", "30649edf9be7d2c2"),
    ("88", 64, "0000000000000000", "61a8a244adacccf0"),
    ("88bca90e90875a", 64, "0000000000000000", "6ccf4308974c267f"),
    ("88bca90e90875a7f0f79c384627bafb2", 64, "0000000000000000", "1a807d272bbe5db1"),
    ("88bca90e90875a7f0f79c384627bafb2", 128, "0000000000000000", "2269552ab0f85ca6"),
    ("88bca90e90875a7f0f79c384627bafb216f80a6f85920584c42fceb0be255daf1e", 129,
     "0000000000000000", "5b78d3a43dfff1f1"),
)


def selftest():
    assert len(PITABLE) == 256 and sorted(PITABLE) == list(range(256)), "PITABLE is not a permutation"
    for k, eff, p, c in RFC2268_VECTORS:
        r = RC2(bytes.fromhex(k), eff)
        got = r.encrypt_block(bytes.fromhex(p))
        assert got == bytes.fromhex(c), "RC2 vector key=%s eff=%d: got %s want %s" % (k, eff, got.hex(), c)
        assert r.decrypt_block(got) == bytes.fromhex(p), "RC2 inverse, key=%s" % k
    return True


if __name__ == "__main__":
    selftest()
    print("OK")
