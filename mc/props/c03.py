"""C03 - hashes, XOFs and MACs equal their standards; MAC verification accepts only the true tag.

ShapeExplorer: complete enumeration of stated finite grids of input *shapes* (message / key /
customisation / output lengths, digest sizes, feeding patterns) times the value alphabet of
DESIGN 2.4, run against the real library; every case is compared with an independent reference
(hashlib / hmac from CPython, pure-Python models in mc.ref).  Every MAC tag is then mutated with
the complete received-tag alphabet (all single-bit flips, all truncations, one-byte extensions,
the tag of another message) and offered to verify()/hexverify().
"""
import hashlib
import json

from ..common import Acc, chunks, exc_site, jsonable, short, seeded, asc
from . import _c03_ref as R

LEVEL = "exploration"
RULE = ("complete enumeration of length/parameter grids per algorithm (see 'grids'); a case is one "
        "library computation compared with the reference; cases are distinct by (part, algorithm, "
        "enumerated shape parameters); distinct_nontrivial = number of distinct such shape tuples "
        "actually executed plus distinct (MAC, candidate class, entry point, outcome) verification classes")
BUDGET = {"quick": 200, "thorough": 1700}

K = R.K


class MinAcc(Acc):
    """Acc that keeps, per violation key, the *smallest* failing case (by size of its JSON form, then
    text) instead of the first one merged, so that the reported input does not depend on which worker
    finishes first."""

    @staticmethod
    def _rank(rec):
        r = rec.get("_rank")
        if r is None:
            r = rec["_rank"] = [len(json.dumps(rec["case"], sort_keys=True)), rec["what"]]
        return r

    def violation(self, key, what, case, script=None):
        self.viol_count[key] = self.viol_count.get(key, 0) + 1
        rec = {"key": key, "what": what, "case": jsonable(case), "script": script}
        old = self.viol.get(key)
        if old is None or self._rank(rec) < self._rank(old):
            self.viol[key] = rec

    def merge(self, o):
        mine = dict(self.viol)
        Acc.merge(self, o)
        for k, v in o.viol.items():
            if k in mine and self._rank(v) < self._rank(mine[k]):
                self.viol[k] = v
        return self

# ---------------------------------------------------------------------------
# value alphabet
# ---------------------------------------------------------------------------
_BUF = {}
KINDS = ("zero", "ones", "asc", "seeded")


def val(kind, n, label="v"):
    """kind: 0 zero, 1 ones, 2 ascending, 3 SHAKE256(seed|label) (prefix-consistent in n)"""
    if kind == 0:
        return bytes(n)
    if kind == 1:
        return b"\xff" * n
    if kind == 2:
        return asc(n)
    b = _BUF.get(label)
    if b is None or len(b) < n:
        b = _BUF[label] = seeded("c03/" + label, max(n, 2048))
    return b[:n]


# ---------------------------------------------------------------------------
# seam: the random secret used by verify() (module attribute get_random_bytes)
# ---------------------------------------------------------------------------
SEAM = {"n": 0, "installed": False}


def _fake_rng(n):
    SEAM["n"] += 1
    return seeded("c03/verify-secret/%d" % SEAM["n"], n)


def install_seam():
    if SEAM["installed"]:
        return
    import importlib
    for name in ("HMAC", "CMAC", "Poly1305", "KMAC128", "BLAKE2b", "BLAKE2s"):
        m = importlib.import_module("Crypto.Hash." + name)
        if not hasattr(m, "get_random_bytes"):
            raise RuntimeError("harness cannot reach seam Crypto.Hash.%s.get_random_bytes" % name)
        m.get_random_bytes = _fake_rng
    SEAM["installed"] = True


# ---------------------------------------------------------------------------
# library side
# ---------------------------------------------------------------------------
class _H(object):
    """How to build one fixed-output hash of the library."""

    def __init__(self, mod, kw=None, positional=True, digestmod=None):
        self.mod = mod
        self.kw = kw or {}
        self.positional = positional
        self.digestmod = digestmod

    def new_kw(self, data):
        return self.mod.new(data=data, **self.kw)

    def new_empty(self):
        return self.mod.new(**self.kw)

    def objnew(self, h, data):
        # .new() on an existing object: a fresh object of the same algorithm/parameters
        if self.positional:
            return h.new(data)
        return h.new(data=data)


_LIB = None


def lib():
    global _LIB
    if _LIB is not None:
        return _LIB
    import importlib
    M = lambda n: importlib.import_module("Crypto.Hash." + n)
    hs = {}
    for n in ("MD2", "MD4", "MD5", "RIPEMD160", "SHA1", "SHA224", "SHA256", "SHA384", "SHA512",
              "SHA3_224", "SHA3_256", "SHA3_384", "SHA3_512"):
        hs[n] = _H(M(n), digestmod=M(n))
    hs["SHA(alias)"] = _H(M("SHA"), digestmod=M("SHA"))
    hs["RIPEMD(alias)"] = _H(M("RIPEMD"), digestmod=M("RIPEMD"))
    s512 = M("SHA512")
    hs["SHA512_224"] = _H(s512, {"truncate": "224"}, digestmod=s512.new(truncate="224"))
    hs["SHA512_256"] = _H(s512, {"truncate": "256"}, digestmod=s512.new(truncate="256"))
    for b in (224, 256, 384, 512):
        hs["keccak%d" % b] = _H(M("keccak"), {"digest_bits": b}, positional=False)
    hs["BLAKE2b"] = _H(M("BLAKE2b"), positional=False)
    hs["BLAKE2s"] = _H(M("BLAKE2s"), positional=False)
    C = lambda n: importlib.import_module("Crypto.Cipher." + n)
    _LIB = {
        "hash": hs,
        "SHAKE": {128: M("SHAKE128"), 256: M("SHAKE256")},
        "cSHAKE": {128: M("cSHAKE128"), 256: M("cSHAKE256")},
        "KMAC": {128: M("KMAC128"), 256: M("KMAC256")},
        "TupleHash": {128: M("TupleHash128"), 256: M("TupleHash256")},
        "TurboSHAKE": {128: M("TurboSHAKE128"), 256: M("TurboSHAKE256")},
        "K12": M("KangarooTwelve"),
        "HMAC": M("HMAC"), "CMAC": M("CMAC"), "Poly1305": M("Poly1305"),
        "BLAKE2": {"b": M("BLAKE2b"), "s": M("BLAKE2s")},
        "cipher": {n: C(n) for n in ("AES", "DES3", "DES", "Blowfish", "CAST", "ARC2", "ChaCha20")},
    }
    return _LIB


HMAC_HASHES = ("MD2", "MD4", "MD5", "RIPEMD160", "SHA1", "SHA224", "SHA256", "SHA384", "SHA512",
               "SHA512_224", "SHA512_256", "SHA3_224", "SHA3_256", "SHA3_384", "SHA3_512",
               "SHA(alias)", "RIPEMD(alias)")


_SAMPLES = {}


def _sample(part, what, exp, got):
    if part not in _SAMPLES:
        _SAMPLES[part] = {"part": part, "case": what, "reference": short(exp, 64), "library": short(got, 64)}


def _raised(acc, fam, algo, e, what, case):
    acc.violation("C03/%s/%s/raises-%s@%s" % (fam, algo, type(e).__name__, exc_site(e)),
                  "%s raised %s: %s" % (what, type(e).__name__, e), case)


def _split(n):
    return (n // 2, n - n // 2)


# ---------------------------------------------------------------------------
# MAC verification alphabet
# ---------------------------------------------------------------------------
def run_verify(acc, fam, algo, mk, tag, longer, other, what, case):
    """mk() -> fresh MAC object holding the message; tag = reference tag (== library tag)."""
    obj = mk()
    for cls, cand in R.tag_candidates(tag, longer, other):
        good = cand == tag
        for mode in ("verify", "hexverify"):
            acc.count("evaluations")
            try:
                if mode == "verify":
                    obj.verify(cand)
                else:
                    obj.hexverify(cand.hex())
                res = "accept"
            except ValueError:
                res = "reject"
            except Exception as e:  # noqa
                res = "raises-" + type(e).__name__
            acc.seen("shapes", ("verify", fam, algo, cls, mode, res))
            acc.count("verify_" + (res if res in ("accept", "reject") else "other"))
            key = None
            if res == "accept" and not good:
                key = "accepts-" + cls
            elif res == "reject" and good:
                key = "rejects-authentic"
            elif res not in ("accept", "reject"):
                key = "%s-on-%s" % (res, "authentic" if good else "forged")
            if key:
                acc.violation("C03/%s/%s/%s/%s" % (fam, algo, mode, key),
                              "%s: %s(%s candidate %s) -> %s; the true tag is %s"
                              % (what, mode, cls, short(cand), res, short(tag)), case)


# ---------------------------------------------------------------------------
# part: fixed-output hashes
# ---------------------------------------------------------------------------
def check_hash(acc, algo, msg):
    L = lib()["hash"][algo]
    exp = R.hash_ref(algo, msg)
    acc.count("evaluations", 4)
    acc.count("hash_cases")
    acc.seen("shapes", ("hash", algo, len(msg)))
    acc.seen("out/hash", exp[:6])
    case = {"part": "hash", "algo": algo, "msg": msg}
    what = "%s of %d-byte message %s" % (algo, len(msg), short(msg, 24))
    try:
        h1 = L.new_kw(msg)
        d1 = h1.digest()
        d1b = h1.digest()
        hx = h1.hexdigest()
        ds = h1.digest_size
        h2 = L.new_empty()
        h2.update(msg)
        d2 = h2.digest()
        d3 = L.objnew(h2, msg).digest()
    except Exception as e:  # noqa
        return _raised(acc, "hash", algo, e, what, case)
    k = "C03/hash/%s/" % algo
    if len(msg) > 60:
        _sample("hash", what, exp, d1)
    if d1 != exp:
        return acc.violation(k + "value", "%s: new(data=m).digest() = %s, standard says %s"
                             % (what, d1.hex(), exp.hex()), case)
    if d2 != exp:
        acc.violation(k + "update-vs-data", "%s: new().update(m).digest() = %s, standard says %s"
                      % (what, d2.hex(), exp.hex()), case)
    if d1b != exp:
        acc.violation(k + "second-digest", "%s: second digest() call = %s, first (correct) = %s"
                      % (what, d1b.hex(), exp.hex()), case)
    if hx != exp.hex():
        acc.violation(k + "hexdigest", "%s: hexdigest() = %r, standard says %s" % (what, hx, exp.hex()), case)
    if d3 != exp:
        acc.violation(k + "obj.new", "%s: obj.new(m).digest() = %s, standard says %s"
                      % (what, d3.hex(), exp.hex()), case)
    if ds != len(exp):
        acc.violation(k + "digest_size", "%s: digest_size = %r, standard length %d" % (what, ds, len(exp)), case)


_PATTERN = None


def check_hash_stream(acc, algo, total):
    """A long message fed in 1 MiB pieces (bit counters above 2^24 / 2^32), reference fed the same way."""
    global _PATTERN
    if _PATTERN is None:
        _PATTERN = asc(251) * 4178           # 1 048 678 bytes, period 251 (co-prime to block sizes)
    L = lib()["hash"][algo]
    hl = R.HASH_REF[algo][3]
    ref = hashlib.new(hl)
    acc.count("evaluations")
    acc.count("hash_stream_cases")
    acc.seen("shapes", ("hash-stream", algo, total))
    case = {"part": "hash-stream", "algo": algo, "total": total}
    what = "%s of %d bytes (pattern 00..fa repeated, fed in pieces of %d)" % (algo, total, len(_PATTERN))
    try:
        h = L.new_empty()
        left = total
        while left > 0:
            piece = _PATTERN if left >= len(_PATTERN) else _PATTERN[:left]
            h.update(piece)
            ref.update(piece)
            left -= len(piece)
        d = h.digest()
    except Exception as e:  # noqa
        return _raised(acc, "hash", algo, e, what, case)
    exp = ref.digest()
    if d != exp:
        acc.violation("C03/hash/%s/value-long-message" % algo,
                      "%s: digest %s, standard says %s" % (what, d.hex(), exp.hex()), case)


# ---------------------------------------------------------------------------
# part: SHAKE128/256 (reference: hashlib)
# ---------------------------------------------------------------------------
def check_shake(acc, bits, msg, reads):
    mod = lib()["SHAKE"][bits]
    algo = "SHAKE%d" % bits
    outlen = sum(reads)
    exp = (hashlib.shake_128 if bits == 128 else hashlib.shake_256)(msg).digest(outlen)
    acc.count("evaluations", 3)
    acc.count("shake_cases")
    acc.seen("shapes", ("shake", bits, len(msg), tuple(reads)))
    acc.seen("out/shake", exp[:6])
    case = {"part": "shake", "bits": bits, "msg": msg, "reads": list(reads)}
    what = "%s of %d-byte message %s, output %d bytes" % (algo, len(msg), short(msg, 24), outlen)
    try:
        x1 = mod.new(data=msg).read(outlen)
        h2 = mod.new()
        h2.update(msg)
        x2 = b"".join(h2.read(r) for r in reads)
        x3 = h2.new(data=msg).read(outlen)
    except Exception as e:  # noqa
        return _raised(acc, "xof", algo, e, what, case)
    k = "C03/xof/%s/" % algo
    if x1 != exp:
        return acc.violation(k + "value", "%s: new(data=m).read(n) = %s, standard says %s"
                             % (what, short(x1), short(exp)), case)
    if x2 != exp:
        acc.violation(k + "update-or-split-read", "%s: update(m) then read%s = %s, standard says %s"
                      % (what, tuple(reads), short(x2), short(exp)), case)
    if x3 != exp:
        acc.violation(k + "obj.new", "%s: obj.new(data=m).read(n) = %s, standard says %s"
                      % (what, short(x3), short(exp)), case)


# ---------------------------------------------------------------------------
# part: cSHAKE128/256  (fn=None: public new(data, custom); fn=bytes: the _new(data, custom, function)
# entry point that KMAC and TupleHash are built on)
# ---------------------------------------------------------------------------
def check_cshake(acc, bits, msg, outlen, custom, fn=None):
    mod = lib()["cSHAKE"][bits]
    algo = "cSHAKE%d" % bits
    exp = R.cshake_ref(bits, msg, outlen, fn or b"", custom or b"")
    acc.count("evaluations", 2)
    acc.count("cshake_cases")
    acc.seen("shapes", ("cshake", bits, len(msg), outlen, None if custom is None else len(custom),
                        None if fn is None else len(fn)))
    acc.seen("out/cshake", exp[:6])
    case = {"part": "cshake", "bits": bits, "msg": msg, "outlen": outlen, "custom": custom, "fn": fn}
    what = "%s, %d-byte message, customisation %s, %soutput %d bytes" % (
        algo, len(msg), "omitted" if custom is None else "%d bytes" % len(custom),
        "" if fn is None else "function name %d bytes, " % len(fn), outlen)
    try:
        if fn is None:
            x1 = (mod.new(data=msg) if custom is None else mod.new(data=msg, custom=custom)).read(outlen)
            h2 = mod.new() if custom is None else mod.new(custom=custom)
        else:
            x1 = mod._new(msg, custom, fn).read(outlen)
            h2 = mod._new(None, custom, fn)
        h2.update(msg)
        a, b = _split(outlen)
        x2 = h2.read(a) + h2.read(b)
    except Exception as e:  # noqa
        return _raised(acc, "xof", algo, e, what, case)
    k = "C03/xof/%s/%s" % (algo, "" if fn is None else "function-name/")
    if x1 != exp:
        return acc.violation(k + "value", "%s: read(n) = %s, SP 800-185 says %s"
                             % (what, short(x1), short(exp)), case)
    if x2 != exp:
        acc.violation(k + "update-or-split-read", "%s: update(m), read(%d)+read(%d) = %s, SP 800-185 says %s"
                      % (what, a, b, short(x2), short(exp)), case)


# ---------------------------------------------------------------------------
# part: KMAC128/256
# ---------------------------------------------------------------------------
KMAC_MINKEY = {128: 16, 256: 32}


def check_kmac(acc, bits, key, custom, msg, mac_len, do_verify=False):
    """custom=None / mac_len=None: parameter omitted (documented defaults b'' / 64)."""
    mod = lib()["KMAC"][bits]
    algo = "KMAC%d" % bits
    outlen = 64 if mac_len is None else mac_len
    acc.count("kmac_cases")
    acc.seen("shapes", ("kmac", bits, len(key), None if custom is None else len(custom), len(msg), mac_len))
    case = {"part": "kmac", "bits": bits, "key": key, "custom": custom, "msg": msg, "mac_len": mac_len,
            "verify": do_verify}
    what = "%s key %d bytes, customisation %s, message %d bytes, mac_len %s" % (
        algo, len(key), "omitted" if custom is None else "%d bytes" % len(custom), len(msg), mac_len)
    kw = {}
    if custom is not None:
        kw["custom"] = custom
    kw2 = dict(kw)
    if mac_len is not None:
        kw["mac_len"] = mac_len
    try:
        h1 = mod.new(key=key, data=msg, **kw)
    except ValueError as e:
        if len(key) < KMAC_MINKEY[bits] or outlen < 8:
            acc.count("refused_by_policy")
            acc.observe("%s refuses %s (documented library limit; SP 800-185 defines a value)"
                        % (algo, "keys shorter than %d bytes" % KMAC_MINKEY[bits]
                           if len(key) < KMAC_MINKEY[bits] else "mac_len < 8"))
            return
        return _raised(acc, "mac", algo, e, what, case)
    except Exception as e:  # noqa
        return _raised(acc, "mac", algo, e, what, case)
    exp = R.kmac_ref(bits, key, msg, outlen, custom or b"")
    acc.count("evaluations", 3)
    acc.seen("out/kmac", exp[:6])
    try:
        d1 = h1.digest()
        hx = h1.hexdigest()
        ds = h1.digest_size
        h2 = mod.new(key=key, **kw)
        h2.update(msg)
        d2 = h2.digest()
        d3 = h1.new(key=key, data=msg, **kw2).digest()      # mac_len inherited from h1
    except Exception as e:  # noqa
        return _raised(acc, "mac", algo, e, what, case)
    k = "C03/mac/%s/" % algo
    if len(msg) > 1:
        _sample("kmac", what, exp, d1)
    if d1 != exp:
        return acc.violation(k + "value", "%s: digest() = %s, SP 800-185 says %s"
                             % (what, short(d1), short(exp)), case)
    if d2 != exp:
        acc.violation(k + "update-vs-data", "%s: update(m) path = %s, SP 800-185 says %s"
                      % (what, short(d2), short(exp)), case)
    if hx != exp.hex():
        acc.violation(k + "hexdigest", "%s: hexdigest() = %r, expected %s" % (what, hx, exp.hex()), case)
    if ds != len(exp):
        acc.violation(k + "digest_size", "%s: digest_size = %r" % (what, ds), case)
    if d3 != exp:
        if bits == 256 and d3 == R.kmac_ref(128, key, msg, outlen, custom or b""):
            acc.violation("C03/mac/KMAC256/obj.new-yields-KMAC128",
                          "%s: h = KMAC256.new(...); h.new(key=k, data=m).digest() = %s which is KMAC128(k, m), "
                          "KMAC256 is %s" % (what, short(d3), short(exp)), case, script=_SCRIPT_KMAC256)
        else:
            acc.violation(k + "obj.new", "%s: obj.new(key=k, data=m).digest() = %s, SP 800-185 says %s"
                          % (what, short(d3), short(exp)), case)
    if do_verify:
        other = R.kmac_ref(bits, key, msg + b"x", outlen, custom or b"")
        run_verify(acc, "mac", algo, lambda: mod.new(key=key, data=msg, **kw), exp, None, other, what, case)


_SCRIPT_KMAC256 = """from Crypto.Hash import KMAC128, KMAC256
k = bytes(range(32)); m = b"abc"
h = KMAC256.new(key=k, mac_len=32)
t = h.new(key=k, data=m).digest()
print("obj.new() of a KMAC256 object gives", t.hex())
print("KMAC256:", KMAC256.new(key=k, data=m, mac_len=32).hexdigest())
print("KMAC128:", KMAC128.new(key=k, data=m, mac_len=32).hexdigest())
assert t == KMAC256.new(key=k, data=m, mac_len=32).digest(), "fresh object is not a KMAC256"
"""


# ---------------------------------------------------------------------------
# part: TupleHash128/256
# ---------------------------------------------------------------------------
def check_tuplehash(acc, bits, items, custom, dbytes, use_bits=False):
    """custom=None / dbytes=None: parameter omitted (defaults b'' / 64)."""
    mod = lib()["TupleHash"][bits]
    algo = "TupleHash%d" % bits
    items = [bytes(i) for i in items]
    outlen = 64 if dbytes is None else dbytes
    acc.count("tuplehash_cases")
    acc.seen("shapes", ("tuplehash", bits, tuple(len(i) for i in items),
                        None if custom is None else len(custom), dbytes, use_bits))
    case = {"part": "tuplehash", "bits": bits, "items": items, "custom": custom, "dbytes": dbytes,
            "use_bits": use_bits}
    what = "%s of tuple with item lengths %s, customisation %s, digest %s bytes" % (
        algo, [len(i) for i in items], "omitted" if custom is None else "%d bytes" % len(custom), dbytes)
    kw = {}
    if custom is not None:
        kw["custom"] = custom
    kw2 = dict(kw)
    if dbytes is not None:
        if use_bits:
            kw["digest_bits"] = dbytes * 8
        else:
            kw["digest_bytes"] = dbytes
    try:
        h1 = mod.new(**kw)
    except ValueError as e:
        if outlen < 8:
            acc.count("refused_by_policy")
            acc.observe("%s refuses digests shorter than 8 bytes (documented library limit)" % algo)
            return
        return _raised(acc, "xof", algo, e, what, case)
    except Exception as e:  # noqa
        return _raised(acc, "xof", algo, e, what, case)
    exp = R.tuplehash_ref(bits, items, outlen, custom or b"")
    acc.count("evaluations", 3)
    acc.seen("out/tuplehash", exp[:6])
    try:
        h1.update(*items)
        d1 = h1.digest()
        hx = h1.hexdigest()
        ds = h1.digest_size
        h2 = mod.new(**kw)
        for it in items:
            h2.update(it)
        d2 = h2.digest()
        h3 = h1.new(**kw2)
        h3.update(*items)
        d3 = h3.digest()
    except Exception as e:  # noqa
        return _raised(acc, "xof", algo, e, what, case)
    k = "C03/xof/%s/" % algo
    if d1 != exp:
        return acc.violation(k + "value", "%s: digest() = %s, SP 800-185 says %s"
                             % (what, short(d1), short(exp)), case)
    if d2 != exp:
        acc.violation(k + "one-item-per-update", "%s: update(a).update(b).. = %s, SP 800-185 says %s"
                      % (what, short(d2), short(exp)), case)
    if hx != exp.hex():
        acc.violation(k + "hexdigest", "%s: hexdigest() = %r, expected %s" % (what, hx, exp.hex()), case)
    if ds != len(exp):
        acc.violation(k + "digest_size", "%s: digest_size = %r" % (what, ds), case)
    if d3 != exp:
        if bits == 256 and d3 == R.tuplehash_ref(128, items, outlen, custom or b""):
            acc.violation("C03/xof/TupleHash256/obj.new-yields-TupleHash128",
                          "%s: h = TupleHash256.new(...); h.new().update(*t).digest() = %s which is "
                          "TupleHash128(t), TupleHash256 is %s" % (what, short(d3), short(exp)), case,
                          script=_SCRIPT_TH256)
        else:
            acc.violation(k + "obj.new", "%s: obj.new().update(*t).digest() = %s, SP 800-185 says %s"
                          % (what, short(d3), short(exp)), case)


_SCRIPT_TH256 = """from Crypto.Hash import TupleHash128, TupleHash256
h = TupleHash256.new(digest_bytes=32)
t = h.new().update(b"abc").digest()
print("obj.new() of a TupleHash256 object gives", t.hex())
print("TupleHash256:", TupleHash256.new(digest_bytes=32).update(b"abc").hexdigest())
print("TupleHash128:", TupleHash128.new(digest_bytes=32).update(b"abc").hexdigest())
assert t == TupleHash256.new(digest_bytes=32).update(b"abc").digest(), "fresh object is not a TupleHash256"
"""


# ---------------------------------------------------------------------------
# part: TurboSHAKE128/256
# ---------------------------------------------------------------------------
def check_turbo(acc, bits, msg, reads, domain):
    """domain=None: parameter omitted (default 0x1F)."""
    mod = lib()["TurboSHAKE"][bits]
    algo = "TurboSHAKE%d" % bits
    outlen = sum(reads)
    acc.count("turbo_cases")
    acc.seen("shapes", ("turbo", bits, len(msg), tuple(reads), domain))
    case = {"part": "turbo", "bits": bits, "msg": msg, "reads": list(reads), "domain": domain}
    what = "%s, %d-byte message, domain byte %s, output %d bytes" % (
        algo, len(msg), "omitted" if domain is None else "0x%02x" % domain, outlen)
    kw = {} if domain is None else {"domain": domain}
    d = 0x1F if domain is None else domain
    try:
        h1 = mod.new(data=msg, **kw)
    except ValueError as e:
        if not 1 <= d <= 0x7F:
            acc.count("refused_by_policy")
            acc.observe("%s refuses a domain byte outside 0x01..0x7F (RFC 9861 range)" % algo)
            return
        return _raised(acc, "xof", algo, e, what, case)
    except Exception as e:  # noqa
        return _raised(acc, "xof", algo, e, what, case)
    if not 1 <= d <= 0x7F:
        acc.observe("%s accepts a domain byte outside 0x01..0x7F (no standard value to compare with)" % algo)
        return
    exp = K.turboshake(bits, msg, outlen, d)
    acc.count("evaluations", 3)
    acc.seen("out/turbo", exp[:6])
    try:
        x1 = h1.read(outlen)
        h2 = mod.new(**kw)
        h2.update(msg)
        x2 = b"".join(h2.read(r) for r in reads)
        x3 = h2.new(data=msg).read(outlen)             # domain inherited
    except Exception as e:  # noqa
        return _raised(acc, "xof", algo, e, what, case)
    k = "C03/xof/%s/" % algo
    if x1 != exp:
        return acc.violation(k + "value", "%s: read(n) = %s, RFC 9861 says %s" % (what, short(x1), short(exp)), case)
    if x2 != exp:
        acc.violation(k + "update-or-split-read", "%s: update(m) then read%s = %s, RFC 9861 says %s"
                      % (what, tuple(reads), short(x2), short(exp)), case)
    if x3 != exp:
        acc.violation(k + "obj.new", "%s: obj.new(data=m).read(n) = %s, RFC 9861 says %s"
                      % (what, short(x3), short(exp)), case)


# ---------------------------------------------------------------------------
# part: KangarooTwelve (KT128)
# ---------------------------------------------------------------------------
def check_k12(acc, msg, custom, reads, feed):
    """feed: ['data'] new(data=m) | ['none'] no update call at all (empty message only) |
    ['update'] one update(m) | ['cut', c] update(m[:c]), update(m[c:]) | ['chunks', n] pieces of n bytes.
    custom=None: parameter omitted."""
    mod = lib()["K12"]
    feed = list(feed)
    outlen = sum(reads)
    cu = custom or b""
    exp = R.k12_ref(bytes(msg), bytes(cu))[:outlen]
    acc.count("evaluations")
    acc.count("k12_cases")
    acc.seen("shapes", ("k12", len(msg), None if custom is None else len(custom), tuple(reads), tuple(feed)))
    acc.seen("out/k12", exp[:6])
    case = {"part": "k12", "msg": msg, "custom": custom, "reads": list(reads), "feed": feed}
    what = "KangarooTwelve, %d-byte message, customisation %s, fed by %s, output %d bytes" % (
        len(msg), "omitted" if custom is None else "%d bytes" % len(custom), feed, outlen)
    kw = {} if custom is None else {"custom": custom}
    try:
        if feed[0] == "data":
            h = mod.new(data=msg, **kw)
        else:
            h = mod.new(**kw)
            if feed[0] == "none":
                assert len(msg) == 0
            elif feed[0] == "update":
                h.update(msg)
            elif feed[0] == "cut":
                h.update(msg[:feed[1]])
                h.update(msg[feed[1]:])
            elif feed[0] == "chunks":
                for i in range(0, len(msg), feed[1]):
                    h.update(msg[i:i + feed[1]])
            else:
                raise AssertionError("bad feed")
        x = b"".join(h.read(r) for r in reads)
    except AssertionError:
        raise
    except Exception as e:  # noqa
        return _raised(acc, "xof", "K12", e, what, case)
    if len(msg) > 8192:
        _sample("k12", what, exp, x)
    if x != exp:
        s_len = len(cu) + len(K.length_encode(len(cu)))
        if len(msg) == 0 and feed[0] in ("data", "none") and s_len > 8192 \
                and x == R.k12_single_node(cu, outlen):
            acc.violation("C03/K12/long-custom-without-update",
                          "%s: |C || length_encode(|C|)| = %d > 8192 so RFC 9861 requires tree hashing, but "
                          "read() returns the single-node value %s instead of %s (update() was never called, "
                          "so the object is still in its SHORT_MSG state)"
                          % (what, s_len, short(x), short(exp)), case, script=_SCRIPT_K12)
        else:
            acc.violation("C03/xof/K12/value" if feed[0] in ("data", "update") and len(reads) == 1
                          else "C03/xof/K12/segmented-update-or-read",
                          "%s: read = %s, RFC 9861 says %s" % (what, short(x), short(exp)), case)


_SCRIPT_K12 = """from Crypto.Hash import KangarooTwelve as K12
C = bytes(8190)                      # |C| + |length_encode(8190)| = 8193 > 8192  ->  tree hashing
a = K12.new(custom=C).read(32)                  # no update() call
b = K12.new(custom=C).update(b"").read(32)      # same input, one empty update()
print(a.hex()); print(b.hex())
assert a == b, "KT128(M=empty, C) depends on whether update() was called"
"""


# ---------------------------------------------------------------------------
# part: HMAC over every hash module that HMAC accepts
# ---------------------------------------------------------------------------
def check_hmac(acc, hname, key, msg, do_verify=False):
    """hname=None: digestmod omitted (documented default MD5)."""
    HM = lib()["HMAC"]
    refname = "MD5" if hname is None else hname
    algo = "HMAC-" + ("default" if hname is None else hname)
    exp = R.hmac_ref(refname, key, msg)
    acc.count("evaluations", 2)
    acc.count("hmac_cases")
    acc.seen("shapes", ("hmac", hname, len(key), len(msg)))
    acc.seen("out/hmac", exp[:6])
    case = {"part": "hmac", "hash": hname, "key": key, "msg": msg, "verify": do_verify}
    what = "%s key %d bytes %s, message %d bytes" % (algo, len(key), short(key, 16), len(msg))
    kw = {} if hname is None else {"digestmod": lib()["hash"][hname].digestmod}
    try:
        h1 = HM.new(key, msg, **kw)
        d1 = h1.digest()
        d1b = h1.digest()
        hx = h1.hexdigest()
        ds = h1.digest_size
        h2 = HM.new(key, **kw)
        h2.update(msg)
        d2 = h2.digest()
    except Exception as e:  # noqa
        return _raised(acc, "mac", algo, e, what, case)
    k = "C03/mac/%s/" % algo
    if len(key) > 64 and msg:
        _sample("hmac", what, exp, d1)
    if d1 != exp:
        return acc.violation(k + "value", "%s: digest() = %s, RFC 2104 says %s" % (what, d1.hex(), exp.hex()), case)
    if d2 != exp:
        acc.violation(k + "update-vs-msg", "%s: update(m) path = %s, RFC 2104 says %s"
                      % (what, d2.hex(), exp.hex()), case)
    if d1b != exp:
        acc.violation(k + "second-digest", "%s: second digest() = %s, first (correct) %s"
                      % (what, d1b.hex(), exp.hex()), case)
    if hx != exp.hex():
        acc.violation(k + "hexdigest", "%s: hexdigest() = %r, expected %s" % (what, hx, exp.hex()), case)
    if ds != len(exp):
        acc.violation(k + "digest_size", "%s: digest_size = %r" % (what, ds), case)
    if do_verify:
        other = R.hmac_ref(refname, key, msg + b"x")
        run_verify(acc, "mac", algo, lambda: HM.new(key, msg, **kw), exp, None, other, what, case)


# ---------------------------------------------------------------------------
# part: CMAC
# ---------------------------------------------------------------------------
class _LibBlock(object):
    """CAST-128 / RC2 have no reference primitive (DESIGN 2.3): CMAC is modelled over the library's
    own single-block ECB encryption (decomposition primitive x mode)."""

    def __init__(self, mod, key):
        self.block_size = mod.block_size
        self._c = mod.new(key, mod.MODE_ECB)

    def encrypt_block(self, b):
        return self._c.encrypt(b)


_LIBBLOCK = {}


def _cmac_cipher(cname, key):
    if cname in ("CAST", "ARC2"):
        k = (cname, bytes(key))
        if k not in _LIBBLOCK:
            _LIBBLOCK[k] = _LibBlock(lib()["cipher"][cname], key)
        return _LIBBLOCK[k]
    return R.ref_cipher(cname, key)


def check_cmac(acc, cname, key, msg, mac_len, cut=None, do_verify=False):
    """mac_len=None: omitted (default = block size).  cut=None: new(key, msg=m); cut=c: update(m[:c]), update(m[c:])."""
    CM = lib()["CMAC"]
    cmod = lib()["cipher"][cname]
    algo = "CMAC-" + cname
    bs = cmod.block_size
    outlen = bs if mac_len is None else mac_len
    acc.count("cmac_cases")
    acc.seen("shapes", ("cmac", cname, len(key), len(msg), mac_len, cut))
    case = {"part": "cmac", "cipher": cname, "key": key, "msg": msg, "mac_len": mac_len, "cut": cut,
            "verify": do_verify}
    what = "%s key %s, message %d bytes %s, mac_len %s%s" % (
        algo, key.hex(), len(msg), short(msg, 24), mac_len, "" if cut is None else ", two updates cut at %d" % cut)
    kw = {} if mac_len is None else {"mac_len": mac_len}
    try:
        if cut is None:
            h1 = CM.new(key, msg=msg, ciphermod=cmod, **kw)
        else:
            h1 = CM.new(key, ciphermod=cmod, **kw)
            h1.update(msg[:cut])
            h1.update(msg[cut:])
    except ValueError as e:
        if not 4 <= outlen <= bs:
            acc.count("refused_by_policy")
            acc.observe("CMAC refuses mac_len outside 4..block size (documented library limit)")
            return
        return _raised(acc, "mac", algo, e, what, case)
    except Exception as e:  # noqa
        return _raised(acc, "mac", algo, e, what, case)
    full = R.cmac_ref(_cmac_cipher(cname, key), msg)
    exp = full[:outlen]
    acc.count("evaluations")
    acc.seen("out/cmac", exp[:6])
    try:
        d1 = h1.digest()
        hx = h1.hexdigest()
        ds = h1.digest_size
    except Exception as e:  # noqa
        return _raised(acc, "mac", algo, e, what, case)
    k = "C03/mac/%s/" % algo
    if len(msg) > bs:
        _sample("cmac", what, exp, d1)
    if d1 != exp:
        return acc.violation(k + ("value" if cut is None else "two-updates"),
                             "%s: digest() = %s, SP 800-38B says %s" % (what, d1.hex(), exp.hex()), case)
    if hx != exp.hex():
        acc.violation(k + "hexdigest", "%s: hexdigest() = %r, expected %s" % (what, hx, exp.hex()), case)
    if ds != len(exp):
        acc.violation(k + "digest_size", "%s: digest_size = %r" % (what, ds), case)
    if do_verify:
        other = R.cmac_ref(_cmac_cipher(cname, key), msg + b"x")[:outlen]
        run_verify(acc, "mac", algo, lambda: CM.new(key, msg=msg, ciphermod=cmod, **kw), exp, full, other,
                   what, case)


# ---------------------------------------------------------------------------
# part: Poly1305
# ---------------------------------------------------------------------------
def check_poly_rs(acc, r, s, msg):
    """Seam Poly1305_MAC(r, s, data): any (r, s) limb pattern."""
    P = lib()["Poly1305"]
    exp = R.poly_ref(r, s, msg)
    acc.count("evaluations", 2)
    acc.count("poly_rs_cases")
    acc.seen("shapes", ("poly-rs", r[:2] + r[-2:], s[:2], len(msg)))
    acc.seen("out/poly", exp[:6])
    case = {"part": "poly-rs", "r": r, "s": s, "msg": msg}
    what = "Poly1305(r=%s, s=%s) of %d-byte message %s" % (r.hex(), s.hex(), len(msg), short(msg, 24))
    try:
        d1 = P.Poly1305_MAC(r, s, msg).digest()
        h2 = P.Poly1305_MAC(r, s, None)
        h2.update(msg)
        d2 = h2.digest()
    except Exception as e:  # noqa
        return _raised(acc, "mac", "Poly1305", e, what, case)
    if d1 != exp:
        return acc.violation("C03/mac/Poly1305/value", "%s: digest() = %s, RFC 8439 2.5 says %s"
                             % (what, d1.hex(), exp.hex()), case)
    if d2 != exp:
        acc.violation("C03/mac/Poly1305/update-vs-data", "%s: update(m) path = %s, RFC 8439 2.5 says %s"
                      % (what, d2.hex(), exp.hex()), case)


def check_poly(acc, cname, key, nonce, msg, do_verify=False):
    P = lib()["Poly1305"]
    cmod = lib()["cipher"][cname]
    algo = "Poly1305-" + cname
    r, s = R.poly_aes_rs(key, nonce) if cname == "AES" else R.poly_chacha_rs(key, nonce)
    exp = R.poly_ref(r, s, msg)
    acc.count("evaluations", 2)
    acc.count("poly_cases")
    acc.seen("shapes", ("poly", cname, len(nonce), len(msg)))
    acc.seen("out/poly", exp[:6])
    case = {"part": "poly", "cipher": cname, "key": key, "nonce": nonce, "msg": msg, "verify": do_verify}
    what = "%s key %s nonce %s, %d-byte message %s" % (algo, key.hex(), nonce.hex(), len(msg), short(msg, 24))
    try:
        h1 = P.new(key=key, cipher=cmod, nonce=nonce, data=msg)
        d1 = h1.digest()
        hx = h1.hexdigest()
        ds = h1.digest_size
        h2 = P.new(key=key, cipher=cmod, nonce=nonce)
        h2.update(msg)
        d2 = h2.digest()
    except Exception as e:  # noqa
        return _raised(acc, "mac", algo, e, what, case)
    k = "C03/mac/%s/" % algo
    if len(msg) > 16:
        _sample("poly1305", what, exp, d1)
    if d1 != exp:
        return acc.violation(k + "value", "%s: digest() = %s, standard says %s (r=%s s=%s)"
                             % (what, d1.hex(), exp.hex(), r.hex(), s.hex()), case)
    if d2 != exp:
        acc.violation(k + "update-vs-data", "%s: update(m) path = %s, standard says %s"
                      % (what, d2.hex(), exp.hex()), case)
    if hx != exp.hex():
        acc.violation(k + "hexdigest", "%s: hexdigest() = %r, expected %s" % (what, hx, exp.hex()), case)
    if ds != 16:
        acc.violation(k + "digest_size", "%s: digest_size = %r" % (what, ds), case)
    if do_verify:
        other = R.poly_ref(r, s, msg + b"x")
        run_verify(acc, "mac", algo, lambda: P.new(key=key, cipher=cmod, nonce=nonce, data=msg), exp, None,
                   other, what, case)


# ---------------------------------------------------------------------------
# part: BLAKE2b / BLAKE2s  (every digest size x every key length x message lengths)
# ---------------------------------------------------------------------------
def _b2ref(variant, dbytes, key, msg):
    f = hashlib.blake2b if variant == "b" else hashlib.blake2s
    return f(msg, digest_size=dbytes, key=key).digest()


def check_blake2(acc, variant, dbytes, key, msg, use_bits=False, do_verify=False, counted=False):
    """Full comparison of one BLAKE2 case (all entry points).  key=b'' means unkeyed."""
    mod = lib()["BLAKE2"][variant]
    algo = "BLAKE2" + variant
    case = {"part": "blake2", "variant": variant, "dbytes": dbytes, "key": key, "msg": msg,
            "use_bits": use_bits, "verify": do_verify}
    what = "%s digest %d bytes (%s), key %d bytes %s, message %d bytes %s" % (
        algo, dbytes, "digest_bits" if use_bits else "digest_bytes", len(key), short(key, 16), len(msg),
        short(msg, 24))
    if not counted:
        acc.count("evaluations", 3)
        acc.count("blake2_cases")
        acc.seen("shapes", ("blake2-full", variant, dbytes, len(key), len(msg), use_bits))
    kw = {"digest_bits": dbytes * 8} if use_bits else {"digest_bytes": dbytes}
    if key:
        kw["key"] = key
    try:
        h1 = mod.new(data=msg, **kw)
        d1 = h1.digest()
        hx = h1.hexdigest()
        ds = h1.digest_size
        h2 = mod.new(**kw)
        h2.update(msg)
        d2 = h2.digest()
        kw3 = dict(kw)
        kw3.pop("digest_bits", None)
        kw3.pop("digest_bytes", None)
        d3 = h1.new(data=msg, **kw3).digest()          # digest size inherited
    except Exception as e:  # noqa
        return _raised(acc, "hash", algo, e, what, case)
    exp = _b2ref(variant, dbytes, key, msg)
    fam = "mac" if key else "hash"
    k = "C03/%s/%s/" % (fam, algo)
    if d1 != exp:
        return acc.violation(k + "value", "%s: digest() = %s, RFC 7693 says %s" % (what, d1.hex(), exp.hex()), case)
    if d2 != exp:
        acc.violation(k + "update-vs-data", "%s: update(m) path = %s, RFC 7693 says %s"
                      % (what, d2.hex(), exp.hex()), case)
    if hx != exp.hex():
        acc.violation(k + "hexdigest", "%s: hexdigest() = %r, expected %s" % (what, hx, exp.hex()), case)
    if ds != len(exp):
        acc.violation(k + "digest_size", "%s: digest_size = %r" % (what, ds), case)
    if d3 != exp:
        acc.violation(k + "obj.new", "%s: obj.new(data=m, key=k).digest() = %s, RFC 7693 says %s"
                      % (what, d3.hex(), exp.hex()), case)
    if do_verify:
        other = _b2ref(variant, dbytes, key, msg + b"x")
        run_verify(acc, fam, algo, lambda: mod.new(data=msg, **kw), exp, None, other, what, case)


def blake2_grid(acc, variant, dbytes, maxmsg):
    """Tight loop: every key length x every message length 0..maxmsg for one digest size."""
    mod = lib()["BLAKE2"][variant]
    new = mod.new
    f = hashlib.blake2b if variant == "b" else hashlib.blake2s
    maxkey = 64 if variant == "b" else 32
    kbuf = val(3, maxkey, "b2key")
    mbuf = val(3, maxmsg + 300, "b2msg")
    n = 0
    for kl in range(maxkey + 1):
        key = kbuf[:kl]
        acc.seen("shapes", ("blake2", variant, dbytes, kl))
        for ml in range(maxmsg + 1):
            off = (kl * 7 + dbytes) % 251
            msg = mbuf[off:off + ml]
            n += 1
            try:
                if kl:
                    d = new(digest_bytes=dbytes, key=key, data=msg).digest()
                else:
                    d = new(digest_bytes=dbytes, data=msg).digest()
                bad = d != f(msg, digest_size=dbytes, key=key).digest()
            except Exception:  # noqa
                bad = True
            if bad:
                check_blake2(acc, variant, dbytes, key, msg, counted=True)
    for ml in range(maxmsg + 1):
        acc.seen("shapes", ("blake2-msglen", variant, ml))
    acc.count("evaluations", n)
    acc.count("blake2_grid_cases", n)


# ===========================================================================
# enumeration: case descriptors are small tuples ("part", ints...); workers derive the values
# ===========================================================================
def _dedupe(xs):
    out = []
    for x in xs:
        if x not in out:
            out.append(x)
    return out


def _rate(bits):
    return R.rate_of(bits)


# ---- hash -----------------------------------------------------------------
def d_hash(acc, algo, n, kind):
    check_hash(acc, algo, val(kind, n, "hash/" + algo))


def d_hashbig(acc, algo, total):
    check_hash_stream(acc, algo, total)


STREAM_ALGOS = ("MD5", "RIPEMD160", "SHA1", "SHA224", "SHA256", "SHA384", "SHA512", "SHA512_224", "SHA512_256")


def gen_hash(q):
    groups = []
    for algo, (f, B, D, hl) in R.HASH_REF.items():
        slow = hl is None
        if "alias" in algo:
            lens, kinds = [0, 1, 55, 56, 63, 64, 65, 119, 120, 128, 129], (2, 3)
        elif algo.startswith(("SHA3", "keccak")):
            lens, kinds = range(0, (2 if q else 4) * B + 2), ((2, 3) if slow and q else (0, 1, 2, 3))
        else:
            lens = range(0, max((3 if q else 8) * B + 1, 193 if not (q and slow) else 0) + 1)
            kinds = (2, 3) if slow and q else (0, 1, 2, 3)
        cases = [("hash", algo, n, k) for n in lens for k in kinds]
        per = 700 if slow else 40
        for c in chunks(cases, 8):
            groups.append((per * len(c), c))
    total = (1 << 24) + 1 if q else (1 << 29) + 1
    for algo in STREAM_ALGOS:
        groups.append((total // 60, [("hashbig", algo, total)]))
    if not q:
        # BLAKE2s keeps a 32-bit low offset counter: cross 2^32 bytes once
        groups.append(((1 << 32) // 40, [("hashbig", "BLAKE2s", (1 << 32) + 65)]))
    return groups


# ---- SHAKE ------------------------------------------------------------------
def d_shake(acc, bits, n, kind, reads):
    check_shake(acc, bits, val(kind, n, "shake"), reads)


def gen_shake(q):
    cases = []
    for bits in (128, 256):
        r = _rate(bits)
        for n in range(0, (2 if q else 4) * r + 2):
            for k in ((2, 3) if q else (0, 1, 2, 3)):
                cases.append(("shake", bits, n, k, (32,)))
        for outlen in range(0, (2 if q else 3) * r + 2):
            for n in (0, r - 1, r + 1):
                cases.append(("shake", bits, n, 2, _split(outlen)))
        L = 2 * r + 1
        for a in range(0, L + 1):
            cases.append(("shake", bits, 3, 3, (a, L - a)))
        cases.append(("shake", bits, 17, 3, (10 * r + 7,)))
        cases.append(("shake", bits, 17, 3, (1, r - 1, r, r + 1, 5)))
    return [(30 * len(c), c) for c in chunks(cases, 16)]


# ---- cSHAKE -----------------------------------------------------------------
def d_cshake(acc, bits, n, kind, outlen, clen, flen):
    custom = None if clen is None else val(3, clen, "cshake-custom")
    fn = None if flen is None else val(2, flen, "fn")
    if fn is not None and custom is None:
        custom = b""
    check_cshake(acc, bits, val(kind, n, "cshake-msg"), outlen, custom, fn)


def custom_lengths(bits):
    r = _rate(bits)
    return _dedupe([None, 0, 1, 31, 32, 33, 254, 255, 256, 257, r - 8, r - 7, r - 6, 2 * r - 8, 2 * r - 7,
                    2 * r - 6, 8191, 8192, 8193, 65536])


def gen_cshake(q):
    groups = []
    for bits in (128, 256):
        r = _rate(bits)
        full = list(range(0, 2 * r + 2))
        few = [0, 1, r - 1, r, r + 1, 2 * r + 1]
        for clen in custom_lengths(bits):
            if q:
                cases = [("cshake", bits, n, 3, 32, clen, None) for n in full]
                cases += [("cshake", bits, n, 2, 32, clen, None) for n in few]
            else:
                cases = [("cshake", bits, n, k, 32, clen, None) for n in full for k in (2, 3)]
            if clen == 1:
                cases += [("cshake", bits, 3, 3, o, clen, None) for o in range(0, 2 * r + 2)]
            groups.append((900 * len(cases) + 2 * (clen or 0), cases))
        for flen in (0, 1, 4, 9, 31, 32, 33, 255, 256):
            for clen in (0, 1, 32):
                cases = [("cshake", bits, n, 3, 32, clen, flen) for n in (0, r + 1)]
                groups.append((900 * len(cases), cases))
    return groups


# ---- KMAC -------------------------------------------------------------------
def d_kmac(acc, bits, klen, clen, n, mac_len, verify):
    custom = None if clen is None else val(3, clen, "kmac-custom")
    check_kmac(acc, bits, val(3, klen, "kmac-key"), custom, val(3, n, "kmac-msg"), mac_len, verify)


def gen_kmac(q):
    groups = []
    for bits in (128, 256):
        r = _rate(bits)
        mk = KMAC_MINKEY[bits]
        KL = _dedupe([mk - 1, mk, mk + 1, r - 6, r - 5, r - 4, r - 1, r, r + 1, 2 * r])
        ML = [None, 7, 8, 9, 31, 32, 64, r - 1, r, r + 1]
        NL = [0, 1, r - 1, r, r + 1]
        CL = [None, 0, 1, 31, 32, 33, 254, 255, 256, 257, 65536]
        for clen in CL:
            for klen in KL:
                cases = [("kmac", bits, klen, clen, n, m, False) for n in NL for m in ML]
                groups.append((1000 * len(cases) + 3 * (clen or 0), cases))
        for klen in ([mk + 1] if q else KL[1:]):
            cases = [("kmac", bits, klen, 1, n, 32, False) for n in range(0, 2 * r + 2)]
            groups.append((1000 * len(cases), cases))
        for klen in (mk, r + 1):
            cases = [("kmac", bits, klen, 0, n, m, True) for m in (8, 32, r + 1) for n in (0, r + 1)]
            groups.append((60000 * len(cases), cases))
    return groups


# ---- TupleHash ----------------------------------------------------------------
def d_tuplehash(acc, bits, lens, clen, dbytes, use_bits):
    custom = None if clen is None else val(3, clen, "th-custom")
    items = [val(3, l, "th-item%d" % i) for i, l in enumerate(lens)]
    check_tuplehash(acc, bits, items, custom, dbytes, use_bits)


def gen_tuplehash(q):
    groups = []
    for bits in (128, 256):
        r = _rate(bits)
        L1 = [0, 1, 2, 31, 32, 33, r - 4, r - 3, r - 2, r - 1, r, r + 1]
        L2 = [0, 1, 32, r - 3, r - 2, r]
        L3 = [0, 1, 32]
        tuples = [()] + [(a,) for a in L1] + [(a, b) for a in L2 for b in L2] \
            + [(a, b, c) for a in L3 for b in L3 for c in L3]
        CL = [None, 0, 1, 255, 256, 257]
        DL = [None, 8, 9, 32, 64, r - 1, r + 1]
        for clen in CL:
            cases = [("tuplehash", bits, t, clen, d, False) for t in tuples for d in DL]
            cases += [("tuplehash", bits, t, clen, d, True) for t in tuples[:14] for d in (8, 64)]
            cases.append(("tuplehash", bits, (1,), clen, 7, False))
            for c in chunks(cases, 4):
                groups.append((1100 * len(c), c))
        cases = [("tuplehash", bits, t, 65536, 32, False) for t in ((), (1,), (r, 0))]
        groups.append((1100 * len(cases) + 200000, cases))
    return groups


# ---- TurboSHAKE ---------------------------------------------------------------
def d_turbo(acc, bits, n, kind, reads, domain):
    check_turbo(acc, bits, val(kind, n, "turbo"), reads, domain)


def gen_turbo(q):
    cases = []
    for bits in (128, 256):
        r = _rate(bits)
        for n in range(0, (2 if q else 4) * r + 2):
            for dom in (None, 0x01, 0x7F):
                for k in ((3,) if q else (2, 3)):
                    cases.append(("turbo", bits, n, k, (32,), dom))
        for dom in range(1, 0x80):
            for n in (0, 1, r - 2, r - 1, r, r + 1):
                cases.append(("turbo", bits, n, 3, (32,), dom))
        for dom in (0, 0x80, 0xFF):
            cases.append(("turbo", bits, 0, 3, (32,), dom))
        for outlen in range(0, 2 * r + 2):
            for n in (0, r - 1):
                cases.append(("turbo", bits, n, 2, _split(outlen), 0x1F))
        L = 2 * r + 1
        for a in range(0, L + 1, 1 if not q else 3):
            cases.append(("turbo", bits, 3, 3, (a, L - a), 0x06))
        cases.append(("turbo", bits, 17, 3, (1, r - 1, r, r + 1, 5), 0x0B))
    return [(450 * len(c), c) for c in chunks(cases, 32)]


# ---- KangarooTwelve -----------------------------------------------------------
def d_k12(acc, mlen, mkind, clen, reads, feed):
    custom = None if clen is None else val(3, clen, "k12-custom")
    check_k12(acc, val(mkind, mlen, "k12-msg"), custom, reads, feed)


def _k12_feeds(mlen):
    if mlen == 0:
        return [("data",), ("none",), ("update",)]
    f = [("data",), ("update",)]
    for c in _dedupe([1, 8191, 8192, 8193, mlen - 1]):
        if 0 < c < mlen:
            f.append(("cut", c))
    if mlen > 8192:
        f.append(("chunks", 8192))
    if mlen > 1000:
        f.append(("chunks", 1000))
    return f


def _k12_boundary_mlens(clen):
    c = clen or 0
    s = c + len(K.length_encode(c))
    out = []
    for tot in (8192, 16384):
        for d in (-1, 0, 1):
            if tot + d - s >= 0:
                out.append(tot + d - s)
    return out


def gen_k12(q):
    groups = []
    if q:
        ML = [0, 1, 2, 3, 8190, 8191, 8192, 8193, 8194, 16382, 16383, 16384, 16385, 16386, 24577]
        CL = [None, 0, 1, 255, 256, 8191, 8193]
        CL0 = CL + [8188, 8189, 8190, 8192, 16384]
        kinds = (3,)
    else:
        ML = list(range(0, 4)) + list(range(8180, 8205)) + list(range(16376, 16393)) \
            + list(range(24570, 24585)) + [32768, 32769, 40961, 65536, 65537]
        CL = [None, 0, 1, 2, 255, 256, 257, 8189, 8190, 8191, 8192, 8193, 16384, 65536]
        CL0 = CL + [8187, 8188, 24576]
        kinds = (2, 3)
    for clen in CL0:
        mls = ML if clen in CL else []
        mls = _dedupe(list(mls) + [0] + (_k12_boundary_mlens(clen) if clen in CL else []))
        for mlen in mls:
            for kind in (kinds if mlen else (3,)):
                cases = [("k12", mlen, kind, clen, (32,), f) for f in _k12_feeds(mlen)]
                cases.append(("k12", mlen, kind, clen, (7, 161, 168, 1), ("update",)))
                cost = 3000 + (mlen + (clen or 0)) * 1 + 200 * len(cases)
                groups.append((cost, cases))
    if not q:
        for clen in (None, 1):
            for mlen in range(4, 341):
                groups.append((1500, [("k12", mlen, 3, clen, (32,), ("data",)),
                                      ("k12", mlen, 2, clen, (32,), ("update",))]))
    for mlen, clen in ((0, None), (17, 5), (8193, 0), (8000, 300)):
        cases = [("k12", mlen, 3, clen, (o,), ("data",)) for o in range(0, 338)]
        cases += [("k12", mlen, 3, clen, (a, 337 - a), ("update",)) for a in range(0, 338, 1 if not q else 5)]
        groups.append((5000 + 150 * len(cases), cases))
    return groups


# ---- HMAC ---------------------------------------------------------------------
def d_hmac(acc, hname, klen, kkind, n, mkind, verify):
    check_hmac(acc, hname, val(kkind, klen, "hmac-key"), val(mkind, n, "hmac-msg"), verify)


def gen_hmac(q):
    groups = []
    for hname in HMAC_HASHES:
        f, B, D, hl = R.HASH_REF[hname]
        per = 2500 if hl is None else 120
        NL = _dedupe([x for x in (0, 1, B - 17, B - 16, B - 9, B - 8, B - 1, B, B + 1, 2 * B + 1) if x >= 0])
        if "alias" in hname:
            cases = [("hmac", hname, kl, 3, n, 3, False) for kl in (0, B, B + 1) for n in (0, B + 1)]
            groups.append((per * len(cases), cases))
            continue
        KL = list(range(0, B + 3)) + [2 * B] + ([] if q else [2 * B + 1, 3 * B])
        cases = [("hmac", hname, kl, 3, n, 3, False) for kl in KL for n in NL]
        edge = [B - 1, B, B + 1, 2 * B]
        cases += [("hmac", hname, kl, kk, n, 2, False) for kl in (edge if q else KL) for kk in (0, 1, 2)
                  for n in ((0, B + 1) if q else NL)]
        if not q:
            cases += [("hmac", hname, kl, 3, n, 3, False) for kl in KL
                      for n in range(0, 2 * B + 2) if n not in NL]
        for c in chunks(cases, 4 if q else 16):
            groups.append((per * len(c), c))
        cases = [("hmac", hname, kl, 3, n, 3, True)
                 for kl in ((0, 1, B, B + 1) if q else (0, 1, B - 1, B, B + 1, B + 2, 2 * B))
                 for n in ((0, B + 1) if q else (0, 1, B, B + 1))]
        for c in chunks(cases, 2 if q else 7):
            groups.append(((per + 50 * 18 * D) * len(c), c))
    cases = [("hmac", None, kl, 3, n, 3, False) for kl in (0, 1, 64, 65) for n in (0, 3)]
    groups.append((100 * len(cases), cases))
    return groups


# ---- CMAC ---------------------------------------------------------------------
CMAC_KEYS = {"AES": (16, 24, 32), "DES3": (16, 24), "DES": (8,), "Blowfish": (4, 5, 8, 16, 56),
             "CAST": (5, 16), "ARC2": (5, 16, 128)}
CMAC_REFCOST = {"AES": 60, "DES3": 110, "DES": 50, "Blowfish": 15, "CAST": 15, "ARC2": 15}   # us per block


def d_cmac(acc, cname, klen, kkind, n, mkind, mac_len, cut, verify):
    check_cmac(acc, cname, val(kkind, klen, "cmac-key"), val(mkind, n, "cmac-msg"), mac_len, cut, verify)


def gen_cmac(q):
    groups = []
    for cname, kls in CMAC_KEYS.items():
        bs = 16 if cname == "AES" else 8
        if q and cname == "Blowfish":
            kls = (4, 16, 56)
        if not q:
            kls = {"Blowfish": tuple(range(4, 57)), "CAST": tuple(range(5, 17)),
                   "ARC2": tuple(range(5, 18)) + (64, 127, 128)}.get(cname, kls)
        top = (3 if q else 8) * bs + 1
        for klen in kls:
            for kkind in ((0, 1, 2, 3) if cname == "AES" else (2, 3)):
                cases = []
                for n in range(0, top + 1):
                    for ml in list(range(4, bs + 1)):
                        cases.append(("cmac", cname, klen, kkind, n, 3, ml, None, False))
                    for mk in (0, 1, 2, 3):
                        cases.append(("cmac", cname, klen, kkind, n, mk, None, None, False))
                    if n <= 3 * bs + 1 and kkind == 3:
                        for cut in range(0, n + 1):
                            cases.append(("cmac", cname, klen, kkind, n, 3, None, cut, False))
                cases.append(("cmac", cname, klen, kkind, 0, 3, 3, None, False))
                cases.append(("cmac", cname, klen, kkind, 0, 3, bs + 1, None, False))
                per = 150 + CMAC_REFCOST[cname] * (top // bs // 2 + 2)
                for c in chunks(cases, 2):
                    groups.append((per * len(c) + 7000, c))
            cases = [("cmac", cname, klen, 3, n, 3, ml, None, True) for n in (0, bs, bs + 1)
                     for ml in (4, bs - 1, None)]
            groups.append((25000 * len(cases), cases))
    return groups


# ---- Poly1305 -----------------------------------------------------------------
def _poly_r(i):
    return [bytes(16), b"\xff" * 16, R.R_CLAMP_MAX, asc(16, 1), val(3, 16, "poly-r")][i]


def _poly_s(i):
    return [bytes(16), b"\xff" * 16, val(3, 16, "poly-s")][i]


def d_polyrs(acc, ri, si, n, mkind):
    check_poly_rs(acc, _poly_r(ri), _poly_s(si), val(mkind, n, "poly-msg"))


def poly_key_nonce(cname, variant):
    if cname == "AES":
        if variant == 0:
            return val(3, 32, "poly-aes-key"), val(3, 16, "poly-aes-nonce")
        if variant == 1:            # r all ones (clamped inside), s all ones: maximal carries
            key = val(3, 16, "poly-aes-key") + b"\xff" * 16
            return key, R.poly_aes_nonce_for_s(key, b"\xff" * 16)
        if variant == 2:            # largest clamped r, s = 0
            key = asc(16) + R.R_CLAMP_MAX
            return key, R.poly_aes_nonce_for_s(key, bytes(16))
        return bytes(32), bytes(16)
    if variant == 0:
        return val(3, 32, "poly-cc-key"), val(3, 12, "poly-cc-nonce")
    if variant == 1:
        return val(3, 32, "poly-cc-key"), val(3, 8, "poly-cc-nonce")
    if variant == 2:
        return bytes(32), bytes(12)
    return b"\xff" * 32, b"\xff" * 8


def d_poly(acc, cname, variant, n, mkind, verify):
    key, nonce = poly_key_nonce(cname, variant)
    check_poly(acc, cname, key, nonce, val(mkind, n, "poly-msg"), verify)


def gen_poly(q):
    top = 65 if q else 257
    cases = [("polyrs", ri, si, n, mk) for ri in range(5) for si in range(3) for n in range(0, top + 1)
             for mk in (0, 1, 2, 3)]
    groups = [(60 * len(c), c) for c in chunks(cases, 8)]
    for cname in ("AES", "ChaCha20"):
        cases = [("poly", cname, v, n, mk, False) for v in range(4) for n in range(0, top + 1) for mk in (1, 3)]
        groups += [(500 * len(c), c) for c in chunks(cases, 4)]
        cases = [("poly", cname, v, n, 3, True) for v in (0, 1) for n in (0, 16, 17)]
        groups.append((15000 * len(cases), cases))
    return groups


# ---- BLAKE2 ---------------------------------------------------------------------
def d_b2grid(acc, variant, dbytes, maxmsg):
    blake2_grid(acc, variant, dbytes, maxmsg)


def d_b2full(acc, variant, dbytes, klen, n, use_bits, verify):
    check_blake2(acc, variant, dbytes, val(3, klen, "b2key"), val(3, n, "b2full-msg"), use_bits, verify)


def gen_blake2(q):
    groups = []
    for variant, maxd, block in (("b", 64, 128), ("s", 32, 64)):
        maxmsg = (2 if q else 3) * block + 1
        for d in range(1, maxd + 1):
            groups.append(((maxd + 1) * (maxmsg + 1) * 13, [("b2grid", variant, d, maxmsg)]))
        cases = [("b2full", variant, d, kl, n, ub, False) for d in range(1, maxd + 1) for kl in (0, 1, maxd)
                 for n in (0, block, block + 1) for ub in (False, True)]
        groups += [(50 * len(c), c) for c in chunks(cases, 2)]
        for d in _dedupe([1, 16, 20, maxd]):
            cases = [("b2full", variant, d, kl, n, False, True) for kl in (0, 1, maxd) for n in (0, block + 1)]
            groups.append((60 * 18 * d * len(cases), cases))
    return groups


DISPATCH = {"hash": d_hash, "hashbig": d_hashbig, "shake": d_shake, "cshake": d_cshake, "kmac": d_kmac,
            "tuplehash": d_tuplehash, "turbo": d_turbo, "k12": d_k12, "hmac": d_hmac, "cmac": d_cmac,
            "polyrs": d_polyrs, "poly": d_poly, "b2grid": d_b2grid, "b2full": d_b2full}
GENERATORS = (gen_hash, gen_shake, gen_cshake, gen_kmac, gen_tuplehash, gen_turbo, gen_k12, gen_hmac,
              gen_cmac, gen_poly, gen_blake2)


def pack(groups, nshards):
    """Longest-processing-time-first packing of (cost, cases) groups into shards; a group is never split
    (its cases share a primed reference state).  Deterministic."""
    order = sorted(range(len(groups)), key=lambda i: (-groups[i][0], i))
    loads = [0] * nshards
    shards = [[] for _ in range(nshards)]
    for i in order:
        j = loads.index(min(loads))
        loads[j] += groups[i][0]
        shards[j].append(groups[i][1])
    out = sorted(zip(loads, range(nshards), shards), key=lambda t: (-t[0], t[1]))
    return [s for _, _, s in out if s]


def worker(shard):
    acc = MinAcc()
    try:
        install_seam()
    except Exception as e:  # noqa
        acc.error(str(e))
        return acc
    n0 = SEAM["n"]
    for group in shard:
        for case in group:
            if case[0] == "selftest":
                selftest_case(acc, case[1])
            else:
                DISPATCH[case[0]](acc, *case[1:])
    for v in _SAMPLES.values():
        acc.sample(v)
    acc.count("seam_calls", SEAM["n"] - n0)
    return acc


def selftest_case(acc, i):
    try:
        if i < len(R.REF_MODULES):
            if R.REF_MODULES[i].selftest() is False:
                acc.error("reference selftest failed: %s" % R.REF_MODULES[i].__name__)
        else:
            R.selftest_glue()
    except Exception as e:  # noqa
        import traceback
        acc.error("reference selftest failed (%s):\n%s" % (i, traceback.format_exc()))
    acc.count("selftests")


# ===========================================================================
def run(ctx):
    import time
    q = ctx.quick
    t0 = time.time()
    ctx.acc = MinAcc()
    groups = []
    expected = {}
    names = {"hash": "hash_cases", "hashbig": "hash_stream_cases", "shake": "shake_cases",
             "cshake": "cshake_cases", "kmac": "kmac_cases", "tuplehash": "tuplehash_cases",
             "turbo": "turbo_cases", "k12": "k12_cases", "hmac": "hmac_cases", "cmac": "cmac_cases",
             "polyrs": "poly_rs_cases", "poly": "poly_cases", "b2full": "blake2_cases"}
    for gen in GENERATORS:
        gs = gen(q)
        groups += gs
        for _, cases in gs:
            for c in cases:
                if c[0] == "b2grid":
                    expected["blake2_grid_cases"] = expected.get("blake2_grid_cases", 0) \
                        + ((64 if c[1] == "b" else 32) + 1) * (c[3] + 1)
                else:
                    expected[names[c[0]]] = expected.get(names[c[0]], 0) + 1
    nself = len(R.REF_MODULES) + 1
    groups += [(3000000, [("selftest", i)]) for i in range(nself)]
    shards = pack(groups, max(32, ctx.workers * 6))
    ctx.coverage_extra["enumeration_build_s"] = round(time.time() - t0, 2)
    ctx.pmap(worker, shards)
    a = ctx.acc
    n = a.n

    # ---- vacuity guards --------------------------------------------------------
    ctx.require(n.get("selftests", 0) == nself, "reference selftests did not all run")
    for k, v in sorted(expected.items()):
        ctx.require(n.get(k, 0) == v, "%s: executed %d of %d enumerated cases" % (k, n.get(k, 0), v))
    ctx.require(n.get("verify_accept", 0) > 0 and n.get("verify_reject", 0) > 0,
                "verify(): accept and reject must both be observed")
    ctx.require(n.get("verify_reject", 0) + n.get("verify_accept", 0) + n.get("verify_other", 0) > 100000,
                "verify(): fewer candidates offered than the tag alphabet must produce")
    ctx.require(n.get("seam_calls", 0) >= (n.get("verify_accept", 0) + n.get("verify_reject", 0)) // 2,
                "the get_random_bytes seam was not reached by every verify() call")
    macs = set(s[2] for s in a.distinct.get("shapes", ()) if s[0] == "verify")
    want = 15 + 6 + 2 + 2 + 2          # HMAC hashes (without the two alias modules), CMAC ciphers, KMAC, Poly1305, BLAKE2
    ctx.require(len(macs) >= want, "verification alphabet ran on %d MACs, expected >= %d" % (len(macs), want))
    for cls in ("authentic", "truncated", "extended-00", "extended-next", "other-message", "bitflip"):
        ctx.require(any(s[0] == "verify" and s[3] == cls for s in a.distinct.get("shapes", ())),
                    "candidate class %s never offered" % cls)
    for part in ("hash", "shake", "cshake", "kmac", "tuplehash", "turbo", "k12", "hmac", "cmac", "poly"):
        ctx.require(len(a.distinct.get("out/" + part, ())) >= 100,
                    "part %s produced fewer than 100 distinct reference outputs" % part)
    ctx.require(n.get("refused_by_policy", 0) > 0, "no documented parameter refusal was exercised")
    shapes = a.distinct.get("shapes", ())
    ctx.require(any(s[0] == "k12" and s[1] == 0 and (s[2] or 0) >= 8190 and s[4] == ("none",) for s in shapes),
                "the KangarooTwelve long-customisation / no-update case was not executed")

    per_part = {}
    for s in shapes:
        per_part[s[0]] = per_part.get(s[0], 0) + 1
    ctx.coverage_extra.update({
        "evaluations": n.get("evaluations", 0),
        "distinct_nontrivial": len(shapes),
        "exhaustive": not a.caps,
        "distinct_shapes_per_part": per_part,
        "cases_per_part": {k: n.get(k, 0) for k in sorted(set(expected) | {"blake2_cases"})},
        "verify_outcomes": {k: n.get("verify_" + k, 0) for k in ("accept", "reject", "other")},
        "policy_refusals_logged": n.get("refused_by_policy", 0),
        "shards": len(shards),
        "grids": {
            "hash": "MD2 MD4 MD5 RIPEMD160 SHA1 SHA224/256/384/512 SHA512-224/256 SHA3-224..512 Keccak-224..512 "
                    "BLAKE2b-512 BLAKE2s-256 (+aliases SHA, RIPEMD): every message length 0..%s, value alphabet "
                    "zero/ones/ascending/seeded; one long message of %s bytes per Merkle-Damgard hash%s"
                    % ("3*block+1 (sponges 0..2*rate+1)" if q else "8*block+1 (sponges 0..4*rate+1)",
                       "2^24+1" if q else "2^29+1", "" if q else "; BLAKE2s 2^32+65 bytes"),
            "shake": "SHAKE128/256: message 0..%d*rate+1, output 0..%d*rate+1, every split of a 2*rate+1 read"
                     % ((2, 2) if q else (4, 3)),
            "cshake": "cSHAKE128/256: customisation lengths %s x message lengths (0..2*rate+1 %s), output "
                      "0..2*rate+1; function-name lengths 0,1,4,9,31,32,33,255,256 via _new"
                      % (custom_lengths(128), "all, seeded value; 6 boundary lengths ascending value" if q
                         else "all, 2 values"),
            "kmac": "KMAC128/256: key lengths {min-1(refused),min,min+1,rate-6..rate-4,rate-1,rate,rate+1,2*rate} x "
                    "mac_len {default,7(refused),8,9,31,32,64,rate-1,rate,rate+1} x message {0,1,rate-1,rate,rate+1} "
                    "x customisation {omitted,0,1,31,32,33,254..257,65536} (full product); message sweep 0..2*rate+1",
            "tuplehash": "TupleHash128/256: 76 tuples of 0..3 items with boundary lengths x customisation x "
                         "digest_bytes/digest_bits",
            "turboshake": "TurboSHAKE128/256: message 0..%d*rate+1 x domain {default,01,7f}; every domain 01..7f "
                          "x 6 boundary lengths; output 0..2*rate+1; split reads" % (2 if q else 4),
            "k12": "KangarooTwelve: message lengths around 0, 8192, 16384, 24576 (and |S| = 8191..8193, "
                   "16383..16385 for each customisation) x customisation lengths x feeding patterns "
                   "(data=, none, update, two pieces, 8192- and 1000-byte pieces); output 0..337",
            "hmac": "HMAC over %d hash variants: key length 0..block+2 and 2*block%s"
                    % (len(HMAC_HASHES), " x 10 boundary message lengths" if q
                       else ", 2*block+1, 3*block x every message length 0..2*block+1"),
            "cmac": "CMAC over AES/3DES/DES/Blowfish (reference ciphers) and CAST/RC2 (library ECB as primitive), "
                    "key lengths %s: "
                    % ("AES 16/24/32, 3DES 16/24, Blowfish 4/16/56, CAST 5/16, RC2 5/16/128" if q else
                       "AES 16/24/32, 3DES 16/24, Blowfish 4..56 all, CAST 5..16 all, RC2 5..17,64,127,128") +
                    "message 0..%d*block+1 x mac_len 4..block; every two-piece split up to 3*block+1"
                    % (3 if q else 8),
            "poly1305": "Poly1305_MAC(r,s) seam: 5 r x 3 s limb patterns x message 0..%d x 4 values; "
                        "Poly1305-AES / -ChaCha20 (8- and 12-byte nonce) 4 key variants x message 0..%d"
                        % ((65, 65) if q else (257, 257)),
            "blake2": "BLAKE2b: digest_bytes 1..64 x key length 0..64 x message 0..%d; BLAKE2s: 1..32 x 0..32 x "
                      "0..%d; digest_bits entry point and update/hexdigest/obj.new on a sub-grid"
                      % ((257, 129) if q else (385, 193)),
            "verify": "every MAC: authentic, all truncations, +00/+ff/+next-byte extensions, other-message tag, "
                      "every single-bit flip; verify() and hexverify()",
        },
    })
    ctx.assume("data values: zero / ones / ascending / SHAKE256(VERIF_SEED) only (DESIGN 2.4); all shapes in 'grids'")
    ctx.assume("message lengths beyond the stated grids are covered by one long message per Merkle-Damgard hash only "
               "(%s); larger length counters, in particular the 2^64-bit carry of SHA-384/512, are not reached"
               % ("2^24+1 bytes = 2^27+8 bits" if q else
                  "2^29+1 bytes = 2^32+8 bits, crossing the 32-bit word of the bit counter; BLAKE2s 2^32+65 bytes"))
    ctx.assume("CAST-128 and RC2: CMAC is checked relative to the library's own single-block encryption")
    ctx.assume("library-chosen random nonces of Poly1305.new(nonce=None) are not exercised")
    ctx.assume("parameter refusals documented by the library (KMAC key < 16/32 bytes, mac_len/digest < 8, "
               "CMAC mac_len outside 4..block, TurboSHAKE domain outside 01..7f) are logged, not judged")
    ctx.assume("verify(): the random 16-byte secret comes from the get_random_bytes seam of each MAC module")
    ctx.assume("cSHAKE function names other than '', 'KMAC', 'TupleHash' are reached through the private _new()")


# ===========================================================================
def replay(case, acc):
    install_seam()
    p = case["part"]
    if p == "hash":
        check_hash(acc, case["algo"], case["msg"])
    elif p == "hash-stream":
        check_hash_stream(acc, case["algo"], case["total"])
    elif p == "shake":
        check_shake(acc, case["bits"], case["msg"], tuple(case["reads"]))
    elif p == "cshake":
        check_cshake(acc, case["bits"], case["msg"], case["outlen"], case["custom"], case["fn"])
    elif p == "kmac":
        check_kmac(acc, case["bits"], case["key"], case["custom"], case["msg"], case["mac_len"], case["verify"])
    elif p == "tuplehash":
        check_tuplehash(acc, case["bits"], case["items"], case["custom"], case["dbytes"], case["use_bits"])
    elif p == "turbo":
        check_turbo(acc, case["bits"], case["msg"], tuple(case["reads"]), case["domain"])
    elif p == "k12":
        check_k12(acc, case["msg"], case["custom"], tuple(case["reads"]), case["feed"])
    elif p == "hmac":
        check_hmac(acc, case["hash"], case["key"], case["msg"], case["verify"])
    elif p == "cmac":
        check_cmac(acc, case["cipher"], case["key"], case["msg"], case["mac_len"], case["cut"], case["verify"])
    elif p == "poly-rs":
        check_poly_rs(acc, case["r"], case["s"], case["msg"])
    elif p == "poly":
        check_poly(acc, case["cipher"], case["key"], case["nonce"], case["msg"], case["verify"])
    elif p == "blake2":
        check_blake2(acc, case["variant"], case["dbytes"], case["key"], case["msg"], case["use_bits"],
                     case["verify"])
    else:
        acc.error("unknown replay part %r" % p)
