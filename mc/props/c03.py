"""C03 - hashes, XOFs and MACs equal their standards; MAC verification accepts only the true tag.

ShapeExplorer: complete enumeration of stated finite grids of input *shapes* (message / key /
customisation / output lengths, digest sizes, feeding patterns) times the value alphabet of
DESIGN 2.4, run against the real library; every case is compared with an independent reference
(hashlib / hmac from CPython, pure-Python models in mc.ref).  Every MAC tag is then mutated with
the complete received-tag alphabet (all single-bit flips, all truncations, one-byte extensions,
the tag of another message) and offered to verify()/hexverify().

The thorough tier adds (never enumerated in the quick tier): dense sweeps of every length parameter (key,
customisation, function name, digest / mac length, item lengths, message lengths up to 16 blocks and
2^k-1..2^k+1 up to 1 MiB, length-of-length boundaries of left/right_encode at 2^16 and 2^24 bits,
KangarooTwelve with 4..64 and 256/257 chunks), full parameter x message products (pgrid, thgrid), and the
tight-loop parts seg / rseg / xofgrid / k12cuts: every way to feed a message in 2, 3 or 4 pieces (bytes,
bytearray / memoryview, new(data=)+update, copy() or digest() in mid-stream) and to read an XOF in 2 or 3
pieces, each compared with the reference; see deep_grids() for the exact bounds.
"""
import hashlib
import json

from ..common import Acc, chunks, exc_site, jsonable, short, seeded, asc
from . import _c03_ref as R

LEVEL = "exploration"
RULE = ("complete enumeration of length/parameter grids per algorithm (see 'grids'); a case is one "
        "library computation compared with the reference; cases are distinct by (part, algorithm, "
        "enumerated shape parameters); distinct_nontrivial = number of distinct such shape tuples "
        "actually executed plus distinct (MAC, candidate class, entry point, outcome) verification classes")
BUDGET = {"quick": 200, "thorough": 1700}

K = R.K


class MinAcc(Acc):
    """Acc that keeps, per violation key, the *smallest* failing case (by size of its JSON form, then
    text) instead of the first one merged, so that the reported input does not depend on which worker
    finishes first."""

    @staticmethod
    def _rank(rec):
        r = rec.get("_rank")
        if r is None:
            r = rec["_rank"] = [len(json.dumps(rec["case"], sort_keys=True)), rec["what"]]
        return r

    def violation(self, key, what, case, script=None):
        self.viol_count[key] = self.viol_count.get(key, 0) + 1
        rec = {"key": key, "what": what, "case": jsonable(case), "script": script}
        old = self.viol.get(key)
        if old is None or self._rank(rec) < self._rank(old):
            self.viol[key] = rec

    def merge(self, o):
        mine = dict(self.viol)
        Acc.merge(self, o)
        for k, v in o.viol.items():
            if k in mine and self._rank(v) < self._rank(mine[k]):
                self.viol[k] = v
        return self

# ---------------------------------------------------------------------------
# value alphabet
# ---------------------------------------------------------------------------
_BUF = {}
KINDS = ("zero", "ones", "asc", "seeded")


def val(kind, n, label="v"):
    """kind: 0 zero, 1 ones, 2 ascending, 3 SHAKE256(seed|label) (prefix-consistent in n)"""
    if kind == 0:
        return bytes(n)
    if kind == 1:
        return b"\xff" * n
    if kind == 2:
        return asc(n)
    b = _BUF.get(label)
    if b is None or len(b) < n:
        b = _BUF[label] = seeded("c03/" + label, max(n, 2048))
    return b[:n]


# ---------------------------------------------------------------------------
# seam: the random secret used by verify() (module attribute get_random_bytes)
# ---------------------------------------------------------------------------
SEAM = {"n": 0, "installed": False}


def _fake_rng(n):
    SEAM["n"] += 1
    return seeded("c03/verify-secret/%d" % SEAM["n"], n)


def install_seam():
    if SEAM["installed"]:
        return
    import importlib
    for name in ("HMAC", "CMAC", "Poly1305", "KMAC128", "BLAKE2b", "BLAKE2s"):
        m = importlib.import_module("Crypto.Hash." + name)
        if not hasattr(m, "get_random_bytes"):
            raise RuntimeError("harness cannot reach seam Crypto.Hash.%s.get_random_bytes" % name)
        m.get_random_bytes = _fake_rng
    SEAM["installed"] = True


# ---------------------------------------------------------------------------
# library side
# ---------------------------------------------------------------------------
class _H(object):
    """How to build one fixed-output hash of the library."""

    def __init__(self, mod, kw=None, positional=True, digestmod=None):
        self.mod = mod
        self.kw = kw or {}
        self.positional = positional
        self.digestmod = digestmod

    def new_kw(self, data):
        return self.mod.new(data=data, **self.kw)

    def new_empty(self):
        return self.mod.new(**self.kw)

    def objnew(self, h, data):
        # .new() on an existing object: a fresh object of the same algorithm/parameters
        if self.positional:
            return h.new(data)
        return h.new(data=data)


_LIB = None


def lib():
    global _LIB
    if _LIB is not None:
        return _LIB
    import importlib
    M = lambda n: importlib.import_module("Crypto.Hash." + n)
    hs = {}
    for n in ("MD2", "MD4", "MD5", "RIPEMD160", "SHA1", "SHA224", "SHA256", "SHA384", "SHA512",
              "SHA3_224", "SHA3_256", "SHA3_384", "SHA3_512"):
        hs[n] = _H(M(n), digestmod=M(n))
    hs["SHA(alias)"] = _H(M("SHA"), digestmod=M("SHA"))
    hs["RIPEMD(alias)"] = _H(M("RIPEMD"), digestmod=M("RIPEMD"))
    s512 = M("SHA512")
    hs["SHA512_224"] = _H(s512, {"truncate": "224"}, digestmod=s512.new(truncate="224"))
    hs["SHA512_256"] = _H(s512, {"truncate": "256"}, digestmod=s512.new(truncate="256"))
    for b in (224, 256, 384, 512):
        hs["keccak%d" % b] = _H(M("keccak"), {"digest_bits": b}, positional=False)
    hs["BLAKE2b"] = _H(M("BLAKE2b"), positional=False)
    hs["BLAKE2s"] = _H(M("BLAKE2s"), positional=False)
    C = lambda n: importlib.import_module("Crypto.Cipher." + n)
    _LIB = {
        "hash": hs,
        "SHAKE": {128: M("SHAKE128"), 256: M("SHAKE256")},
        "cSHAKE": {128: M("cSHAKE128"), 256: M("cSHAKE256")},
        "KMAC": {128: M("KMAC128"), 256: M("KMAC256")},
        "TupleHash": {128: M("TupleHash128"), 256: M("TupleHash256")},
        "TurboSHAKE": {128: M("TurboSHAKE128"), 256: M("TurboSHAKE256")},
        "K12": M("KangarooTwelve"),
        "HMAC": M("HMAC"), "CMAC": M("CMAC"), "Poly1305": M("Poly1305"),
        "BLAKE2": {"b": M("BLAKE2b"), "s": M("BLAKE2s")},
        "cipher": {n: C(n) for n in ("AES", "DES3", "DES", "Blowfish", "CAST", "ARC2", "ChaCha20")},
    }
    return _LIB


HMAC_HASHES = ("MD2", "MD4", "MD5", "RIPEMD160", "SHA1", "SHA224", "SHA256", "SHA384", "SHA512",
               "SHA512_224", "SHA512_256", "SHA3_224", "SHA3_256", "SHA3_384", "SHA3_512",
               "SHA(alias)", "RIPEMD(alias)")


_SAMPLES = {}


def _sample(part, what, exp, got):
    if part not in _SAMPLES:
        _SAMPLES[part] = {"part": part, "case": what, "reference": short(exp, 64), "library": short(got, 64)}


def _raised(acc, fam, algo, e, what, case):
    acc.violation("C03/%s/%s/raises-%s@%s" % (fam, algo, type(e).__name__, exc_site(e)),
                  "%s raised %s: %s" % (what, type(e).__name__, e), case)


def _split(n):
    return (n // 2, n - n // 2)


# ---------------------------------------------------------------------------
# MAC verification alphabet
# ---------------------------------------------------------------------------
VERIFY_MODES = ("verify", "hexverify")
VERIFY_MODES_TYPED = ("verify", "hexverify", "verify-bytearray", "verify-memoryview")


def run_verify(acc, fam, algo, mk, tag, longer, other, what, case, level=1):
    """mk() -> fresh MAC object holding the message; tag = reference tag (== library tag).
    level (the 'verify' field of a case): 1/True = verify(bytes), hexverify(str); 3 = additionally the candidate
    as bytearray and as memoryview slice; 2 = as 3 plus the extended candidate alphabet (two-bit flips, byte
    substitutions) for tags <= 16 bytes."""
    level = int(level)
    obj = mk()
    for cls, cand in R.tag_candidates(tag, longer, other, level == 2):
        good = cand == tag
        for mode in (VERIFY_MODES if level == 1 else VERIFY_MODES_TYPED):
            acc.count("evaluations")
            try:
                if mode == "verify":
                    obj.verify(cand)
                elif mode == "verify-bytearray":
                    obj.verify(bytearray(cand))
                elif mode == "verify-memoryview":
                    obj.verify(_mv(cand))
                else:
                    obj.hexverify(cand.hex())
                res = "accept"
            except ValueError:
                res = "reject"
            except Exception as e:  # noqa
                res = "raises-" + type(e).__name__
            acc.seen("shapes", ("verify", fam, algo, cls, mode, res))
            acc.count("verify_" + (res if res in ("accept", "reject") else "other"))
            key = None
            if res == "accept" and not good:
                key = "accepts-" + cls
            elif res == "reject" and good:
                key = "rejects-authentic"
            elif res not in ("accept", "reject"):
                key = "%s-on-%s" % (res, "authentic" if good else "forged")
            if key:
                acc.violation("C03/%s/%s/%s/%s" % (fam, algo, mode, key),
                              "%s: %s(%s candidate %s) -> %s; the true tag is %s"
                              % (what, mode, cls, short(cand), res, short(tag)), case)


# ---------------------------------------------------------------------------
# part: fixed-output hashes
# ---------------------------------------------------------------------------
def check_hash(acc, algo, msg):
    L = lib()["hash"][algo]
    exp = R.hash_ref(algo, msg)
    acc.count("evaluations", 4)
    acc.count("hash_cases")
    acc.seen("shapes", ("hash", algo, len(msg)))
    acc.seen("out/hash", exp[:6])
    case = {"part": "hash", "algo": algo, "msg": msg}
    what = "%s of %d-byte message %s" % (algo, len(msg), short(msg, 24))
    try:
        h1 = L.new_kw(msg)
        d1 = h1.digest()
        d1b = h1.digest()
        hx = h1.hexdigest()
        ds = h1.digest_size
        h2 = L.new_empty()
        h2.update(msg)
        d2 = h2.digest()
        d3 = L.objnew(h2, msg).digest()
    except Exception as e:  # noqa
        return _raised(acc, "hash", algo, e, what, case)
    k = "C03/hash/%s/" % algo
    if len(msg) > 60:
        _sample("hash", what, exp, d1)
    if d1 != exp:
        return acc.violation(k + "value", "%s: new(data=m).digest() = %s, standard says %s"
                             % (what, d1.hex(), exp.hex()), case)
    if d2 != exp:
        acc.violation(k + "update-vs-data", "%s: new().update(m).digest() = %s, standard says %s"
                      % (what, d2.hex(), exp.hex()), case)
    if d1b != exp:
        acc.violation(k + "second-digest", "%s: second digest() call = %s, first (correct) = %s"
                      % (what, d1b.hex(), exp.hex()), case)
    if hx != exp.hex():
        acc.violation(k + "hexdigest", "%s: hexdigest() = %r, standard says %s" % (what, hx, exp.hex()), case)
    if d3 != exp:
        acc.violation(k + "obj.new", "%s: obj.new(m).digest() = %s, standard says %s"
                      % (what, d3.hex(), exp.hex()), case)
    if ds != len(exp):
        acc.violation(k + "digest_size", "%s: digest_size = %r, standard length %d" % (what, ds, len(exp)), case)


_PATTERN = None


def check_hash_stream(acc, algo, total):
    """A long message fed in 1 MiB pieces (bit counters above 2^24 / 2^32), reference fed the same way."""
    global _PATTERN
    if _PATTERN is None:
        _PATTERN = asc(251) * 4178           # 1 048 678 bytes, period 251 (co-prime to block sizes)
    L = lib()["hash"][algo]
    hl = R.HASH_REF[algo][3]
    ref = hashlib.new(hl)
    acc.count("evaluations")
    acc.count("hash_stream_cases")
    acc.seen("shapes", ("hash-stream", algo, total))
    case = {"part": "hash-stream", "algo": algo, "total": total}
    what = "%s of %d bytes (pattern 00..fa repeated, fed in pieces of %d)" % (algo, total, len(_PATTERN))
    try:
        h = L.new_empty()
        left = total
        while left > 0:
            piece = _PATTERN if left >= len(_PATTERN) else _PATTERN[:left]
            h.update(piece)
            ref.update(piece)
            left -= len(piece)
        d = h.digest()
    except Exception as e:  # noqa
        return _raised(acc, "hash", algo, e, what, case)
    exp = ref.digest()
    if d != exp:
        acc.violation("C03/hash/%s/value-long-message" % algo,
                      "%s: digest %s, standard says %s" % (what, d.hex(), exp.hex()), case)


def check_hash_oneshot(acc, algo, total):
    """ONE update() call carrying `total` bytes (>= 2^32 bits: whatever a single call adds to the length counter must not
    be narrower than the counter).  Compared with hashlib where it has the algorithm, and with the library's own digest
    of the same bytes fed in 16 MiB pieces (the property's segmentation clause; the only comparator for MD4)."""
    global _PATTERN
    if _PATTERN is None:
        _PATTERN = asc(251) * 4178
    L = lib()["hash"][algo]
    hl = R.HASH_REF[algo][3]
    acc.count("evaluations")
    acc.count("hash_oneshot_cases")
    acc.seen("shapes", ("hash-one", algo, total))
    case = {"part": "hash-one", "algo": algo, "total": total}
    what = "%s of %d bytes (pattern 00..fa repeated) in ONE update() call" % (algo, total)
    buf = (_PATTERN * (total // len(_PATTERN) + 1))[:total]
    try:
        h = L.new_empty()
        h.update(buf)
        d = h.digest()
        d0 = L.new_kw(buf).digest()
        h2 = L.new_empty()
        step = 1 << 24
        mv = memoryview(buf)
        for off in range(0, total, step):
            h2.update(mv[off:off + step])
        d2 = h2.digest()
    except Exception as e:  # noqa
        return _raised(acc, "hash", algo, e, what, case)
    exp = hashlib.new(hl, buf).digest() if hl else None
    del buf
    if exp is not None and d != exp:
        acc.violation("C03/hash/%s/value-single-long-call" % algo,
                      "%s: digest %s, standard says %s" % (what, d.hex(), exp.hex()), case)
    elif d != d2 or d0 != d:
        acc.violation("C03/hash/%s/value-single-long-call" % algo,
                      "%s: digest %s (new(data): %s), the same bytes in 16 MiB pieces give %s" % (what, d.hex(), d0.hex(), d2.hex()), case)
    if exp is not None and d2 != exp:
        acc.violation("C03/hash/%s/value-long-message" % algo,
                      "%s of %d bytes in 16 MiB pieces: digest %s, standard says %s" % (algo, total, d2.hex(), exp.hex()), case)


# ---------------------------------------------------------------------------
# part: SHAKE128/256 (reference: hashlib)
# ---------------------------------------------------------------------------
def check_shake(acc, bits, msg, reads):
    mod = lib()["SHAKE"][bits]
    algo = "SHAKE%d" % bits
    outlen = sum(reads)
    exp = (hashlib.shake_128 if bits == 128 else hashlib.shake_256)(msg).digest(outlen)
    acc.count("evaluations", 3)
    acc.count("shake_cases")
    acc.seen("shapes", ("shake", bits, len(msg), tuple(reads)))
    acc.seen("out/shake", exp[:6])
    case = {"part": "shake", "bits": bits, "msg": msg, "reads": list(reads)}
    what = "%s of %d-byte message %s, output %d bytes" % (algo, len(msg), short(msg, 24), outlen)
    try:
        x1 = mod.new(data=msg).read(outlen)
        h2 = mod.new()
        h2.update(msg)
        x2 = b"".join(h2.read(r) for r in reads)
        x3 = h2.new(data=msg).read(outlen)
    except Exception as e:  # noqa
        return _raised(acc, "xof", algo, e, what, case)
    k = "C03/xof/%s/" % algo
    if x1 != exp:
        return acc.violation(k + "value", "%s: new(data=m).read(n) = %s, standard says %s"
                             % (what, short(x1), short(exp)), case)
    if x2 != exp:
        acc.violation(k + "update-or-split-read", "%s: update(m) then read%s = %s, standard says %s"
                      % (what, tuple(reads), short(x2), short(exp)), case)
    if x3 != exp:
        acc.violation(k + "obj.new", "%s: obj.new(data=m).read(n) = %s, standard says %s"
                      % (what, short(x3), short(exp)), case)


# ---------------------------------------------------------------------------
# part: cSHAKE128/256  (fn=None: public new(data, custom); fn=bytes: the _new(data, custom, function)
# entry point that KMAC and TupleHash are built on)
# ---------------------------------------------------------------------------
def check_cshake(acc, bits, msg, outlen, custom, fn=None):
    mod = lib()["cSHAKE"][bits]
    algo = "cSHAKE%d" % bits
    exp = R.cshake_ref(bits, msg, outlen, fn or b"", custom or b"")
    acc.count("evaluations", 2)
    acc.count("cshake_cases")
    acc.seen("shapes", ("cshake", bits, len(msg), outlen, None if custom is None else len(custom),
                        None if fn is None else len(fn)))
    acc.seen("out/cshake", exp[:6])
    case = {"part": "cshake", "bits": bits, "msg": msg, "outlen": outlen, "custom": custom, "fn": fn}
    what = "%s, %d-byte message, customisation %s, %soutput %d bytes" % (
        algo, len(msg), "omitted" if custom is None else "%d bytes" % len(custom),
        "" if fn is None else "function name %d bytes, " % len(fn), outlen)
    try:
        if fn is None:
            x1 = (mod.new(data=msg) if custom is None else mod.new(data=msg, custom=custom)).read(outlen)
            h2 = mod.new() if custom is None else mod.new(custom=custom)
        else:
            x1 = mod._new(msg, custom, fn).read(outlen)
            h2 = mod._new(None, custom, fn)
        h2.update(msg)
        a, b = _split(outlen)
        x2 = h2.read(a) + h2.read(b)
    except Exception as e:  # noqa
        return _raised(acc, "xof", algo, e, what, case)
    k = "C03/xof/%s/%s" % (algo, "" if fn is None else "function-name/")
    if x1 != exp:
        return acc.violation(k + "value", "%s: read(n) = %s, SP 800-185 says %s"
                             % (what, short(x1), short(exp)), case)
    if x2 != exp:
        acc.violation(k + "update-or-split-read", "%s: update(m), read(%d)+read(%d) = %s, SP 800-185 says %s"
                      % (what, a, b, short(x2), short(exp)), case)


# ---------------------------------------------------------------------------
# part: KMAC128/256
# ---------------------------------------------------------------------------
KMAC_MINKEY = {128: 16, 256: 32}


def check_kmac(acc, bits, key, custom, msg, mac_len, do_verify=False):
    """custom=None / mac_len=None: parameter omitted (documented defaults b'' / 64)."""
    mod = lib()["KMAC"][bits]
    algo = "KMAC%d" % bits
    outlen = 64 if mac_len is None else mac_len
    acc.count("kmac_cases")
    acc.seen("shapes", ("kmac", bits, len(key), None if custom is None else len(custom), len(msg), mac_len))
    case = {"part": "kmac", "bits": bits, "key": key, "custom": custom, "msg": msg, "mac_len": mac_len,
            "verify": do_verify}
    what = "%s key %d bytes, customisation %s, message %d bytes, mac_len %s" % (
        algo, len(key), "omitted" if custom is None else "%d bytes" % len(custom), len(msg), mac_len)
    kw = {}
    if custom is not None:
        kw["custom"] = custom
    kw2 = dict(kw)
    if mac_len is not None:
        kw["mac_len"] = mac_len
    try:
        h1 = mod.new(key=key, data=msg, **kw)
    except ValueError as e:
        if len(key) < KMAC_MINKEY[bits] or outlen < 8:
            acc.count("refused_by_policy")
            acc.observe("%s refuses %s (documented library limit; SP 800-185 defines a value)"
                        % (algo, "keys shorter than %d bytes" % KMAC_MINKEY[bits]
                           if len(key) < KMAC_MINKEY[bits] else "mac_len < 8"))
            return
        return _raised(acc, "mac", algo, e, what, case)
    except Exception as e:  # noqa
        return _raised(acc, "mac", algo, e, what, case)
    exp = R.kmac_ref(bits, key, msg, outlen, custom or b"")
    acc.count("evaluations", 3)
    acc.seen("out/kmac", exp[:6])
    try:
        d1 = h1.digest()
        hx = h1.hexdigest()
        ds = h1.digest_size
        h2 = mod.new(key=key, **kw)
        h2.update(msg)
        d2 = h2.digest()
        d3 = h1.new(key=key, data=msg, **kw2).digest()      # mac_len inherited from h1
    except Exception as e:  # noqa
        return _raised(acc, "mac", algo, e, what, case)
    k = "C03/mac/%s/" % algo
    if len(msg) > 1:
        _sample("kmac", what, exp, d1)
    if d1 != exp:
        return acc.violation(k + "value", "%s: digest() = %s, SP 800-185 says %s"
                             % (what, short(d1), short(exp)), case)
    if d2 != exp:
        acc.violation(k + "update-vs-data", "%s: update(m) path = %s, SP 800-185 says %s"
                      % (what, short(d2), short(exp)), case)
    if hx != exp.hex():
        acc.violation(k + "hexdigest", "%s: hexdigest() = %r, expected %s" % (what, hx, exp.hex()), case)
    if ds != len(exp):
        acc.violation(k + "digest_size", "%s: digest_size = %r" % (what, ds), case)
    if d3 != exp:
        if bits == 256 and d3 == R.kmac_ref(128, key, msg, outlen, custom or b""):
            acc.violation("C03/mac/KMAC256/obj.new-yields-KMAC128",
                          "%s: h = KMAC256.new(...); h.new(key=k, data=m).digest() = %s which is KMAC128(k, m), "
                          "KMAC256 is %s" % (what, short(d3), short(exp)), case, script=_SCRIPT_KMAC256)
        else:
            acc.violation(k + "obj.new", "%s: obj.new(key=k, data=m).digest() = %s, SP 800-185 says %s"
                          % (what, short(d3), short(exp)), case)
    if do_verify:
        other = R.kmac_ref(bits, key, msg + b"x", outlen, custom or b"")
        run_verify(acc, "mac", algo, lambda: mod.new(key=key, data=msg, **kw), exp, None, other, what, case,
                   level=do_verify)


_SCRIPT_KMAC256 = """from Crypto.Hash import KMAC128, KMAC256
k = bytes(range(32)); m = b"abc"
h = KMAC256.new(key=k, mac_len=32)
t = h.new(key=k, data=m).digest()
print("obj.new() of a KMAC256 object gives", t.hex())
print("KMAC256:", KMAC256.new(key=k, data=m, mac_len=32).hexdigest())
print("KMAC128:", KMAC128.new(key=k, data=m, mac_len=32).hexdigest())
assert t == KMAC256.new(key=k, data=m, mac_len=32).digest(), "fresh object is not a KMAC256"
"""


# ---------------------------------------------------------------------------
# part: TupleHash128/256
# ---------------------------------------------------------------------------
def check_tuplehash(acc, bits, items, custom, dbytes, use_bits=False):
    """custom=None / dbytes=None: parameter omitted (defaults b'' / 64)."""
    mod = lib()["TupleHash"][bits]
    algo = "TupleHash%d" % bits
    items = [bytes(i) for i in items]
    outlen = 64 if dbytes is None else dbytes
    acc.count("tuplehash_cases")
    acc.seen("shapes", ("tuplehash", bits, tuple(len(i) for i in items),
                        None if custom is None else len(custom), dbytes, use_bits))
    case = {"part": "tuplehash", "bits": bits, "items": items, "custom": custom, "dbytes": dbytes,
            "use_bits": use_bits}
    what = "%s of tuple with item lengths %s, customisation %s, digest %s bytes" % (
        algo, [len(i) for i in items], "omitted" if custom is None else "%d bytes" % len(custom), dbytes)
    kw = {}
    if custom is not None:
        kw["custom"] = custom
    kw2 = dict(kw)
    if dbytes is not None:
        if use_bits:
            kw["digest_bits"] = dbytes * 8
        else:
            kw["digest_bytes"] = dbytes
    try:
        h1 = mod.new(**kw)
    except ValueError as e:
        if outlen < 8:
            acc.count("refused_by_policy")
            acc.observe("%s refuses digests shorter than 8 bytes (documented library limit)" % algo)
            return
        return _raised(acc, "xof", algo, e, what, case)
    except Exception as e:  # noqa
        return _raised(acc, "xof", algo, e, what, case)
    exp = R.tuplehash_ref(bits, items, outlen, custom or b"")
    acc.count("evaluations", 3)
    acc.seen("out/tuplehash", exp[:6])
    try:
        h1.update(*items)
        d1 = h1.digest()
        hx = h1.hexdigest()
        ds = h1.digest_size
        h2 = mod.new(**kw)
        for it in items:
            h2.update(it)
        d2 = h2.digest()
        h3 = h1.new(**kw2)
        h3.update(*items)
        d3 = h3.digest()
    except Exception as e:  # noqa
        return _raised(acc, "xof", algo, e, what, case)
    k = "C03/xof/%s/" % algo
    if d1 != exp:
        return acc.violation(k + "value", "%s: digest() = %s, SP 800-185 says %s"
                             % (what, short(d1), short(exp)), case)
    if d2 != exp:
        acc.violation(k + "one-item-per-update", "%s: update(a).update(b).. = %s, SP 800-185 says %s"
                      % (what, short(d2), short(exp)), case)
    if hx != exp.hex():
        acc.violation(k + "hexdigest", "%s: hexdigest() = %r, expected %s" % (what, hx, exp.hex()), case)
    if ds != len(exp):
        acc.violation(k + "digest_size", "%s: digest_size = %r" % (what, ds), case)
    if d3 != exp:
        if bits == 256 and d3 == R.tuplehash_ref(128, items, outlen, custom or b""):
            acc.violation("C03/xof/TupleHash256/obj.new-yields-TupleHash128",
                          "%s: h = TupleHash256.new(...); h.new().update(*t).digest() = %s which is "
                          "TupleHash128(t), TupleHash256 is %s" % (what, short(d3), short(exp)), case,
                          script=_SCRIPT_TH256)
        else:
            acc.violation(k + "obj.new", "%s: obj.new().update(*t).digest() = %s, SP 800-185 says %s"
                          % (what, short(d3), short(exp)), case)


_SCRIPT_TH256 = """from Crypto.Hash import TupleHash128, TupleHash256
h = TupleHash256.new(digest_bytes=32)
t = h.new().update(b"abc").digest()
print("obj.new() of a TupleHash256 object gives", t.hex())
print("TupleHash256:", TupleHash256.new(digest_bytes=32).update(b"abc").hexdigest())
print("TupleHash128:", TupleHash128.new(digest_bytes=32).update(b"abc").hexdigest())
assert t == TupleHash256.new(digest_bytes=32).update(b"abc").digest(), "fresh object is not a TupleHash256"
"""


# ---------------------------------------------------------------------------
# part: TurboSHAKE128/256
# ---------------------------------------------------------------------------
def check_turbo(acc, bits, msg, reads, domain):
    """domain=None: parameter omitted (default 0x1F)."""
    mod = lib()["TurboSHAKE"][bits]
    algo = "TurboSHAKE%d" % bits
    outlen = sum(reads)
    acc.count("turbo_cases")
    acc.seen("shapes", ("turbo", bits, len(msg), tuple(reads), domain))
    case = {"part": "turbo", "bits": bits, "msg": msg, "reads": list(reads), "domain": domain}
    what = "%s, %d-byte message, domain byte %s, output %d bytes" % (
        algo, len(msg), "omitted" if domain is None else "0x%02x" % domain, outlen)
    kw = {} if domain is None else {"domain": domain}
    d = 0x1F if domain is None else domain
    try:
        h1 = mod.new(data=msg, **kw)
    except ValueError as e:
        if not 1 <= d <= 0x7F:
            acc.count("refused_by_policy")
            acc.observe("%s refuses a domain byte outside 0x01..0x7F (RFC 9861 range)" % algo)
            return
        return _raised(acc, "xof", algo, e, what, case)
    except Exception as e:  # noqa
        return _raised(acc, "xof", algo, e, what, case)
    if not 1 <= d <= 0x7F:
        acc.observe("%s accepts a domain byte outside 0x01..0x7F (no standard value to compare with)" % algo)
        return
    exp = K.turboshake(bits, msg, outlen, d)
    acc.count("evaluations", 3)
    acc.seen("out/turbo", exp[:6])
    try:
        x1 = h1.read(outlen)
        h2 = mod.new(**kw)
        h2.update(msg)
        x2 = b"".join(h2.read(r) for r in reads)
        x3 = h2.new(data=msg).read(outlen)             # domain inherited
    except Exception as e:  # noqa
        return _raised(acc, "xof", algo, e, what, case)
    k = "C03/xof/%s/" % algo
    if x1 != exp:
        return acc.violation(k + "value", "%s: read(n) = %s, RFC 9861 says %s" % (what, short(x1), short(exp)), case)
    if x2 != exp:
        acc.violation(k + "update-or-split-read", "%s: update(m) then read%s = %s, RFC 9861 says %s"
                      % (what, tuple(reads), short(x2), short(exp)), case)
    if x3 != exp:
        acc.violation(k + "obj.new", "%s: obj.new(data=m).read(n) = %s, RFC 9861 says %s"
                      % (what, short(x3), short(exp)), case)


# ---------------------------------------------------------------------------
# part: KangarooTwelve (KT128)
# ---------------------------------------------------------------------------
def check_k12(acc, msg, custom, reads, feed, counted=False):
    """feed: ['data'] new(data=m) | ['none'] no update call at all (empty message only) |
    ['update'] one update(m) | ['cut', c] update(m[:c]), update(m[c:]) | ['cut2', c1, c2] three pieces |
    ['chunks', n] pieces of n bytes.  custom=None: parameter omitted."""
    mod = lib()["K12"]
    feed = list(feed)
    outlen = sum(reads)
    cu = custom or b""
    exp = R.k12_ref(bytes(msg), bytes(cu))[:outlen]
    if not counted:
        acc.count("evaluations")
        acc.count("k12_cases")
        acc.seen("shapes", ("k12", len(msg), None if custom is None else len(custom), tuple(reads), tuple(feed)))
        acc.seen("out/k12", exp[:6])
    case = {"part": "k12", "msg": msg, "custom": custom, "reads": list(reads), "feed": feed}
    what = "KangarooTwelve, %d-byte message, customisation %s, fed by %s, output %d bytes" % (
        len(msg), "omitted" if custom is None else "%d bytes" % len(custom), feed, outlen)
    kw = {} if custom is None else {"custom": custom}
    try:
        if feed[0] == "data":
            h = mod.new(data=msg, **kw)
        else:
            h = mod.new(**kw)
            if feed[0] == "none":
                assert len(msg) == 0
            elif feed[0] == "update":
                h.update(msg)
            elif feed[0] == "cut":
                h.update(msg[:feed[1]])
                h.update(msg[feed[1]:])
            elif feed[0] == "cut2":
                h.update(msg[:feed[1]])
                h.update(msg[feed[1]:feed[2]])
                h.update(msg[feed[2]:])
            elif feed[0] == "chunks":
                for i in range(0, len(msg), feed[1]):
                    h.update(msg[i:i + feed[1]])
            else:
                raise AssertionError("bad feed")
        x = b"".join(h.read(r) for r in reads)
    except AssertionError:
        raise
    except Exception as e:  # noqa
        return _raised(acc, "xof", "K12", e, what, case)
    if len(msg) > 8192:
        _sample("k12", what, exp, x)
    if x != exp:
        s_len = len(cu) + len(K.length_encode(len(cu)))
        if len(msg) == 0 and feed[0] in ("data", "none") and s_len > 8192 \
                and x == R.k12_single_node(cu, outlen):
            acc.violation("C03/K12/long-custom-without-update",
                          "%s: |C || length_encode(|C|)| = %d > 8192 so RFC 9861 requires tree hashing, but "
                          "read() returns the single-node value %s instead of %s (update() was never called, "
                          "so the object is still in its SHORT_MSG state)"
                          % (what, s_len, short(x), short(exp)), case, script=_SCRIPT_K12)
        else:
            acc.violation("C03/xof/K12/value" if feed[0] in ("data", "update") and len(reads) == 1
                          else "C03/xof/K12/segmented-update-or-read",
                          "%s: read = %s, RFC 9861 says %s" % (what, short(x), short(exp)), case)


_SCRIPT_K12 = """from Crypto.Hash import KangarooTwelve as K12
C = bytes(8190)                      # |C| + |length_encode(8190)| = 8193 > 8192  ->  tree hashing
a = K12.new(custom=C).read(32)                  # no update() call
b = K12.new(custom=C).update(b"").read(32)      # same input, one empty update()
print(a.hex()); print(b.hex())
assert a == b, "KT128(M=empty, C) depends on whether update() was called"
"""


# ---------------------------------------------------------------------------
# part: HMAC over every hash module that HMAC accepts
# ---------------------------------------------------------------------------
def check_hmac(acc, hname, key, msg, do_verify=False):
    """hname=None: digestmod omitted (documented default MD5)."""
    HM = lib()["HMAC"]
    refname = "MD5" if hname is None else hname
    algo = "HMAC-" + ("default" if hname is None else hname)
    exp = R.hmac_ref(refname, key, msg)
    acc.count("evaluations", 2)
    acc.count("hmac_cases")
    acc.seen("shapes", ("hmac", hname, len(key), len(msg)))
    acc.seen("out/hmac", exp[:6])
    case = {"part": "hmac", "hash": hname, "key": key, "msg": msg, "verify": do_verify}
    what = "%s key %d bytes %s, message %d bytes" % (algo, len(key), short(key, 16), len(msg))
    kw = {} if hname is None else {"digestmod": lib()["hash"][hname].digestmod}
    try:
        h1 = HM.new(key, msg, **kw)
        d1 = h1.digest()
        d1b = h1.digest()
        hx = h1.hexdigest()
        ds = h1.digest_size
        h2 = HM.new(key, **kw)
        h2.update(msg)
        d2 = h2.digest()
    except Exception as e:  # noqa
        return _raised(acc, "mac", algo, e, what, case)
    k = "C03/mac/%s/" % algo
    if len(key) > 64 and msg:
        _sample("hmac", what, exp, d1)
    if d1 != exp:
        return acc.violation(k + "value", "%s: digest() = %s, RFC 2104 says %s" % (what, d1.hex(), exp.hex()), case)
    if d2 != exp:
        acc.violation(k + "update-vs-msg", "%s: update(m) path = %s, RFC 2104 says %s"
                      % (what, d2.hex(), exp.hex()), case)
    if d1b != exp:
        acc.violation(k + "second-digest", "%s: second digest() = %s, first (correct) %s"
                      % (what, d1b.hex(), exp.hex()), case)
    if hx != exp.hex():
        acc.violation(k + "hexdigest", "%s: hexdigest() = %r, expected %s" % (what, hx, exp.hex()), case)
    if ds != len(exp):
        acc.violation(k + "digest_size", "%s: digest_size = %r" % (what, ds), case)
    if do_verify:
        other = R.hmac_ref(refname, key, msg + b"x")
        run_verify(acc, "mac", algo, lambda: HM.new(key, msg, **kw), exp, None, other, what, case,
                   level=do_verify)


# ---------------------------------------------------------------------------
# part: CMAC
# ---------------------------------------------------------------------------
class _LibBlock(object):
    """CAST-128 / RC2 have no reference primitive (DESIGN 2.3): CMAC is modelled over the library's
    own single-block ECB encryption (decomposition primitive x mode)."""

    def __init__(self, mod, key):
        self.block_size = mod.block_size
        self._c = mod.new(key, mod.MODE_ECB)

    def encrypt_block(self, b):
        return self._c.encrypt(b)


_LIBBLOCK = {}


def _cmac_cipher(cname, key):
    if cname in ("CAST", "ARC2"):
        k = (cname, bytes(key))
        if k not in _LIBBLOCK:
            _LIBBLOCK[k] = _LibBlock(lib()["cipher"][cname], key)
        return _LIBBLOCK[k]
    return R.ref_cipher(cname, key)


def check_cmac(acc, cname, key, msg, mac_len, cut=None, do_verify=False):
    """mac_len=None: omitted (default = block size).  cut=None: new(key, msg=m); cut=c: update(m[:c]), update(m[c:])."""
    CM = lib()["CMAC"]
    cmod = lib()["cipher"][cname]
    algo = "CMAC-" + cname
    bs = cmod.block_size
    outlen = bs if mac_len is None else mac_len
    acc.count("cmac_cases")
    acc.seen("shapes", ("cmac", cname, len(key), len(msg), mac_len, cut))
    case = {"part": "cmac", "cipher": cname, "key": key, "msg": msg, "mac_len": mac_len, "cut": cut,
            "verify": do_verify}
    what = "%s key %s, message %d bytes %s, mac_len %s%s" % (
        algo, key.hex(), len(msg), short(msg, 24), mac_len, "" if cut is None else ", two updates cut at %d" % cut)
    kw = {} if mac_len is None else {"mac_len": mac_len}
    try:
        if cut is None:
            h1 = CM.new(key, msg=msg, ciphermod=cmod, **kw)
        else:
            h1 = CM.new(key, ciphermod=cmod, **kw)
            h1.update(msg[:cut])
            h1.update(msg[cut:])
    except ValueError as e:
        if not 4 <= outlen <= bs:
            acc.count("refused_by_policy")
            acc.observe("CMAC refuses mac_len outside 4..block size (documented library limit)")
            return
        return _raised(acc, "mac", algo, e, what, case)
    except Exception as e:  # noqa
        return _raised(acc, "mac", algo, e, what, case)
    full = R.cmac_ref(_cmac_cipher(cname, key), msg)
    exp = full[:outlen]
    acc.count("evaluations")
    acc.seen("out/cmac", exp[:6])
    try:
        d1 = h1.digest()
        hx = h1.hexdigest()
        ds = h1.digest_size
    except Exception as e:  # noqa
        return _raised(acc, "mac", algo, e, what, case)
    k = "C03/mac/%s/" % algo
    if len(msg) > bs:
        _sample("cmac", what, exp, d1)
    if d1 != exp:
        return acc.violation(k + ("value" if cut is None else "two-updates"),
                             "%s: digest() = %s, SP 800-38B says %s" % (what, d1.hex(), exp.hex()), case)
    if hx != exp.hex():
        acc.violation(k + "hexdigest", "%s: hexdigest() = %r, expected %s" % (what, hx, exp.hex()), case)
    if ds != len(exp):
        acc.violation(k + "digest_size", "%s: digest_size = %r" % (what, ds), case)
    if do_verify:
        other = R.cmac_ref(_cmac_cipher(cname, key), msg + b"x")[:outlen]
        run_verify(acc, "mac", algo, lambda: CM.new(key, msg=msg, ciphermod=cmod, **kw), exp, full, other,
                   what, case, level=do_verify)


# ---------------------------------------------------------------------------
# part: Poly1305
# ---------------------------------------------------------------------------
def check_poly_rs(acc, r, s, msg):
    """Seam Poly1305_MAC(r, s, data): any (r, s) limb pattern."""
    P = lib()["Poly1305"]
    exp = R.poly_ref(r, s, msg)
    acc.count("evaluations", 2)
    acc.count("poly_rs_cases")
    acc.seen("shapes", ("poly-rs", r[:2] + r[-2:], s[:2], len(msg)))
    acc.seen("out/poly", exp[:6])
    case = {"part": "poly-rs", "r": r, "s": s, "msg": msg}
    what = "Poly1305(r=%s, s=%s) of %d-byte message %s" % (r.hex(), s.hex(), len(msg), short(msg, 24))
    try:
        d1 = P.Poly1305_MAC(r, s, msg).digest()
        h2 = P.Poly1305_MAC(r, s, None)
        h2.update(msg)
        d2 = h2.digest()
    except Exception as e:  # noqa
        return _raised(acc, "mac", "Poly1305", e, what, case)
    if d1 != exp:
        return acc.violation("C03/mac/Poly1305/value", "%s: digest() = %s, RFC 8439 2.5 says %s"
                             % (what, d1.hex(), exp.hex()), case)
    if d2 != exp:
        acc.violation("C03/mac/Poly1305/update-vs-data", "%s: update(m) path = %s, RFC 8439 2.5 says %s"
                      % (what, d2.hex(), exp.hex()), case)


def check_poly(acc, cname, key, nonce, msg, do_verify=False):
    P = lib()["Poly1305"]
    cmod = lib()["cipher"][cname]
    algo = "Poly1305-" + cname
    r, s = R.poly_aes_rs(key, nonce) if cname == "AES" else R.poly_chacha_rs(key, nonce)
    exp = R.poly_ref(r, s, msg)
    acc.count("evaluations", 2)
    acc.count("poly_cases")
    acc.seen("shapes", ("poly", cname, len(nonce), len(msg)))
    acc.seen("out/poly", exp[:6])
    case = {"part": "poly", "cipher": cname, "key": key, "nonce": nonce, "msg": msg, "verify": do_verify}
    what = "%s key %s nonce %s, %d-byte message %s" % (algo, key.hex(), nonce.hex(), len(msg), short(msg, 24))
    try:
        h1 = P.new(key=key, cipher=cmod, nonce=nonce, data=msg)
        d1 = h1.digest()
        hx = h1.hexdigest()
        ds = h1.digest_size
        h2 = P.new(key=key, cipher=cmod, nonce=nonce)
        h2.update(msg)
        d2 = h2.digest()
    except Exception as e:  # noqa
        return _raised(acc, "mac", algo, e, what, case)
    k = "C03/mac/%s/" % algo
    if len(msg) > 16:
        _sample("poly1305", what, exp, d1)
    if d1 != exp:
        return acc.violation(k + "value", "%s: digest() = %s, standard says %s (r=%s s=%s)"
                             % (what, d1.hex(), exp.hex(), r.hex(), s.hex()), case)
    if d2 != exp:
        acc.violation(k + "update-vs-data", "%s: update(m) path = %s, standard says %s"
                      % (what, d2.hex(), exp.hex()), case)
    if hx != exp.hex():
        acc.violation(k + "hexdigest", "%s: hexdigest() = %r, expected %s" % (what, hx, exp.hex()), case)
    if ds != 16:
        acc.violation(k + "digest_size", "%s: digest_size = %r" % (what, ds), case)
    if do_verify:
        other = R.poly_ref(r, s, msg + b"x")
        run_verify(acc, "mac", algo, lambda: P.new(key=key, cipher=cmod, nonce=nonce, data=msg), exp, None,
                   other, what, case, level=do_verify)


# ---------------------------------------------------------------------------
# part: BLAKE2b / BLAKE2s  (every digest size x every key length x message lengths)
# ---------------------------------------------------------------------------
def _b2ref(variant, dbytes, key, msg):
    f = hashlib.blake2b if variant == "b" else hashlib.blake2s
    return f(msg, digest_size=dbytes, key=key).digest()


def check_blake2(acc, variant, dbytes, key, msg, use_bits=False, do_verify=False, counted=False):
    """Full comparison of one BLAKE2 case (all entry points).  key=b'' means unkeyed."""
    mod = lib()["BLAKE2"][variant]
    algo = "BLAKE2" + variant
    case = {"part": "blake2", "variant": variant, "dbytes": dbytes, "key": key, "msg": msg,
            "use_bits": use_bits, "verify": do_verify}
    what = "%s digest %d bytes (%s), key %d bytes %s, message %d bytes %s" % (
        algo, dbytes, "digest_bits" if use_bits else "digest_bytes", len(key), short(key, 16), len(msg),
        short(msg, 24))
    if not counted:
        acc.count("evaluations", 3)
        acc.count("blake2_cases")
        acc.seen("shapes", ("blake2-full", variant, dbytes, len(key), len(msg), use_bits))
    kw = {"digest_bits": dbytes * 8} if use_bits else {"digest_bytes": dbytes}
    if key:
        kw["key"] = key
    try:
        h1 = mod.new(data=msg, **kw)
        d1 = h1.digest()
        hx = h1.hexdigest()
        ds = h1.digest_size
        h2 = mod.new(**kw)
        h2.update(msg)
        d2 = h2.digest()
        kw3 = dict(kw)
        kw3.pop("digest_bits", None)
        kw3.pop("digest_bytes", None)
        d3 = h1.new(data=msg, **kw3).digest()          # digest size inherited
    except Exception as e:  # noqa
        return _raised(acc, "hash", algo, e, what, case)
    exp = _b2ref(variant, dbytes, key, msg)
    fam = "mac" if key else "hash"
    k = "C03/%s/%s/" % (fam, algo)
    if d1 != exp:
        return acc.violation(k + "value", "%s: digest() = %s, RFC 7693 says %s" % (what, d1.hex(), exp.hex()), case)
    if d2 != exp:
        acc.violation(k + "update-vs-data", "%s: update(m) path = %s, RFC 7693 says %s"
                      % (what, d2.hex(), exp.hex()), case)
    if hx != exp.hex():
        acc.violation(k + "hexdigest", "%s: hexdigest() = %r, expected %s" % (what, hx, exp.hex()), case)
    if ds != len(exp):
        acc.violation(k + "digest_size", "%s: digest_size = %r" % (what, ds), case)
    if d3 != exp:
        acc.violation(k + "obj.new", "%s: obj.new(data=m, key=k).digest() = %s, RFC 7693 says %s"
                      % (what, d3.hex(), exp.hex()), case)
    if do_verify:
        other = _b2ref(variant, dbytes, key, msg + b"x")
        run_verify(acc, fam, algo, lambda: mod.new(data=msg, **kw), exp, None, other, what, case,
                   level=do_verify)


def blake2_grid(acc, variant, dbytes, maxmsg, alt=False):
    """Tight loop: every key length x every message length 0..maxmsg for one digest size.
    alt: second pass with ascending values through new(digest_bits=, key=).update(m)."""
    mod = lib()["BLAKE2"][variant]
    new = mod.new
    f = hashlib.blake2b if variant == "b" else hashlib.blake2s
    maxkey = 64 if variant == "b" else 32
    kbuf = val(2 if alt else 3, maxkey, "b2key")
    mbuf = val(2 if alt else 3, maxmsg + 300, "b2msg")
    n = 0
    for kl in range(maxkey + 1):
        key = kbuf[:kl]
        acc.seen("shapes", ("blake2-alt" if alt else "blake2", variant, dbytes, kl))
        for ml in range(maxmsg + 1):
            off = (kl * 7 + dbytes) % 251
            msg = mbuf[off:off + ml]
            n += 1
            try:
                if alt:
                    h = new(digest_bits=8 * dbytes, key=key) if kl else new(digest_bits=8 * dbytes)
                    h.update(msg)
                    d = h.digest()
                elif kl:
                    d = new(digest_bytes=dbytes, key=key, data=msg).digest()
                else:
                    d = new(digest_bytes=dbytes, data=msg).digest()
                bad = d != f(msg, digest_size=dbytes, key=key).digest()
            except Exception:  # noqa
                bad = True
            if bad:
                check_blake2(acc, variant, dbytes, key, msg, counted=True)
    for ml in range(maxmsg + 1):
        acc.seen("shapes", ("blake2-msglen", variant, ml))
    acc.count("evaluations", n)
    acc.count("blake2_grid_cases", n)


# ===========================================================================
# enumeration: case descriptors are small tuples ("part", ints...); workers derive the values
# ===========================================================================
def _dedupe(xs):
    out = []
    for x in xs:
        if x not in out:
            out.append(x)
    return out


def _rate(bits):
    return R.rate_of(bits)


# ---- hash -----------------------------------------------------------------
def d_hash(acc, algo, n, kind):
    check_hash(acc, algo, val(kind, n, "hash/" + algo))


def d_hashbig(acc, algo, total):
    check_hash_stream(acc, algo, total)


STREAM_ALGOS = ("MD5", "RIPEMD160", "SHA1", "SHA224", "SHA256", "SHA384", "SHA512", "SHA512_224", "SHA512_256")


ONESHOT_QUICK = ("MD4", "MD5", "RIPEMD160", "SHA1", "SHA256", "SHA512")
ONESHOT_ALL = ("MD4", "MD5", "RIPEMD160", "SHA1", "SHA224", "SHA256", "SHA384", "SHA512", "SHA512_224", "SHA512_256",
               "SHA3_256", "SHA3_512", "BLAKE2b", "BLAKE2s")


def d_hashone(acc, algo, total):
    check_hash_oneshot(acc, algo, total)


STREAM_ALGOS_DEEP = ("SHA3_224", "SHA3_256", "SHA3_384", "SHA3_512", "BLAKE2b")


def gen_hash(q):
    groups = []
    for algo, (f, B, D, hl) in R.HASH_REF.items():
        slow = hl is None
        if "alias" in algo:
            lens, kinds = [0, 1, 55, 56, 63, 64, 65, 119, 120, 128, 129], (2, 3)
        elif algo.startswith(("SHA3", "keccak")):
            lens, kinds = range(0, (2 if q else 8) * B + 2), ((2, 3) if slow and q else (0, 1, 2, 3))
        else:
            lens = range(0, max((3 if q else 16) * B + 1, 193 if not (q and slow) else 0) + 1)
            kinds = (2, 3) if slow and q else (0, 1, 2, 3)
        cases = [("hash", algo, n, k) for n in lens for k in kinds]
        per = (700 if q else 1600) if slow else 40
        for c in chunks(cases, 8 if q else 24):
            groups.append((per * len(c), c))
        if not q and "alias" not in algo:
            # lengths 2^k-1, 2^k, 2^k+1 up to 1 MiB (MD2: 64 KiB, its reference is the slowest)
            for k in range(11, (16 if algo == "MD2" else 20) + 1):
                for d in (-1, 0, 1):
                    n = (1 << k) + d
                    groups.append(((n * (6 if algo == "MD2" else 2) if slow else n // 40) + 200,
                                   [("hash", algo, n, 3)]))
    total = (1 << 24) + 1 if q else (1 << 29) + 1
    for algo in STREAM_ALGOS:
        groups.append((total // 60, [("hashbig", algo, total)]))
    # one call of at least 2^32 bits; quick: one algorithm per native source file with a length counter
    one = (1 << 29) + 3
    for algo in (ONESHOT_QUICK if q else ONESHOT_ALL):
        groups.append((one // 20, [("hashone", algo, one)]))
    if not q:
        # BLAKE2s keeps a 32-bit low offset counter: cross 2^32 bytes once
        groups.append(((1 << 32) // 80, [("hashbig", "BLAKE2s", (1 << 32) + 65)]))
        for algo in STREAM_ALGOS_DEEP:
            groups.append((total // 40, [("hashbig", algo, total)]))
    return groups


# ---- SHAKE ------------------------------------------------------------------
def d_shake(acc, bits, n, kind, reads):
    check_shake(acc, bits, val(kind, n, "shake"), reads)


def gen_shake(q):
    cases = []
    for bits in (128, 256):
        r = _rate(bits)
        for n in range(0, (2 if q else 8) * r + 2):
            for k in ((2, 3) if q else (0, 1, 2, 3)):
                cases.append(("shake", bits, n, k, (32,)))
        for outlen in range(0, (2 if q else 4) * r + 2):
            for n in (0, r - 1, r + 1):
                cases.append(("shake", bits, n, 2, _split(outlen)))
        if not q:
            for k in range(11, 21):
                for d in (-1, 0, 1):
                    cases.append(("shake", bits, (1 << k) + d, 3, (32,)))
            for k in range(10, 17):
                for d in (-1, 0, 1):
                    cases.append(("shake", bits, 17, 3, _split((1 << k) + d)))
        L = 2 * r + 1
        for a in range(0, L + 1):
            cases.append(("shake", bits, 3, 3, (a, L - a)))
        cases.append(("shake", bits, 17, 3, (10 * r + 7,)))
        cases.append(("shake", bits, 17, 3, (1, r - 1, r, r + 1, 5)))
    return [((30 if q else 60) * len(c), c) for c in chunks(cases, 16 if q else 48)]


# ---- cSHAKE -----------------------------------------------------------------
def d_cshake(acc, bits, n, kind, outlen, clen, flen):
    custom = None if clen is None else val(3, clen, "cshake-custom")
    fn = None if flen is None else val(2, flen, "fn")
    if fn is not None and custom is None:
        custom = b""
    check_cshake(acc, bits, val(kind, n, "cshake-msg"), outlen, custom, fn)


def custom_lengths(bits):
    r = _rate(bits)
    return _dedupe([None, 0, 1, 31, 32, 33, 254, 255, 256, 257, r - 8, r - 7, r - 6, 2 * r - 8, 2 * r - 7,
                    2 * r - 6, 8191, 8192, 8193, 65536])


def CSHAKE_SWEEP_MSGS(r):
    return (0, 1, r - 1, r, r + 1)


CSHAKE_HUGE_CUSTOM = (2097151, 2097152, 2097153)


def gen_cshake(q):
    groups = []
    for bits in (128, 256):
        r = _rate(bits)
        full = list(range(0, (2 if q else 4) * r + 2))
        few = [0, 1, r - 1, r, r + 1, 2 * r + 1]
        for clen in custom_lengths(bits):
            if q:
                cases = [("cshake", bits, n, 3, 32, clen, None) for n in full]
                cases += [("cshake", bits, n, 2, 32, clen, None) for n in few]
            else:
                cases = [("cshake", bits, n, k, 32, clen, None) for n in full for k in (2, 3)]
            if clen == 1:
                cases += [("cshake", bits, 3, 3, o, clen, None) for o in range(0, 2 * r + 2)]
            if q:
                groups.append((900 * len(cases) + 2 * (clen or 0), cases))
            else:
                for c in chunks(cases, 4):
                    groups.append((1100 * len(c) + 2 * (clen or 0), c))
        for flen in (0, 1, 4, 9, 31, 32, 33, 255, 256):
            for clen in (0, 1, 32):
                cases = [("cshake", bits, n, 3, 32, clen, flen) for n in (0, r + 1)]
                groups.append((900 * len(cases), cases))
        if not q:
            # every customisation length 0..3*rate+1 (all bytepad alignments of the prefix block)
            for clen in range(0, 3 * r + 2):
                cases = [("cshake", bits, n, 3, 32, clen, None) for n in CSHAKE_SWEEP_MSGS(r)]
                groups.append((1000 * len(cases), cases))
            # every function-name length 0..rate+8 through _new()
            for flen in range(0, r + 9):
                cases = [("cshake", bits, n, 3, 32, clen, flen) for clen in (0, 1) for n in (0, r + 1)]
                groups.append((1000 * len(cases), cases))
            # left_encode(bit length) grows from 3 to 4 bytes at 2^24 bits = 2 MiB
            for clen in CSHAKE_HUGE_CUSTOM:
                cases = [("cshake", bits, n, 3, 32, clen, None) for n in (0, 1, r + 1)]
                groups.append((4 * clen, cases))
    return groups


# ---- KMAC -------------------------------------------------------------------
def d_kmac(acc, bits, klen, clen, n, mac_len, verify, mkind=3):
    custom = None if clen is None else val(3, clen, "kmac-custom")
    check_kmac(acc, bits, val(3, klen, "kmac-key"), custom, val(mkind, n, "kmac-msg"), mac_len, verify)


KMAC_ENCODE_EDGES = (8191, 8192, 8193, 65536)       # left/right_encode: 2 -> 3 length bytes at 2^16 bits
KMAC_ENCODE_HUGE = (2097151, 2097152)               # 3 -> 4 length bytes at 2^24 bits


def gen_kmac(q):
    groups = []
    for bits in (128, 256):
        r = _rate(bits)
        mk = KMAC_MINKEY[bits]
        KL = _dedupe([mk - 1, mk, mk + 1, r - 6, r - 5, r - 4, r - 1, r, r + 1, 2 * r])
        ML = [None, 7, 8, 9, 31, 32, 64, r - 1, r, r + 1]
        NL = [0, 1, r - 1, r, r + 1]
        CL = [None, 0, 1, 31, 32, 33, 254, 255, 256, 257, 65536]
        for clen in CL:
            for klen in KL:
                cases = [("kmac", bits, klen, clen, n, m, False) for n in NL for m in ML]
                groups.append((1000 * len(cases) + 3 * (clen or 0), cases))
        for klen in ([mk + 1] if q else KL[1:]):
            cases = [("kmac", bits, klen, 1, n, 32, False) for n in range(0, 2 * r + 2)]
            groups.append((1000 * len(cases), cases))
        for klen in (mk, r + 1):
            cases = [("kmac", bits, klen, 0, n, m, True) for m in (8, 32, r + 1) for n in (0, r + 1)]
            groups.append((60000 * len(cases), cases))
        if q:
            continue
        # every key length min..2*rate+2
        for klen in range(mk, 2 * r + 3):
            cases = [("kmac", bits, klen, clen, n, m, False) for clen in (None, 1) for n in NL for m in (None, 32)]
            groups.append((1000 * len(cases), cases))
        # every mac_len 8..2*rate+1
        for klen in (mk, r + 1):
            for clen in (None, 1):
                cases = [("kmac", bits, klen, clen, n, m, False) for n in (0, r + 1) for m in range(8, 2 * r + 2)]
                for c in chunks(cases, 4):
                    groups.append((1100 * len(c), c))
        # every message length 0..4*rate+1, four message values, three (key, customisation, mac_len) settings
        for klen, clen, m in ((mk, None, None), (r + 1, 1, 32), (r - 4, 33, r + 1)):
            cases = [("kmac", bits, klen, clen, n, m, False, mkind) for n in range(0, 4 * r + 2)
                     for mkind in (0, 1, 2, 3)]
            for c in chunks(cases, 8):
                groups.append((1100 * len(c), c))
        # length-of-length boundaries of encode_string(key), encode_string(custom), right_encode(mac_len)
        for e in KMAC_ENCODE_EDGES:
            cases = [("kmac", bits, e, clen, n, m, False) for clen in (None, 1) for n in (0, 1, r + 1)
                     for m in (None, 32)]
            groups.append((1000 * len(cases) + 6 * e, cases))
            cases = [("kmac", bits, klen, e, n, m, False) for klen in (mk, r + 1) for n in (0, 1, r + 1)
                     for m in (None, 32)]
            groups.append((1000 * len(cases) + 6 * e, cases))
            cases = [("kmac", bits, klen, clen, n, e, False) for klen in (mk, r + 1) for clen in (None, 1)
                     for n in (0, r + 1)]
            groups.append(((1000 + 3 * e) * len(cases), cases))
        for e in KMAC_ENCODE_HUGE:
            groups.append((4 * e, [("kmac", bits, e, None, n, 32, False) for n in (0, r + 1)]))
            groups.append((4 * e, [("kmac", bits, mk, e, n, 32, False) for n in (0, r + 1)]))
            groups.append((4 * e, [("kmac", bits, mk, None, 3, e, False)]))
        # verification alphabet on more (key, message, mac_len) shapes
        cases = [("kmac", bits, klen, clen, n, m, 3) for klen in (mk, r - 4, r + 1) for clen in (None, 1)
                 for n in (0, 1, r, r + 1) for m in (8, 9, 16, 32, 64)]
        for c in chunks(cases, 12):
            groups.append((30000 * len(c), c))
        # extended candidate alphabet (verify flag 2) on 8- and 16-byte tags
        for m in (8, 16):
            groups.append((500000 * m, [("kmac", bits, mk + 1, 1, r + 1, m, 2)]))
    return groups


# ---- TupleHash ----------------------------------------------------------------
def d_tuplehash(acc, bits, lens, clen, dbytes, use_bits):
    custom = None if clen is None else val(3, clen, "th-custom")
    items = [val(3, l, "th-item%d" % i) for i, l in enumerate(lens)]
    check_tuplehash(acc, bits, items, custom, dbytes, use_bits)


def gen_tuplehash(q):
    groups = []
    for bits in (128, 256):
        r = _rate(bits)
        L1 = [0, 1, 2, 31, 32, 33, r - 4, r - 3, r - 2, r - 1, r, r + 1]
        L2 = [0, 1, 32, r - 3, r - 2, r]
        L3 = [0, 1, 32]
        tuples = [()] + [(a,) for a in L1] + [(a, b) for a in L2 for b in L2] \
            + [(a, b, c) for a in L3 for b in L3 for c in L3]
        CL = [None, 0, 1, 255, 256, 257]
        DL = [None, 8, 9, 32, 64, r - 1, r + 1]
        for clen in CL:
            cases = [("tuplehash", bits, t, clen, d, False) for t in tuples for d in DL]
            cases += [("tuplehash", bits, t, clen, d, True) for t in tuples[:14] for d in (8, 64)]
            cases.append(("tuplehash", bits, (1,), clen, 7, False))
            for c in chunks(cases, 4):
                groups.append((1100 * len(c), c))
        cases = [("tuplehash", bits, t, 65536, 32, False) for t in ((), (1,), (r, 0))]
        groups.append((1100 * len(cases) + 200000, cases))
        if q:
            continue
        # more tuples: every pair over 14 boundary lengths, every 4-tuple over {0,1,32}, k one-byte / empty items
        P2 = [0, 1, 2, 31, 32, 33, r - 5, r - 4, r - 3, r - 2, r - 1, r, r + 1, 2 * r]
        more = [(a, b) for a in P2 for b in P2 if (a, b) not in tuples] \
            + [(a, b, c, d) for a in L3 for b in L3 for c in L3 for d in L3] \
            + [(1,) * k for k in range(4, 2 * r // 3 + 3)] + [(0,) * k for k in range(4, r + 3)]
        for clen in (None, 1, 256):
            cases = [("tuplehash", bits, t, clen, d, False) for t in more for d in (None, 32, r + 1)]
            for c in chunks(cases, 12):
                groups.append((1300 * len(c), c))
        # every digest length 8..2*rate+1, every customisation length 0..2*rate+1
        for t in ((), (1,), (r - 3, 32)):
            cases = [("tuplehash", bits, t, clen, d, False) for clen in (None, 1) for d in range(8, 2 * r + 2)]
            cases += [("tuplehash", bits, t, clen, 32, False) for clen in range(0, 2 * r + 2)]
            for c in chunks(cases, 6):
                groups.append((1200 * len(c), c))
        # every single-item length 0..2*rate+1
        cases = [("tuplehash", bits, (a,), clen, 32, False) for a in range(0, 2 * r + 2) for clen in (None, 1)]
        for c in chunks(cases, 4):
            groups.append((1200 * len(c), c))
        # length-of-length boundaries: item / customisation / digest of 8191..8193, 65536 bytes (2 -> 3 length
        # bytes) and 2 MiB (3 -> 4)
        for e in KMAC_ENCODE_EDGES:
            cases = [("tuplehash", bits, t, clen, 32, False) for t in ((e,), (e, 1), (0, e), (e, e))
                     for clen in (None, 1)]
            cases += [("tuplehash", bits, t, e, 32, False) for t in ((), (1,), (r, 0))]
            groups.append((1200 * len(cases) + 24 * e, cases))
            cases = [("tuplehash", bits, t, clen, e, False) for t in ((), (1,), (r, 0)) for clen in (None, 1)]
            groups.append(((1200 + 3 * e) * len(cases), cases))
        for e in KMAC_ENCODE_HUGE:
            groups.append((4 * e, [("tuplehash", bits, (e,), None, 32, False)]))
            groups.append((8 * e, [("tuplehash", bits, (1, e), 1, 32, False)]))
            groups.append((4 * e, [("tuplehash", bits, (1,), e, 32, False)]))
            groups.append((4 * e, [("tuplehash", bits, (1,), None, e, False)]))
    return groups


# ---- TurboSHAKE ---------------------------------------------------------------
def d_turbo(acc, bits, n, kind, reads, domain):
    check_turbo(acc, bits, val(kind, n, "turbo"), reads, domain)


def gen_turbo(q):
    cases = []
    for bits in (128, 256):
        r = _rate(bits)
        for n in range(0, (2 if q else 8) * r + 2):
            for dom in (None, 0x01, 0x7F):
                for k in ((3,) if q else (0, 1, 2, 3)):
                    cases.append(("turbo", bits, n, k, (32,), dom))
        for dom in range(1, 0x80):
            for n in ((0, 1, r - 2, r - 1, r, r + 1) if q else range(0, 3 * r + 2)):
                cases.append(("turbo", bits, n, 3, (32,), dom))
        for dom in (0, 0x80, 0xFF):
            cases.append(("turbo", bits, 0, 3, (32,), dom))
        for outlen in range(0, (2 if q else 4) * r + 2):
            for n in (0, r - 1):
                cases.append(("turbo", bits, n, 2, _split(outlen), 0x1F))
        if not q:
            for k in range(11, 19):
                for d in (-1, 0, 1):
                    cases.append(("turbo", bits, (1 << k) + d, 3, (32,), 0x1F))
                    cases.append(("turbo", bits, 17, 3, _split((1 << k) + d), 0x1F))
        L = 2 * r + 1
        for a in range(0, L + 1, 1 if not q else 3):
            cases.append(("turbo", bits, 3, 3, (a, L - a), 0x06))
        cases.append(("turbo", bits, 17, 3, (1, r - 1, r, r + 1, 5), 0x0B))
    if q:
        return [(450 * len(c), c) for c in chunks(cases, 32)]
    big = [c for c in cases if c[2] > 2048 or sum(c[4]) > 2048]
    small = [c for c in cases if not (c[2] > 2048 or sum(c[4]) > 2048)]
    return [(900 * len(c), c) for c in chunks(small, 256)] \
        + [(2 * (c[2] + sum(c[4])) + 1000, [c]) for c in big]


# ---- KangarooTwelve -----------------------------------------------------------
def d_k12(acc, mlen, mkind, clen, reads, feed):
    custom = None if clen is None else val(3, clen, "k12-custom")
    check_k12(acc, val(mkind, mlen, "k12-msg"), custom, reads, feed)


def _k12_feeds(mlen):
    if mlen == 0:
        return [("data",), ("none",), ("update",)]
    f = [("data",), ("update",)]
    for c in _dedupe([1, 8191, 8192, 8193, mlen - 1]):
        if 0 < c < mlen:
            f.append(("cut", c))
    if mlen > 8192:
        f.append(("chunks", 8192))
    if mlen > 1000:
        f.append(("chunks", 1000))
    return f


def _k12_boundary_mlens(clen):
    c = clen or 0
    s = c + len(K.length_encode(c))
    out = []
    for tot in (8192, 16384):
        for d in (-1, 0, 1):
            if tot + d - s >= 0:
                out.append(tot + d - s)
    return out


K12_SMALL_CUSTOMS = (None, 0, 1, 2, 255, 256, 300)
K12_CHUNK_COUNTS = tuple(range(4, 65))
K12_CHUNK_CUSTOMS = (None, 1, 255, 8191, 8192)
K12_MANY_CHUNKS = tuple(256 * 8192 + d for d in (-2, -1, 0, 1))       # |S| = 2^21-1 .. 2^21+2
K12_PIECE_SIZES = (1, 7, 167, 168, 169, 1024, 4095, 4096, 8191, 8193, 16384)
K12_EVERY_CUT = ((8190, None), (8191, None), (8192, None), (8193, None), (16385, None), (24577, None),
                 (8185, 5), (8193, 300), (16384, 1), (20000, 8192),
                 (32769, None), (40961, 1), (16390, 8190), (100, 16384), (8192, 8192), (24576, 255), (12000, 4000),
                 (8189, 0), (8189, 1), (16381, 1), (24575, 2), (5000, 3190), (5000, 3191), (65537, None))


def k12_cut_grid(acc, mlen, mkind, clen, lo, hi, stride, off):
    """one message, every two-piece split update(m[:c]); update(m[c:]) for c in the strided range"""
    mod = lib()["K12"]
    custom = None if clen is None else val(3, clen, "k12-custom")
    msg = val(mkind, mlen, "k12-msg")
    exp = R.k12_ref(bytes(msg), bytes(custom or b""))[:32]
    kw = {} if custom is None else {"custom": custom}
    cnt = 0
    for c in _ns(lo, hi, stride, off):
        cnt += 1
        try:
            h = mod.new(**kw)
            h.update(msg[:c])
            h.update(msg[c:])
            bad = h.read(32) != exp
        except Exception:  # noqa
            bad = True
        if bad:
            check_k12(acc, msg, custom, (32,), ("cut", c), counted=True)
    acc.seen("shapes", ("k12-every-cut", mlen, clen, stride, off))
    acc.seen("out/k12", exp[:6])
    acc.count("evaluations", cnt)
    acc.count("k12_cut_cases", cnt)


def d_k12cuts(acc, mlen, mkind, clen, lo, hi, stride, off):
    k12_cut_grid(acc, mlen, mkind, clen, lo, hi, stride, off)


def gen_k12(q):
    groups = []
    if q:
        ML = [0, 1, 2, 3, 8190, 8191, 8192, 8193, 8194, 16382, 16383, 16384, 16385, 16386, 24577]
        CL = [None, 0, 1, 255, 256, 8191, 8193]
        CL0 = CL + [8188, 8189, 8190, 8192, 16384]
        kinds = (3,)
    else:
        ML = list(range(0, 4)) + list(range(8180, 8205)) + list(range(16376, 16393)) \
            + list(range(24570, 24585)) + [32768, 32769, 40961, 65536, 65537]
        CL = [None, 0, 1, 2, 255, 256, 257, 8189, 8190, 8191, 8192, 8193, 16383, 16384, 16385, 24576, 65536]
        CL0 = CL + [8187, 8188]
        kinds = (2, 3)
    for clen in CL0:
        mls = ML if clen in CL else []
        mls = _dedupe(list(mls) + [0] + (_k12_boundary_mlens(clen) if clen in CL else []))
        for mlen in mls:
            for kind in (kinds if mlen else (3,)):
                cases = [("k12", mlen, kind, clen, (32,), f) for f in _k12_feeds(mlen)]
                cases.append(("k12", mlen, kind, clen, (7, 161, 168, 1), ("update",)))
                cost = 3000 + (mlen + (clen or 0)) * 1 + 200 * len(cases)
                groups.append((cost, cases))
    if not q:
        for clen in (None, 1):
            for mlen in range(4, 341):
                groups.append((1500, [("k12", mlen, 3, clen, (32,), ("data",)),
                                      ("k12", mlen, 2, clen, (32,), ("update",))]))
        # every message length 0..4*168+2 for seven customisation settings
        for clen in K12_SMALL_CUSTOMS:
            for mlen in range(0, 4 * 168 + 3):
                if clen in (None, 1) and 4 <= mlen <= 340:
                    continue
                groups.append((1800, [("k12", mlen, 3, clen, (32,), ("data",)),
                                      ("k12", mlen, 2, clen, (32,), ("update",))]))
        # every number of chunks 4..42 (CV bytes cross the 168-byte rate of the final node at every alignment;
        # 32*j mod 168 has period 21), |S| = j*8192 - 1 .. j*8192 + 1 without and with customisation
        for j in K12_CHUNK_COUNTS:
            for clen in K12_CHUNK_CUSTOMS:
                for d in (-1, 0, 1):
                    mlen = j * 8192 + d - ((clen or 0) + len(K.length_encode(clen or 0)))
                    cases = [("k12", mlen, 3, clen, (32,), f) for f in _k12_feeds(mlen)]
                    cases.append(("k12", mlen, 3, clen, (7, 161, 168, 1), ("update",)))
                    groups.append((3000 + 2 * mlen + 60 * len(cases) + len(cases) * mlen // 25, cases))
        # 256 / 257 chunks: length_encode(n-1) grows from one to two bytes
        for mlen in K12_MANY_CHUNKS:
            cases = [("k12", mlen, 3, None, (32,), f) for f in
                     (("data",), ("update",), ("chunks", 8192), ("chunks", 65536), ("chunks", 65537), ("cut", 8192))]
            groups.append((4 * mlen, cases))
        # feeding in equal pieces of many sizes
        for mlen, clen in ((8192, None), (8193, None), (16385, 1), (24577, None), (24600, 300)):
            cases = [("k12", mlen, 3, clen, (32,), ("chunks", c)) for c in K12_PIECE_SIZES]
            groups.append((3000 + 2 * mlen + 120000 * len(cases), cases))
        # three pieces with both cuts on / next to chunk boundaries
        for mlen, clen in ((16390, None), (24580, 3)):
            W = _dedupe([0, 1, 8191, 8192, 8193, 16383, 16384, 16385, mlen - 1, mlen])
            cases = [("k12", mlen, 3, clen, (32,), ("cut2", a, b)) for a in W for b in W if a <= b]
            groups.append((3000 + 2 * mlen + 100 * len(cases), cases))
            # both cuts anywhere in 8185..8199 / 16377..16391
            W = list(range(8185, 8200)) + list(range(16377, 16392))
            cases = [("k12", mlen, 3, clen, (32,), ("cut2", a, b)) for a in W for b in W if a <= b]
            for c in chunks(cases, 4):
                groups.append((3000 + 2 * mlen + 100 * len(c), c))
        # every two-piece split of whole messages around the chunk size
        for mlen, clen in K12_EVERY_CUT:
            per = 60 + mlen // 200
            stride = max(1, (mlen + 1) * per // GROUP_TARGET + 1)
            for off in range(stride):
                groups.append((len(range(off, mlen + 1, stride)) * per + 2 * mlen + 3000,
                               [("k12cuts", mlen, 3, clen, 0, mlen, stride, off)]))
    for mlen, clen in ((0, None), (17, 5), (8193, 0), (8000, 300)):
        cases = [("k12", mlen, 3, clen, (o,), ("data",)) for o in range(0, 338)]
        cases += [("k12", mlen, 3, clen, (a, 337 - a), ("update",)) for a in range(0, 338, 1 if not q else 5)]
        groups.append((5000 + 150 * len(cases), cases))
    return groups


# ---- HMAC ---------------------------------------------------------------------
def d_hmac(acc, hname, klen, kkind, n, mkind, verify):
    check_hmac(acc, hname, val(kkind, klen, "hmac-key"), val(mkind, n, "hmac-msg"), verify)


def HMAC_LONG_KEYS(B):
    return (4 * B, 4 * B + 1, 1024, 65536)


def gen_hmac(q):
    groups = []
    for hname in HMAC_HASHES:
        f, B, D, hl = R.HASH_REF[hname]
        per = 2500 if hl is None else 120
        NL = _dedupe([x for x in (0, 1, B - 17, B - 16, B - 9, B - 8, B - 1, B, B + 1, 2 * B + 1) if x >= 0])
        if "alias" in hname:
            cases = [("hmac", hname, kl, 3, n, 3, False) for kl in (0, B, B + 1) for n in (0, B + 1)]
            groups.append((per * len(cases), cases))
            continue
        KL = list(range(0, B + 3)) + [2 * B] + ([] if q else [2 * B + 1, 3 * B])
        if not q:
            KL = sorted(set(KL) | set(range(0, 3 * B + 2)) | set(HMAC_LONG_KEYS(B)))
        cases = [("hmac", hname, kl, 3, n, 3, False) for kl in KL for n in NL]
        edge = [B - 1, B, B + 1, 2 * B]
        cases += [("hmac", hname, kl, kk, n, 2, False) for kl in (edge if q else KL) for kk in (0, 1, 2)
                  for n in ((0, B + 1) if q else NL)]
        if not q:
            cases += [("hmac", hname, kl, 3, n, 3, False) for kl in KL
                      for n in range(0, 3 * B + 2) if n not in NL]
        for c in chunks(cases, 4 if q else max(16, len(cases) * per // GROUP_TARGET + 1)):
            groups.append((per * len(c), c))
        cases = [("hmac", hname, kl, 3, n, 3, True if q else 3)
                 for kl in ((0, 1, B, B + 1) if q else (0, 1, B - 1, B, B + 1, B + 2, 2 * B, 3 * B + 1))
                 for n in ((0, B + 1) if q else (0, 1, B - 1, B, B + 1, 2 * B + 1))]
        for c in chunks(cases, 2 if q else 12):
            groups.append(((per + 50 * 18 * D) * len(c), c))
        if not q and D <= R.DEEP_TAG_MAX:
            groups.append((8000000, [("hmac", hname, B, 3, B + 1, 3, 2)]))
    cases = [("hmac", None, kl, 3, n, 3, False) for kl in (0, 1, 64, 65) for n in (0, 3)]
    groups.append((100 * len(cases), cases))
    return groups


# ---- CMAC ---------------------------------------------------------------------
CMAC_KEYS = {"AES": (16, 24, 32), "DES3": (16, 24), "DES": (8,), "Blowfish": (4, 5, 8, 16, 56),
             "CAST": (5, 16), "ARC2": (5, 16, 128)}
CMAC_REFCOST = {"AES": 60, "DES3": 110, "DES": 50, "Blowfish": 15, "CAST": 15, "ARC2": 15}   # us per block


def d_cmac(acc, cname, klen, kkind, n, mkind, mac_len, cut, verify):
    check_cmac(acc, cname, val(kkind, klen, "cmac-key"), val(mkind, n, "cmac-msg"), mac_len, cut, verify)


def gen_cmac(q):
    groups = []
    for cname, kls in CMAC_KEYS.items():
        bs = 16 if cname == "AES" else 8
        if q and cname == "Blowfish":
            kls = (4, 16, 56)
        if not q:
            kls = {"Blowfish": tuple(range(4, 57)), "CAST": tuple(range(5, 17)),
                   "ARC2": tuple(range(5, 18)) + (64, 127, 128)}.get(cname, kls)
        top = (3 if q else 12) * bs + 1
        for klen in kls:
            for kkind in ((0, 1, 2, 3) if cname == "AES" or not (q or cname == "DES3") else (2, 3)):
                cases = []
                for n in range(0, top + 1):
                    for ml in list(range(4, bs + 1)):
                        cases.append(("cmac", cname, klen, kkind, n, 3, ml, None, False))
                    for mk in (0, 1, 2, 3):
                        cases.append(("cmac", cname, klen, kkind, n, mk, None, None, False))
                    if n <= 3 * bs + 1 and kkind == 3:
                        for cut in range(0, n + 1):
                            cases.append(("cmac", cname, klen, kkind, n, 3, None, cut, False))
                cases.append(("cmac", cname, klen, kkind, 0, 3, 3, None, False))
                cases.append(("cmac", cname, klen, kkind, 0, 3, bs + 1, None, False))
                per = 150 + CMAC_REFCOST[cname] * (top // bs // 2 + 2)
                for c in chunks(cases, 2):
                    groups.append((per * len(c) + 7000, c))
            if q:
                cases = [("cmac", cname, klen, 3, n, 3, ml, None, True) for n in (0, bs, bs + 1)
                         for ml in (4, bs - 1, None)]
                groups.append((25000 * len(cases), cases))
            else:
                cases = [("cmac", cname, klen, 3, n, 3, ml, None, 3) for n in (0, 1, bs - 1, bs, bs + 1, 2 * bs)
                         for ml in list(range(4, bs + 1)) + [None]]
                for c in chunks(cases, 3):
                    groups.append((2200 * (bs + 4) * len(c), c))
                if klen == kls[0]:
                    groups.append((500000 * bs, [("cmac", cname, klen, 3, bs + 1, 3, ml, None, 2)
                                                 for ml in (4, None)]))
    return groups


# ---- Poly1305 -----------------------------------------------------------------
def _poly_r(i):
    """0..4: the quick-tier patterns; 5..20: every combination of the four 32-bit limbs of r being zero or the
    largest clamped value (thorough tier)"""
    if i < 5:
        return [bytes(16), b"\xff" * 16, R.R_CLAMP_MAX, asc(16, 1), val(3, 16, "poly-r")][i]
    m = i - 5
    return b"".join(R.R_CLAMP_MAX[4 * j:4 * j + 4] if (m >> j) & 1 else bytes(4) for j in range(4))


def _poly_s(i):
    """0..2: quick-tier patterns; 3, 4: ascending, 2^128-2 (thorough tier)"""
    return [bytes(16), b"\xff" * 16, val(3, 16, "poly-s"), asc(16, 0x80), b"\xfe" + b"\xff" * 15][i]


POLY_NR_DEEP, POLY_NS_DEEP = 21, 5


def d_polyrs(acc, ri, si, n, mkind):
    check_poly_rs(acc, _poly_r(ri), _poly_s(si), val(mkind, n, "poly-msg"))


def poly_key_nonce(cname, variant):
    if cname == "AES":
        if variant == 0:
            return val(3, 32, "poly-aes-key"), val(3, 16, "poly-aes-nonce")
        if variant == 1:            # r all ones (clamped inside), s all ones: maximal carries
            key = val(3, 16, "poly-aes-key") + b"\xff" * 16
            return key, R.poly_aes_nonce_for_s(key, b"\xff" * 16)
        if variant == 2:            # largest clamped r, s = 0
            key = asc(16) + R.R_CLAMP_MAX
            return key, R.poly_aes_nonce_for_s(key, bytes(16))
        if variant == 3:
            return bytes(32), bytes(16)
        # thorough tier, 4..: r limb pattern (variant-4) % 16 with s = ones / zero / seeded nonce
        v = variant - 4
        key = val(3, 16, "poly-aes-key2") + _poly_r(5 + v % 16)
        if v // 16 == 2:
            return key, val(3, 16, "poly-aes-nonce2")
        return key, R.poly_aes_nonce_for_s(key, (b"\xff" * 16, bytes(16))[v // 16])
    if variant >= 4:
        # thorough tier: key value kind x nonce length x nonce value kind
        v = variant - 4
        return val(v % 4, 32, "poly-cc-key2"), val((0, 1, 3)[(v // 8) % 3], (8, 12)[(v // 4) % 2], "poly-cc-nonce2")
    if variant == 0:
        return val(3, 32, "poly-cc-key"), val(3, 12, "poly-cc-nonce")
    if variant == 1:
        return val(3, 32, "poly-cc-key"), val(3, 8, "poly-cc-nonce")
    if variant == 2:
        return bytes(32), bytes(12)
    return b"\xff" * 32, b"\xff" * 8


def d_poly(acc, cname, variant, n, mkind, verify):
    key, nonce = poly_key_nonce(cname, variant)
    check_poly(acc, cname, key, nonce, val(mkind, n, "poly-msg"), verify)


POLY_LONG_TOP = 1025
POLY_AES_VARIANTS = 4 + 48
POLY_CC_VARIANTS = 4 + 24


def gen_poly(q):
    top = 65 if q else 257
    cases = [("polyrs", ri, si, n, mk) for ri in range(5) for si in range(3) for n in range(0, top + 1)
             for mk in (0, 1, 2, 3)]
    groups = [(60 * len(c), c) for c in chunks(cases, 8)]
    for cname in ("AES", "ChaCha20"):
        cases = [("poly", cname, v, n, mk, False) for v in range(4) for n in range(0, top + 1) for mk in (1, 3)]
        groups += [(500 * len(c), c) for c in chunks(cases, 4)]
        cases = [("poly", cname, v, n, 3, True) for v in (0, 1) for n in (0, 16, 17)]
        groups.append((15000 * len(cases), cases))
    if not q:
        # all 21 r patterns x 5 s patterns x message 0..257 x 4 values (the quick 5 x 3 sub-grid is above)
        cases = [("polyrs", ri, si, n, mk) for ri in range(POLY_NR_DEEP) for si in range(POLY_NS_DEEP)
                 if ri >= 5 or si >= 3 for n in range(0, top + 1) for mk in (0, 1, 2, 3)]
        # longer messages for the 5 x 3 sub-grid
        cases += [("polyrs", ri, si, n, mk) for ri in range(5) for si in range(3)
                  for n in range(top + 1, POLY_LONG_TOP + 1) for mk in (1, 3)]
        groups += [(70 * len(c), c) for c in chunks(cases, 64)]
        for cname, nv in (("AES", POLY_AES_VARIANTS), ("ChaCha20", POLY_CC_VARIANTS)):
            cases = [("poly", cname, v, n, mk, False) for v in range(4, nv) for n in range(0, 130) for mk in (1, 3)]
            groups += [(700 * len(c), c) for c in chunks(cases, 32)]
            cases = [("poly", cname, v, n, 3, 3) for v in range(0, nv, 3) for n in (0, 1, 15, 16, 17, 32, 33)]
            groups += [(22000 * len(c), c) for c in chunks(cases, 8)]
            groups.append((8000000, [("poly", cname, 0, 17, 3, 2)]))
    return groups


# ---- BLAKE2 ---------------------------------------------------------------------
def d_b2grid(acc, variant, dbytes, maxmsg, alt=False):
    blake2_grid(acc, variant, dbytes, maxmsg, alt)


def d_b2full(acc, variant, dbytes, klen, n, use_bits, verify):
    check_blake2(acc, variant, dbytes, val(3, klen, "b2key"), val(3, n, "b2full-msg"), use_bits, verify)


def gen_blake2(q):
    groups = []
    for variant, maxd, block in (("b", 64, 128), ("s", 32, 64)):
        maxmsg = (2 if q else 5) * block + 1
        for d in range(1, maxd + 1):
            groups.append(((maxd + 1) * (maxmsg + 1) * 13, [("b2grid", variant, d, maxmsg)]))
            if not q:
                groups.append(((maxd + 1) * (maxmsg + 1) * 16, [("b2grid", variant, d, maxmsg, True)]))
        cases = [("b2full", variant, d, kl, n, ub, False) for d in range(1, maxd + 1)
                 for kl in ((0, 1, maxd) if q else range(0, maxd + 1))
                 for n in ((0, block, block + 1) if q else (0, 1, block - 1, block, block + 1, 2 * block))
                 for ub in (False, True)]
        groups += [(50 * len(c), c) for c in chunks(cases, 2 if q else 24)]
        for d in (_dedupe([1, 16, 20, maxd]) if q else range(1, maxd + 1)):
            cases = [("b2full", variant, d, kl, n, False, True if q else 3) for kl in (0, 1, maxd)
                     for n in (0, block + 1)]
            groups.append(((60 if q else 120) * 18 * d * len(cases), cases))
        if not q:
            for d in (1, 2, 8, 16):
                groups.append((500000 * d, [("b2full", variant, d, maxd, block + 1, False, 2)]))
    return groups


# ===========================================================================
# thorough-only deep parts (never enumerated in the quick tier):
#   seg     - segmented feeding: every 2-piece / 3-piece split of every message length, for every
#             algorithm that has update(); pieces as bytes, as bytearray/memoryview slices, with a
#             copy() taken mid-stream, with digest() called mid-stream
#   rseg    - segmented reading of the XOFs: every 2-/3-piece split of every output length
#   xofgrid - XOFs: full product message length x output length through new(data=m).read(n)
# These are tight loops (one reference computation per message, many library runs); a mismatch is
# re-run through check_seg / check_rseg which reports it with a replayable case.
# ===========================================================================
class Subject(object):
    """One algorithm with every parameter fixed (spec = JSON-able list holding the concrete values)."""

    def __init__(self, spec):
        L = lib()
        self.spec = spec
        k = spec[0]
        self.copy = False        # object has a working copy()
        self.mk_uad = None       # factory of an object on which update() may follow digest()
        self.mk_vp = None        # factory passing key / nonce / customisation as memoryview slice / bytearray
        self.xof = False
        self.std = "its standard"
        if k == "hash":
            algo = spec[1]
            H = L["hash"][algo]
            self.fam, self.name, self.label = "hash", algo, algo
            self.mk = H.new_empty
            self.mkd = H.new_kw
            self.fin = _digest
            self.ref = R.HASH_REF[algo][0]
            self.copy = not algo.startswith(("keccak", "BLAKE2"))
            if algo.startswith(("SHA3_", "keccak", "BLAKE2")):
                self.mk_uad = lambda: H.mod.new(update_after_digest=True, **H.kw)
            else:
                self.mk_uad = self.mk
        elif k == "hmac":
            hname, key = spec[1], spec[2]
            HM = L["HMAC"]
            dm = L["hash"][hname].digestmod
            self.fam, self.name = "mac", "HMAC-" + hname
            self.label = "%s/key%d" % (self.name, len(key))
            self.mk = lambda: HM.new(key, digestmod=dm)
            self.mkd = lambda m: HM.new(key, m, digestmod=dm)
            self.mk_vp = lambda: HM.new(_mv(key), digestmod=dm)
            self.fin = _digest
            self.ref = lambda m: R.hmac_ref(hname, key, m)
            self.copy = True
            # HMAC.digest() finalises the inner hash object; SHA-3 objects then refuse update() (documented
            # behaviour of SHA-3 without update_after_digest), so digest-mid-stream is not explored there
            self.mk_uad = None if hname.startswith("SHA3_") else self.mk
            self.std = "RFC 2104"
        elif k == "cmac":
            cname, key, mac_len = spec[1], spec[2], spec[3]
            CM = L["CMAC"]
            cmod = L["cipher"][cname]
            outlen = cmod.block_size if mac_len is None else mac_len
            kw = {} if mac_len is None else {"mac_len": mac_len}
            self.fam, self.name = "mac", "CMAC-" + cname
            self.label = "%s/key%d/mac%s" % (self.name, len(key), mac_len)
            self.mk = lambda: CM.new(key, ciphermod=cmod, **kw)
            self.mkd = lambda m: CM.new(key, msg=m, ciphermod=cmod, **kw)
            self.mk_vp = lambda: CM.new(bytearray(key), ciphermod=cmod, **kw)
            self.fin = _digest
            self.ref = lambda m: R.cmac_ref(_cmac_cipher(cname, key), m)[:outlen]
            self.copy = True
            self.mk_uad = lambda: CM.new(key, ciphermod=cmod, update_after_digest=True, **kw)
            self.std = "SP 800-38B"
        elif k == "kmac":
            bits, key, custom, mac_len = spec[1:5]
            mod = L["KMAC"][bits]
            self.fam, self.name = "mac", "KMAC%d" % bits
            self.label = "%s/key%d/custom%d/mac%d" % (self.name, len(key), len(custom), mac_len)
            self.mk = lambda: mod.new(key=key, custom=custom, mac_len=mac_len)
            self.mkd = lambda m: mod.new(key=key, custom=custom, mac_len=mac_len, data=m)
            self.mk_vp = lambda: mod.new(key=_mv(key), custom=bytearray(custom), mac_len=mac_len)
            self.fin = _digest
            self.ref = lambda m: R.kmac_ref(bits, key, m, mac_len, custom)
            self.std = "SP 800-185"
        elif k == "polyrs":
            r, s = spec[1], spec[2]
            P = L["Poly1305"]
            self.fam, self.name = "mac", "Poly1305"
            self.label = "Poly1305/r=%s/s=%s" % (r.hex(), s[:2].hex())
            self.mk = lambda: P.Poly1305_MAC(r, s, None)
            self.mkd = lambda m: P.Poly1305_MAC(r, s, m)
            self.fin = _digest
            self.ref = lambda m: R.poly_ref(r, s, m)
            self.std = "RFC 8439"
        elif k == "poly":
            cname, key, nonce = spec[1:4]
            P = L["Poly1305"]
            cmod = L["cipher"][cname]
            r, s = R.poly_aes_rs(key, nonce) if cname == "AES" else R.poly_chacha_rs(key, nonce)
            self.fam, self.name = "mac", "Poly1305-" + cname
            self.label = "%s/key=%s..%s/nonce=%s(%d)" % (self.name, key[:4].hex(), key[-2:].hex(), nonce[:2].hex(),
                                                        len(nonce))
            self.mk = lambda: P.new(key=key, cipher=cmod, nonce=nonce)
            self.mkd = lambda m: P.new(key=key, cipher=cmod, nonce=nonce, data=m)
            self.mk_vp = lambda: P.new(key=_mv(key), cipher=cmod, nonce=bytearray(nonce))
            self.fin = _digest
            self.ref = lambda m: R.poly_ref(r, s, m)
        elif k == "blake2":
            variant, dbytes, key = spec[1:4]
            mod = L["BLAKE2"][variant]
            kw = {"digest_bytes": dbytes}
            if key:
                kw["key"] = key
            self.fam, self.name = ("mac" if key else "hash"), "BLAKE2" + variant
            self.label = "%s/digest%d/key%d" % (self.name, dbytes, len(key))
            self.mk = lambda: mod.new(**kw)
            self.mkd = lambda m: mod.new(data=m, **kw)
            self.fin = _digest
            self.ref = lambda m: _b2ref(variant, dbytes, key, m)
            self.mk_uad = lambda: mod.new(update_after_digest=True, **kw)
            if key and variant == "b":        # BLAKE2s documents a byte string key only
                self.mk_vp = lambda: mod.new(digest_bytes=dbytes, key=bytearray(key))
            self.std = "RFC 7693"
        elif k == "shake":
            bits, outlen = spec[1], spec[2]
            mod = L["SHAKE"][bits]
            f = hashlib.shake_128 if bits == 128 else hashlib.shake_256
            self._xof("SHAKE%d" % bits, "SHAKE%d" % bits, outlen, mod.new, lambda m: mod.new(data=m),
                      lambda m, n: f(m).digest(n), "FIPS 202")
            self.copy = True
        elif k == "cshake":
            bits, custom, outlen = spec[1:4]
            mod = L["cSHAKE"][bits]
            self._xof("cSHAKE%d" % bits, "cSHAKE%d/custom%d" % (bits, len(custom)), outlen,
                      lambda: mod.new(custom=custom), lambda m: mod.new(data=m, custom=custom),
                      lambda m, n: R.cshake_ref(bits, m, n, b"", custom), "SP 800-185")
        elif k == "turbo":
            bits, domain, outlen = spec[1:4]
            mod = L["TurboSHAKE"][bits]
            self._xof("TurboSHAKE%d" % bits, "TurboSHAKE%d/domain%02x" % (bits, domain), outlen,
                      lambda: mod.new(domain=domain), lambda m: mod.new(domain=domain, data=m),
                      lambda m, n: K.turboshake(bits, m, n, domain), "RFC 9861")
        elif k == "k12":
            custom, outlen = spec[1], spec[2]
            mod = L["K12"]
            kw = {} if custom is None else {"custom": custom}
            cu = custom or b""
            self._xof("K12", "K12/custom%s" % (None if custom is None else len(custom)), outlen,
                      lambda: mod.new(**kw), lambda m: mod.new(data=m, **kw),
                      lambda m, n: (R.k12_ref(bytes(m), cu)[:n] if n <= R.K12_MAXOUT
                                    else K.kangarootwelve(bytes(m), cu, n)), "RFC 9861")
        else:
            raise AssertionError("bad subject %r" % (spec,))

    def _xof(self, name, label, outlen, mk, mkd, refx, std):
        self.fam, self.name, self.xof, self.std = "xof", name, True, std
        self.label = "%s/out%d" % (label, outlen)
        self.outlen = outlen
        self.mk, self.mkd, self.refx = mk, mkd, refx
        self.fin = lambda o: o.read(outlen)
        self.ref = lambda m: refx(m, outlen)


def _digest(o):
    return o.digest()


def _mv(b):
    """memoryview slice with a non-zero offset into a larger buffer"""
    return memoryview(b"\xa5" + bytes(b) + b"\x5a")[1:1 + len(b)]


_SUBJ = {}


def subject(spec):
    k = repr(spec)
    s = _SUBJ.get(k)
    if s is None:
        if len(_SUBJ) > 256:
            _SUBJ.clear()
        s = _SUBJ[k] = Subject(spec)
    return s


def spec_of(sd):
    """compact shard descriptor (ints only) -> concrete spec (parameter values materialised with val())"""
    k = sd[0]
    if k == "hash":
        return ["hash", sd[1]]
    if k == "hmac":                                   # hash, key length, key kind
        return ["hmac", sd[1], val(sd[3], sd[2], "hmac-key")]
    if k == "cmac":                                   # cipher, key length, key kind, mac_len
        return ["cmac", sd[1], val(sd[3], sd[2], "cmac-key"), sd[4]]
    if k == "kmac":                                   # bits, key length, custom length, mac_len
        return ["kmac", sd[1], val(3, sd[2], "kmac-key"), val(3, sd[3], "kmac-custom"), sd[4]]
    if k == "polyrs":
        return ["polyrs", _poly_r(sd[1]), _poly_s(sd[2])]
    if k == "poly":
        key, nonce = poly_key_nonce(sd[1], sd[2])
        return ["poly", sd[1], key, nonce]
    if k == "blake2":                                 # variant, digest bytes, key length
        return ["blake2", sd[1], sd[2], val(3, sd[3], "b2key")]
    if k == "shake":                                  # bits, output length
        return ["shake", sd[1], sd[2]]
    if k == "cshake":                                 # bits, custom length, output length
        return ["cshake", sd[1], val(3, sd[2], "cshake-custom"), sd[3]]
    if k == "turbo":                                  # bits, domain, output length
        return ["turbo", sd[1], sd[2], sd[3]]
    if k == "k12":                                    # custom length or None, output length
        return ["k12", None if sd[1] is None else val(3, sd[1], "k12-custom"), sd[2]]
    raise AssertionError("bad subject descriptor %r" % (sd,))


SEG_MODES = {"bytes": "segmented-update", "views": "segmented-update-bytearray-memoryview",
             "copy": "copy-mid-stream", "uad": "digest-mid-stream", "data+update": "new-data-then-update",
             "viewparams": "bytearray-memoryview-parameters", "viewdata+update": "new-data-memoryview-then-update"}


def seg_run(S, msg, cuts, mode):
    """Feed msg to a fresh object in len(cuts)+1 pieces; returns [(which output, bytes consumed, output)]."""
    n = len(msg)
    pts = (0,) + tuple(cuts) + (n,)
    if mode == "bytes":
        o = S.mk()
        for i in range(len(pts) - 1):
            o.update(msg[pts[i]:pts[i + 1]])
        return [("final", n, S.fin(o))]
    if mode == "data+update":
        o = S.mkd(msg[:pts[1]])
        for i in range(1, len(pts) - 1):
            o.update(msg[pts[i]:pts[i + 1]])
        return [("final", n, S.fin(o))]
    if mode == "viewdata+update":
        o = S.mkd(memoryview(msg)[:pts[1]])
        for i in range(1, len(pts) - 1):
            o.update(bytearray(msg[pts[i]:pts[i + 1]]))
        return [("final", n, S.fin(o))]
    if mode in ("views", "viewparams"):
        o = S.mk() if mode == "views" else S.mk_vp()
        mv = memoryview(msg)
        for i in range(len(pts) - 1):
            o.update(mv[pts[i]:pts[i + 1]] if i & 1 else bytearray(msg[pts[i]:pts[i + 1]]))
        return [("final", n, S.fin(o))]
    if mode == "copy":
        o = S.mk()
        o.update(msg[:pts[1]])
        g = o.copy()
        for i in range(1, len(pts) - 1):
            g.update(msg[pts[i]:pts[i + 1]])
        dg = S.fin(g)
        for i in range(1, len(pts) - 1):
            o.update(msg[pts[i]:pts[i + 1]])
        return [("copy", n, dg), ("original", n, S.fin(o))]
    if mode == "uad":
        o = S.mk_uad()
        out = []
        for i in range(len(pts) - 1):
            o.update(msg[pts[i]:pts[i + 1]])
            out.append(("digest after piece %d" % (i + 1), pts[i + 1], S.fin(o)))
        return out
    raise AssertionError("bad seg mode")


def check_seg(acc, spec, msg, cuts, mode, counted=False):
    S = subject(spec)
    cuts = tuple(cuts)
    if not counted:
        acc.count("evaluations")
        acc.count("seg_cases")
        acc.seen("shapes", ("seg", S.label, len(msg), len(cuts) + 1, mode))
    case = {"part": "seg", "spec": spec, "msg": msg, "cuts": list(cuts), "mode": mode}
    what = "%s, %d-byte message %s fed by update() in pieces cut at %s (%s)" % (
        S.label, len(msg), short(msg, 24), list(cuts), SEG_MODES[mode])
    try:
        outs = seg_run(S, msg, cuts, mode)
    except Exception as e:  # noqa
        return _raised(acc, S.fam, S.name, e, what, case)
    for which, end, got in outs:
        exp = S.ref(msg[:end])
        if got != exp:
            acc.violation("C03/%s/%s/%s" % (S.fam, S.name, SEG_MODES[mode]),
                          "%s: %s over the first %d bytes = %s, %s says %s"
                          % (what, which, end, short(got), S.std, short(exp)), case)
            return


def _cut_tuples(n, npieces):
    """every non-decreasing (npieces-1)-tuple of cut positions in 0..n (empty pieces included)"""
    if npieces == 2:
        for c in range(n + 1):
            yield (c,)
    elif npieces == 3:
        for c1 in range(n + 1):
            for c2 in range(c1, n + 1):
                yield (c1, c2)
    elif npieces == 4:
        for c1 in range(n + 1):
            for c2 in range(c1, n + 1):
                for c3 in range(c2, n + 1):
                    yield (c1, c2, c3)
    else:
        raise AssertionError("pieces")


def seg_count(ns, npieces):
    if npieces == 2:
        return sum(n + 1 for n in ns)
    if npieces == 3:
        return sum((n + 1) * (n + 2) // 2 for n in ns)
    return sum((n + 1) * (n + 2) * (n + 3) // 6 for n in ns)


def _ns(lo, hi, stride, off):
    return range(lo + off, hi + 1, stride)


def seg_grid(acc, sd, kind, lo, hi, stride, off, npieces, mode):
    """every message length n in lo+off, lo+off+stride, .. <= hi  x  every way to cut it into npieces pieces"""
    spec = spec_of(sd)
    S = subject(spec)
    buf = val(kind, hi, "seg-msg")
    prefix_ref = {}
    cnt = 0
    for n in _ns(lo, hi, stride, off):
        msg = buf[:n]
        exp = S.ref(msg)
        prefix_ref[n] = exp
        acc.seen("shapes", ("seg", S.label, n, npieces, mode))
        for cuts in _cut_tuples(n, npieces):
            cnt += 1
            try:
                bad = False
                for _, end, got in seg_run(S, msg, cuts, mode):
                    if end == n:
                        e = exp
                    else:
                        e = prefix_ref.get(end)
                        if e is None:
                            e = prefix_ref[end] = S.ref(buf[:end])
                    if got != e:
                        bad = True
            except Exception:  # noqa
                bad = True
            if bad:
                check_seg(acc, spec, msg, cuts, mode, counted=True)
    acc.seen("seg-subjects/" + mode, S.label)
    acc.seen("out/seg", exp[:6])
    acc.count("evaluations", cnt)
    acc.count("seg_cases", cnt)


def check_rseg(acc, spec, msg, reads, entry="update", counted=False):
    """XOF: output read in pieces.  entry: 'update' = new().update(m), 'data' = new(data=m)."""
    S = subject(spec)
    reads = tuple(reads)
    total = sum(reads)
    if not counted:
        acc.count("evaluations")
        acc.count("rseg_cases")
        acc.seen("shapes", ("rseg", S.label, len(msg), reads, entry))
    case = {"part": "rseg", "spec": spec, "msg": msg, "reads": list(reads), "entry": entry}
    what = "%s, %d-byte message %s (%s), output read as %s" % (
        S.label, len(msg), short(msg, 24), "new(data=m)" if entry == "data" else "update(m)", list(reads))
    try:
        if entry == "data":
            o = S.mkd(msg)
        else:
            o = S.mk()
            o.update(msg)
        got = b"".join(o.read(r) for r in reads)
    except Exception as e:  # noqa
        return _raised(acc, "xof", S.name, e, what, case)
    exp = S.refx(msg, total)
    if got != exp:
        acc.violation("C03/xof/%s/%s" % (S.name, "value" if len(reads) == 1 else "segmented-read"),
                      "%s: %s, %s says %s" % (what, short(got), S.std, short(exp)), case)


def rseg_grid(acc, sd, kind, n, lo, hi, stride, off, npieces):
    """one message of n bytes; every total output length T in the range x every split of T into npieces reads"""
    spec = spec_of(sd)
    S = subject(spec)
    msg = val(kind, n, "rseg-msg")
    full = S.refx(msg, hi)
    cnt = 0
    for T in _ns(lo, hi, stride, off):
        exp = full[:T]
        acc.seen("shapes", ("rseg", S.label, n, T, npieces))
        acc.seen("out/rseg", exp[-6:])
        for cuts in _cut_tuples(T, npieces):
            cnt += 1
            pts = (0,) + cuts + (T,)
            reads = tuple(pts[i + 1] - pts[i] for i in range(len(pts) - 1))
            try:
                o = S.mk()
                o.update(msg)
                bad = b"".join([o.read(r) for r in reads]) != exp
            except Exception:  # noqa
                bad = True
            if bad:
                check_rseg(acc, spec, msg, reads, "update", counted=True)
    acc.seen("out/rseg", full[:6])
    acc.count("evaluations", cnt)
    acc.count("rseg_cases", cnt)


def xof_grid(acc, sd, kind, lo, hi, stride, off, omax):
    """every message length in the range x every output length 0..omax, new(data=m).read(n)"""
    spec = spec_of(sd)
    S = subject(spec)
    buf = val(kind, hi, "xofgrid-msg")
    cnt = 0
    for n in _ns(lo, hi, stride, off):
        msg = buf[:n]
        full = S.refx(msg, omax)
        acc.seen("shapes", ("xofgrid", S.label, n, omax))
        acc.seen("out/xofgrid", full[:6])
        for o in range(omax + 1):
            cnt += 1
            try:
                bad = S.mkd(msg).read(o) != full[:o]
            except Exception:  # noqa
                bad = True
            if bad:
                check_rseg(acc, spec, msg, (o,), "data", counted=True)
    acc.count("evaluations", cnt)
    acc.count("xofgrid_cases", cnt)


def check_one(acc, spec, msg, counted=False):
    """one computation through new(..., data=m) for a Subject spec"""
    S = subject(spec)
    if not counted:
        acc.count("evaluations")
        acc.count("pgrid_cases")
        acc.seen("shapes", ("one", S.label, len(msg)))
    case = {"part": "one", "spec": spec, "msg": msg}
    what = "%s, %d-byte message %s" % (S.label, len(msg), short(msg, 24))
    try:
        got = S.fin(S.mkd(msg))
    except Exception as e:  # noqa
        return _raised(acc, S.fam, S.name, e, what, case)
    exp = S.ref(msg)
    if got != exp:
        acc.violation("C03/%s/%s/value" % (S.fam, S.name),
                      "%s: library returns %s, %s says %s" % (what, short(got), S.std, short(exp)), case)


PGRID = {
    # family: (parameter value -> compact subject descriptor)
    "cshake-custom": lambda bits, p: ("cshake", bits, p, 32),
    "kmac-key": lambda bits, p: ("kmac", bits, p, 0, 32),
    "kmac-custom": lambda bits, p: ("kmac", bits, KMAC_MINKEY[bits] + 1, p, 32),
    "kmac-maclen": lambda bits, p: ("kmac", bits, KMAC_MINKEY[bits], 1, p),
    "k12-custom": lambda bits, p: ("k12", p, 32),
}


def param_grid(acc, fam, bits, lo, hi, stride, off, nmax):
    """every parameter value in the strided range x every message length 0..nmax, new(data=m)"""
    buf = val(3, nmax, "pgrid-msg")
    cnt = 0
    for pv in _ns(lo, hi, stride, off):
        spec = spec_of(PGRID[fam](bits, pv))
        S = subject(spec)
        acc.seen("shapes", ("pgrid", fam, bits, pv, nmax))
        for n in range(nmax + 1):
            cnt += 1
            msg = buf[:n]
            try:
                exp = S.ref(msg)
                bad = S.fin(S.mkd(msg)) != exp
            except Exception:  # noqa
                bad = True
            if bad:
                check_one(acc, spec, msg, counted=True)
        acc.seen("out/pgrid", exp[:6])
    acc.count("evaluations", cnt)
    acc.count("pgrid_cases", cnt)


def d_pgrid(acc, fam, bits, lo, hi, stride, off, nmax):
    param_grid(acc, fam, bits, lo, hi, stride, off, nmax)


def gen_pgrid(q):
    if q:
        return []
    groups = []
    for bits in (128, 256):
        r = _rate(bits)
        mk = KMAC_MINKEY[bits]
        for fam, lo, hi, nmax in (("cshake-custom", 0, 3 * r + 1, 3 * r + 1), ("kmac-key", mk, 2 * r + 2, 2 * r + 1),
                                  ("kmac-custom", 0, 2 * r + 1, 2 * r + 1), ("kmac-maclen", 8, 2 * r + 1, 2 * r + 1)):
            groups += _strided("pgrid", (fam, bits), (nmax,), lo, hi, lambda ns: len(ns) * (nmax + 1), 1000)
        groups += _strided("thgrid", (bits,), (2 * r + 1,), 0, 2 * r + 1, lambda ns: len(ns) * (2 * r + 2), 1300)
        groups += _strided("thgrid", (bits,), (2 * r + 1, True), 0, 2 * r + 1, lambda ns: len(ns) * (2 * r + 2), 1400)
    groups += _strided("pgrid", ("k12-custom", 0), (337,), 0, 337, lambda ns: len(ns) * 338, 1100)
    return groups


def tuplehash_pair_grid(acc, bits, lo, hi, stride, off, bmax, views=False):
    """TupleHash of (a, b): every length of a in the strided range x every length of b in 0..bmax
    views: a passed as bytearray, b as memoryview slice, one update() call per item"""
    mod = lib()["TupleHash"][bits]
    A = val(3, hi, "th-item0")
    B = val(3, bmax, "th-item1")
    cnt = 0
    for la in _ns(lo, hi, stride, off):
        acc.seen("shapes", ("thgrid", bits, la, bmax, views))
        for lb in range(bmax + 1):
            cnt += 1
            items = [A[:la], B[:lb]]
            try:
                exp = R.tuplehash_ref(bits, items, 32, b"")
                if views:
                    bad = mod.new(digest_bytes=32).update(bytearray(items[0])).update(_mv(items[1])).digest() != exp
                else:
                    bad = mod.new(digest_bytes=32).update(*items).digest() != exp
            except Exception:  # noqa
                bad = True
            if bad:
                acc.count("tuplehash_cases", -1)       # reported through the general check, not a tuplehash_cases case
                check_tuplehash(acc, bits, items, None, 32)
        acc.seen("out/pgrid", exp[:6])
    acc.count("evaluations", cnt)
    acc.count("thgrid_cases", cnt)


def d_thgrid(acc, bits, lo, hi, stride, off, bmax, views=False):
    tuplehash_pair_grid(acc, bits, lo, hi, stride, off, bmax, views)


def d_seg(acc, sd, kind, lo, hi, stride, off, npieces, mode):
    seg_grid(acc, sd, kind, lo, hi, stride, off, npieces, mode)


def d_rseg(acc, sd, kind, n, lo, hi, stride, off, npieces):
    rseg_grid(acc, sd, kind, n, lo, hi, stride, off, npieces)


def d_xofgrid(acc, sd, kind, lo, hi, stride, off, omax):
    xof_grid(acc, sd, kind, lo, hi, stride, off, omax)


def d_xofone(acc, sd, kind, n, reads, entry):
    check_rseg(acc, spec_of(sd), val(kind, n, "rseg-msg"), reads, entry)


# ---- generators of the deep parts (thorough tier only) ------------------------------------------
SEG_UNIT = {"hash": 15, "hmac": 60, "cmac": 110, "kmac": 45, "polyrs": 13, "poly": 30, "blake2": 15,
            "shake": 16, "cshake": 26, "turbo": 16, "k12": 20}          # ~0.5 us units per library run (one read)
XOF_UNIT = {"shake": 45, "cshake": 50, "turbo": 42, "k12": 50}          # same, several read() calls
SEG_MODE_FACTOR = {"bytes": 1.0, "views": 1.0, "copy": 2.0, "uad": 1.7, "data+update": 1.0, "viewparams": 1.1,
                   "viewdata+update": 1.0}
SEG_VIEWS_EXTRA = 50                                                     # bytearray / memoryview marshalling
GROUP_TARGET = 5000000                                                   # ~2.5 s per group


def _strided(tag, head, tail, lo, hi, count_fn, unit, extra=0):
    """Split the range lo..hi into interleaved strides so that one group costs about GROUP_TARGET."""
    total = count_fn(range(lo, hi + 1)) * unit + extra
    stride = max(1, min(hi - lo + 1, int(total // GROUP_TARGET) + 1))
    out = []
    for off in range(stride):
        ns = range(lo + off, hi + 1, stride)
        out.append((int(count_fn(ns) * unit + extra / stride) + 2000, [(tag,) + head + (lo, hi, stride, off) + tail]))
    return out


def _seg_groups(sd, kind, hi, npieces, mode, refcost=0):
    unit = (SEG_UNIT[sd[0]] * SEG_MODE_FACTOR[mode] + (SEG_VIEWS_EXTRA if mode in ("views", "viewparams", "viewdata+update") else 0)) \
        * (1.0, 1.25, 1.5)[npieces - 2]
    return _strided("seg", (sd, kind), (npieces, mode), 0, hi, lambda ns: seg_count(ns, npieces), unit,
                    extra=refcost * (hi + 1))


SEG_HMAC_KINDS = 3
SEG_CMAC_KEYS = {"AES": (16, 24, 32), "DES3": (16, 24), "DES": (8,), "Blowfish": (4, 16, 56), "CAST": (5, 16),
                 "ARC2": (5, 16, 128)}


# four pieces (message 0..block+1): every 64-byte-block hash, MD2, one representative of the SHA-2 512 template,
# BLAKE2b, Keccak with every SHA-3 rate (72, 104, 136, 144) and legacy Keccak-512
SEG_FOUR_PIECES = ("MD2", "MD4", "MD5", "RIPEMD160", "SHA1", "SHA224", "SHA256", "BLAKE2s", "SHA512", "BLAKE2b",
                   "SHA3_512", "keccak512", "SHA3_384", "SHA3_256", "SHA3_224")


def _seg_plan_base():
    """[(subject descriptor, value kind, top message length, pieces, mode, reference cost per message)]"""
    plan = []
    for algo, (f, B, D, hl) in R.HASH_REF.items():
        if "alias" in algo:
            continue
        S_copy = not algo.startswith(("keccak", "BLAKE2"))
        rc = 0 if hl is not None else (2600 if algo == "MD2" else 1400)
        sd = ("hash", algo)
        for kind in (2, 3):
            plan.append((sd, kind, 4 * B + 1, 2, "bytes", rc))
        plan.append((sd, 3, 4 * B + 1, 2, "views", rc))
        plan.append((sd, 3, 4 * B + 1, 2, "uad", rc))
        plan.append((sd, 3, 3 * B + 1, 3, "bytes", rc))
        top3 = (2 if B <= 72 else 1) * B + 1
        plan.append((sd, 3, top3, 3, "uad", rc))
        plan.append((sd, 3, top3, 3, "views", rc))
        if S_copy:
            plan.append((sd, 3, 4 * B + 1, 2, "copy", rc))
            plan.append((sd, 3, top3, 3, "copy", rc))
        if algo in SEG_FOUR_PIECES:
            plan.append((sd, 3, B + 1, 4, "bytes", rc))
    for hname in HMAC_HASHES:
        if "alias" in hname:
            continue
        f, B, D, hl = R.HASH_REF[hname]
        rc = 200 if hl is not None else (12000 if hname == "MD2" else 5000)
        for kl in (0, 1, B - 1, B, B + 1, 2 * B + 1):
            sd = ("hmac", hname, kl, 3)
            plan.append((sd, 3, 2 * B + 1, 2, "bytes", rc))
            if kl in (0, B, B + 1):
                plan.append((sd, 3, 2 * B + 1, 2, "copy", rc))
                if not hname.startswith("SHA3_"):
                    plan.append((sd, 3, 2 * B + 1, 2, "uad", rc))
            if kl in (B, B + 1):
                plan.append((sd, 3, 2 * B + 1, 2, "views", rc))
                plan.append((sd, 3, B + 1 if kl == B + 1 else min(B + 1, 73), 3, "bytes", rc))
    for cname, kls in SEG_CMAC_KEYS.items():
        bs = 16 if cname == "AES" else 8
        rc = CMAC_REFCOST[cname] * 2 * 6
        for kl in kls:
            sd = ("cmac", cname, kl, 3, None)
            for kind in (2, 3):
                plan.append((sd, kind, 8 * bs + 1, 2, "bytes", rc))
            for mode in ("views", "copy", "uad"):
                plan.append((sd, 3, 8 * bs + 1, 2, mode, rc))
            for mode in ("bytes", "views", "copy", "uad"):
                plan.append((sd, 3, 4 * bs + 1, 3, mode, rc))
            plan.append((sd, 3, 2 * bs + 1, 4, "bytes", rc))
        for ml in range(4, bs):                            # every truncated mac_len, two pieces
            plan.append((("cmac", cname, kls[0], 3, ml), 3, 4 * bs + 1, 2, "bytes", rc))
    for bits in (128, 256):
        r = _rate(bits)
        mk = KMAC_MINKEY[bits]
        for kl in (mk, r + 1):
            for cl in (0, 1):
                sd = ("kmac", bits, kl, cl, 32)
                plan.append((sd, 3, 2 * r + 1, 2, "bytes", 900))
                plan.append((sd, 3, 2 * r + 1, 2, "views", 900))
        plan.append((("kmac", bits, mk, 0, 32), 3, r + 1, 3, "bytes", 900))
        for m in (8, 64, r + 1):                           # more mac_len values, two pieces
            plan.append((("kmac", bits, mk + 1, 1, m), 3, 2 * r + 1, 2, "bytes", 900))
    for ri, si in ((4, 2), (2, 1), (1, 1), (0, 0)):
        sd = ("polyrs", ri, si)
        plan.append((sd, 3, 257, 2, "bytes", 60))
        plan.append((sd, 1, 257, 2, "bytes", 60))
        plan.append((sd, 3, 257, 2, "views", 60))
        plan.append((sd, 3, 81, 3, "bytes", 60))
    for cname, v in (("AES", 0), ("AES", 1), ("ChaCha20", 0), ("ChaCha20", 1)):
        plan.append((("poly", cname, v), 3, 129, 2, "bytes", 100))
    for variant, maxd, B in (("b", 64, 128), ("s", 32, 64)):
        for d in (1, maxd):
            for kl in (0, 1, maxd):
                sd = ("blake2", variant, d, kl)
                for mode in ("bytes", "views", "uad"):
                    plan.append((sd, 3, 4 * B + 1, 2, mode, 0))
        for kl in (0, maxd):
            plan.append((("blake2", variant, maxd, kl), 3, 2 * B + 1, 3, "bytes", 0))
            plan.append((("blake2", variant, maxd, kl), 3, B + 1, 3, "uad", 0))
        for d in (16, 20, maxd // 2, maxd - 1):           # more digest sizes, two pieces
            for kl in (0, maxd):
                plan.append((("blake2", variant, d, kl), 3, 4 * B + 1, 2, "bytes", 0))
    for bits in (128, 256):
        r = _rate(bits)
        sd = ("shake", bits, 32)
        for mode in ("bytes", "views", "copy"):
            plan.append((sd, 3, 4 * r + 1, 2, mode, 0))
        plan.append((sd, 3, 2 * r + 1, 3, "bytes", 0))
        plan.append((sd, 3, r + 1, 3, "copy", 0))
        if bits == 128:
            plan.append((sd, 3, r + 1, 4, "bytes", 0))        # the 168-byte rate, four pieces
        for o in (1, r, r + 1):                            # more output lengths, two pieces
            plan.append((("shake", bits, o), 3, 2 * r + 1, 2, "bytes", 0))
            plan.append((("cshake", bits, 1, o), 3, 2 * r + 1, 2, "bytes", 900))
            plan.append((("turbo", bits, 0x1F, o), 3, 2 * r + 1, 2, "bytes", 900))
        for cl in (1, r - 7):
            sd = ("cshake", bits, cl, 32)
            plan.append((sd, 3, 3 * r + 1, 2, "bytes", 900))
            plan.append((sd, 3, 3 * r + 1, 2, "views", 900))
        plan.append((("cshake", bits, 1, 32), 3, r + 1, 3, "bytes", 900))
        for dom in (0x1F, 0x01, 0x7F):
            sd = ("turbo", bits, dom, 32)
            plan.append((sd, 3, 3 * r + 1, 2, "bytes", 900))
            plan.append((sd, 3, 3 * r + 1, 2, "views", 900))
        plan.append((("turbo", bits, 0x1F, 32), 3, r + 1, 3, "bytes", 900))
    for cl in (None, 1):
        sd = ("k12", cl, 32)
        plan.append((sd, 3, 2 * 168 + 1, 2, "bytes", 900))
        plan.append((sd, 3, 2 * 168 + 1, 2, "views", 900))
    plan.append((("k12", None, 32), 3, 100, 3, "bytes", 900))
    for o in (1, 168, 169):
        plan.append((("k12", 1, o), 3, 2 * 168 + 1, 2, "bytes", 900))
    return plan


def seg_plan():
    plan = _seg_plan_base()
    extra = []
    for sd, kind, hi, npieces, mode, rc in plan:
        if npieces == 2 and mode == "bytes" and kind == 3:
            extra.append((sd, kind, hi, 2, "data+update", rc))
            extra.append((sd, kind, hi, 2, "viewdata+update", rc))
            if sd[0] in ("hmac", "cmac", "kmac", "poly") or (sd[0] == "blake2" and sd[1] == "b" and sd[3]):
                extra.append((sd, kind, hi, 2, "viewparams", rc))
    return plan + extra


def gen_seg(q):
    if q:
        return []
    groups = []
    for sd, kind, hi, npieces, mode, rc in seg_plan():
        groups += _seg_groups(sd, kind, hi, npieces, mode, rc)
    return groups


def xof_subjects():
    out = []
    for bits in (128, 256):
        out += [("shake", bits, 32), ("cshake", bits, 1, 32), ("turbo", bits, 0x1F, 32)]
    out.append(("k12", None, 32))
    out.append(("k12", 1, 32))
    return out


def gen_rseg(q):
    if q:
        return []
    groups = []
    for sd in xof_subjects():
        r = 168 if sd[0] == "k12" else _rate(sd[1])
        unit = XOF_UNIT[sd[0]]
        for n in (0, 1, r - 1, r + 1):
            groups += _strided("rseg", (sd, 3, n), (2,), 0, 3 * r + 1, lambda ns: seg_count(ns, 2), unit, 4000)
        groups += _strided("rseg", (sd, 3, 3), (3,), 0, (2 if sd[0] == "shake" or sd == ("k12", None, 32) else 1) * r + 1,
                           lambda ns: seg_count(ns, 3), unit * 1.2, 4000)
    return groups


XOF_LONG_OUT_K = tuple(range(10, 17))


def gen_xofgrid(q):
    if q:
        return []
    groups = []
    for bits in (128, 256):
        r = _rate(bits)
        plan = [(("shake", bits, 32), 3 * r + 1, 3 * r + 1, 0)]
        plan += [(("cshake", bits, cl, 32), 2 * r + 1, 2 * r + 1, 1500) for cl in (1, 33, 300)]
        plan += [(("turbo", bits, dom, 32), 2 * r + 1, 2 * r + 1, 1500) for dom in (0x1F, 0x01, 0x06, 0x07, 0x0B, 0x7F)]
        for sd, nmax, omax, rc in plan:
            groups += _strided("xofgrid", (sd, 3), (omax,), 0, nmax, lambda ns: len(ns) * (omax + 1),
                               XOF_UNIT[sd[0]], rc * (nmax + 1))
    for cl in (None, 1, 300):
        groups += _strided("xofgrid", (("k12", cl, 32), 3), (337,), 0, 337, lambda ns: len(ns) * 338,
                           XOF_UNIT["k12"], 1500 * 338)
    # output lengths 2^k-1, 2^k, 2^k+1 (k = 10..16), read at once and in two halves
    for sd in (("cshake", 128, 1, 32), ("cshake", 256, 1, 32), ("k12", None, 32), ("k12", 1, 32)):
        for n in (17, 8193 if sd[0] == "k12" else 300):
            for k in XOF_LONG_OUT_K:
                cases = []
                for d in (-1, 0, 1):
                    cases.append(("xofone", sd, 3, n, ((1 << k) + d,), "data"))
                    cases.append(("xofone", sd, 3, n, _split((1 << k) + d), "update"))
                groups.append((len(cases) * (3000 + 3 * (1 << k)), cases))
    return groups


DISPATCH = {"hash": d_hash, "hashbig": d_hashbig, "hashone": d_hashone, "shake": d_shake, "cshake": d_cshake, "kmac": d_kmac,
            "tuplehash": d_tuplehash, "turbo": d_turbo, "k12": d_k12, "hmac": d_hmac, "cmac": d_cmac,
            "polyrs": d_polyrs, "poly": d_poly, "b2grid": d_b2grid, "b2full": d_b2full,
            "seg": d_seg, "rseg": d_rseg, "xofgrid": d_xofgrid, "k12cuts": d_k12cuts, "xofone": d_xofone,
            "pgrid": d_pgrid, "thgrid": d_thgrid}
GENERATORS = (gen_hash, gen_shake, gen_cshake, gen_kmac, gen_tuplehash, gen_turbo, gen_k12, gen_hmac,
              gen_cmac, gen_poly, gen_blake2, gen_seg, gen_rseg, gen_xofgrid, gen_pgrid)


def pack(groups, nshards):
    """Longest-processing-time-first packing of (cost, cases) groups into shards; a group is never split
    (its cases share a primed reference state).  Deterministic."""
    order = sorted(range(len(groups)), key=lambda i: (-groups[i][0], i))
    loads = [0] * nshards
    shards = [[] for _ in range(nshards)]
    for i in order:
        j = loads.index(min(loads))
        loads[j] += groups[i][0]
        shards[j].append(groups[i][1])
    out = sorted(zip(loads, range(nshards), shards), key=lambda t: (-t[0], t[1]))
    return [s for _, _, s in out if s]


def worker(shard):
    acc = MinAcc()
    try:
        install_seam()
    except Exception as e:  # noqa
        acc.error(str(e))
        return acc
    n0 = SEAM["n"]
    import time
    for group in shard:
        t0 = time.process_time()
        for case in group:
            if case[0] == "selftest":
                selftest_case(acc, case[1])
            else:
                DISPATCH[case[0]](acc, *case[1:])
        if group:
            acc.count("cpu_s/" + group[0][0], time.process_time() - t0)
    for v in _SAMPLES.values():
        acc.sample(v)
    acc.count("seam_calls", SEAM["n"] - n0)
    return acc


def selftest_case(acc, i):
    try:
        if i < len(R.REF_MODULES):
            if R.REF_MODULES[i].selftest() is False:
                acc.error("reference selftest failed: %s" % R.REF_MODULES[i].__name__)
        else:
            R.selftest_glue()
    except Exception as e:  # noqa
        import traceback
        acc.error("reference selftest failed (%s):\n%s" % (i, traceback.format_exc()))
    acc.count("selftests")


# ===========================================================================
def run(ctx):
    import time
    q = ctx.quick
    t0 = time.time()
    ctx.acc = MinAcc()
    groups = []
    expected = {}
    names = {"hash": "hash_cases", "hashbig": "hash_stream_cases", "hashone": "hash_oneshot_cases", "shake": "shake_cases",
             "cshake": "cshake_cases", "kmac": "kmac_cases", "tuplehash": "tuplehash_cases",
             "turbo": "turbo_cases", "k12": "k12_cases", "hmac": "hmac_cases", "cmac": "cmac_cases",
             "polyrs": "poly_rs_cases", "poly": "poly_cases", "b2full": "blake2_cases"}
    for gen in GENERATORS:
        gs = gen(q)
        groups += gs
        for _, cases in gs:
            for c in cases:
                if c[0] == "b2grid":
                    expected["blake2_grid_cases"] = expected.get("blake2_grid_cases", 0) \
                        + ((64 if c[1] == "b" else 32) + 1) * (c[3] + 1)
                elif c[0] == "seg":
                    expected["seg_cases"] = expected.get("seg_cases", 0) + seg_count(_ns(*c[3:7]), c[7])
                elif c[0] == "rseg":
                    expected["rseg_cases"] = expected.get("rseg_cases", 0) + seg_count(_ns(*c[4:8]), c[8])
                elif c[0] == "k12cuts":
                    expected["k12_cut_cases"] = expected.get("k12_cut_cases", 0) + len(_ns(*c[4:8]))
                elif c[0] == "xofone":
                    expected["rseg_cases"] = expected.get("rseg_cases", 0) + 1
                elif c[0] == "thgrid":
                    expected["thgrid_cases"] = expected.get("thgrid_cases", 0) + len(_ns(*c[2:6])) * (c[6] + 1)
                elif c[0] == "pgrid":
                    expected["pgrid_cases"] = expected.get("pgrid_cases", 0) + len(_ns(*c[3:7])) * (c[7] + 1)
                elif c[0] == "xofgrid":
                    expected["xofgrid_cases"] = expected.get("xofgrid_cases", 0) + len(_ns(*c[3:7])) * (c[7] + 1)
                else:
                    expected[names[c[0]]] = expected.get(names[c[0]], 0) + 1
    nself = len(R.REF_MODULES) + 1
    groups += [(3000000, [("selftest", i)]) for i in range(nself)]
    shards = pack(groups, max(32, ctx.workers * (6 if q else 40)))
    ctx.coverage_extra["enumeration_build_s"] = round(time.time() - t0, 2)
    ctx.pmap(worker, shards)
    a = ctx.acc
    n = a.n

    # ---- vacuity guards --------------------------------------------------------
    ctx.require(n.get("selftests", 0) == nself, "reference selftests did not all run")
    for k, v in sorted(expected.items()):
        ctx.require(n.get(k, 0) == v, "%s: executed %d of %d enumerated cases" % (k, n.get(k, 0), v))
    ctx.require(n.get("verify_accept", 0) > 0 and n.get("verify_reject", 0) > 0,
                "verify(): accept and reject must both be observed")
    ctx.require(n.get("verify_reject", 0) + n.get("verify_accept", 0) + n.get("verify_other", 0) > 100000,
                "verify(): fewer candidates offered than the tag alphabet must produce")
    ctx.require(n.get("seam_calls", 0) >= (n.get("verify_accept", 0) + n.get("verify_reject", 0)) // 2,
                "the get_random_bytes seam was not reached by every verify() call")
    macs = set(s[2] for s in a.distinct.get("shapes", ()) if s[0] == "verify")
    want = 15 + 6 + 2 + 2 + 2          # HMAC hashes (without the two alias modules), CMAC ciphers, KMAC, Poly1305, BLAKE2
    ctx.require(len(macs) >= want, "verification alphabet ran on %d MACs, expected >= %d" % (len(macs), want))
    for cls in ("authentic", "truncated", "extended-00", "extended-next", "other-message", "bitflip"):
        ctx.require(any(s[0] == "verify" and s[3] == cls for s in a.distinct.get("shapes", ())),
                    "candidate class %s never offered" % cls)
    for part in ("hash", "shake", "cshake", "kmac", "tuplehash", "turbo", "k12", "hmac", "cmac", "poly"):
        ctx.require(len(a.distinct.get("out/" + part, ())) >= 100,
                    "part %s produced fewer than 100 distinct reference outputs" % part)
    ctx.require(n.get("refused_by_policy", 0) > 0, "no documented parameter refusal was exercised")
    shapes = a.distinct.get("shapes", ())
    ctx.require(any(s[0] == "k12" and s[1] == 0 and (s[2] or 0) >= 8190 and s[4] == ("none",) for s in shapes),
                "the KangarooTwelve long-customisation / no-update case was not executed")

    if not q:
        deep_guards(ctx, a, shapes)

    per_part = {}
    for s in shapes:
        per_part[s[0]] = per_part.get(s[0], 0) + 1
    ctx.coverage_extra.update({
        "evaluations": n.get("evaluations", 0),
        "distinct_nontrivial": len(shapes),
        "exhaustive": not a.caps,
        "distinct_shapes_per_part": per_part,
        "cases_per_part": {k: n.get(k, 0) for k in sorted(set(expected) | {"blake2_cases"})},
        "verify_outcomes": {k: n.get("verify_" + k, 0) for k in ("accept", "reject", "other")},
        "policy_refusals_logged": n.get("refused_by_policy", 0),
        "shards": len(shards),
        "cpu_seconds_per_part": {k[6:]: round(v, 1) for k, v in sorted(n.items()) if k.startswith("cpu_s/")},
        "grids": {
            "hash": "MD2 MD4 MD5 RIPEMD160 SHA1 SHA224/256/384/512 SHA512-224/256 SHA3-224..512 Keccak-224..512 "
                    "BLAKE2b-512 BLAKE2s-256 (+aliases SHA, RIPEMD): every message length 0..%s, value alphabet "
                    "zero/ones/ascending/seeded; one long message of %s bytes per Merkle-Damgard hash%s"
                    % ("3*block+1 (sponges 0..2*rate+1)" if q else "8*block+1 (sponges 0..4*rate+1)",
                       "2^24+1" if q else "2^29+1", "" if q else "; BLAKE2s 2^32+65 bytes"),
            "shake": "SHAKE128/256: message 0..%d*rate+1, output 0..%d*rate+1, every split of a 2*rate+1 read"
                     % ((2, 2) if q else (4, 3)),
            "cshake": "cSHAKE128/256: customisation lengths %s x message lengths (0..2*rate+1 %s), output "
                      "0..2*rate+1; function-name lengths 0,1,4,9,31,32,33,255,256 via _new"
                      % (custom_lengths(128), "all, seeded value; 6 boundary lengths ascending value" if q
                         else "all, 2 values"),
            "kmac": "KMAC128/256: key lengths {min-1(refused),min,min+1,rate-6..rate-4,rate-1,rate,rate+1,2*rate} x "
                    "mac_len {default,7(refused),8,9,31,32,64,rate-1,rate,rate+1} x message {0,1,rate-1,rate,rate+1} "
                    "x customisation {omitted,0,1,31,32,33,254..257,65536} (full product); message sweep 0..2*rate+1",
            "tuplehash": "TupleHash128/256: 76 tuples of 0..3 items with boundary lengths x customisation x "
                         "digest_bytes/digest_bits",
            "turboshake": "TurboSHAKE128/256: message 0..%d*rate+1 x domain {default,01,7f}; every domain 01..7f "
                          "x 6 boundary lengths; output 0..2*rate+1; split reads" % (2 if q else 4),
            "k12": "KangarooTwelve: message lengths around 0, 8192, 16384, 24576 (and |S| = 8191..8193, "
                   "16383..16385 for each customisation) x customisation lengths x feeding patterns "
                   "(data=, none, update, two pieces, 8192- and 1000-byte pieces); output 0..337",
            "hmac": "HMAC over %d hash variants: key length 0..block+2 and 2*block%s"
                    % (len(HMAC_HASHES), " x 10 boundary message lengths" if q
                       else ", 2*block+1, 3*block x every message length 0..2*block+1"),
            "cmac": "CMAC over AES/3DES/DES/Blowfish (reference ciphers) and CAST/RC2 (library ECB as primitive), "
                    "key lengths %s: "
                    % ("AES 16/24/32, 3DES 16/24, Blowfish 4/16/56, CAST 5/16, RC2 5/16/128" if q else
                       "AES 16/24/32, 3DES 16/24, Blowfish 4..56 all, CAST 5..16 all, RC2 5..17,64,127,128") +
                    "message 0..%d*block+1 x mac_len 4..block; every two-piece split up to 3*block+1"
                    % (3 if q else 8),
            "poly1305": "Poly1305_MAC(r,s) seam: 5 r x 3 s limb patterns x message 0..%d x 4 values; "
                        "Poly1305-AES / -ChaCha20 (8- and 12-byte nonce) 4 key variants x message 0..%d"
                        % ((65, 65) if q else (257, 257)),
            "blake2": "BLAKE2b: digest_bytes 1..64 x key length 0..64 x message 0..%d; BLAKE2s: 1..32 x 0..32 x "
                      "0..%d; digest_bits entry point and update/hexdigest/obj.new on a sub-grid"
                      % ((257, 129) if q else (385, 193)),
            "verify": "every MAC: authentic, all truncations, +00/+ff/+next-byte extensions, other-message tag, "
                      "every single-bit flip; verify() and hexverify()",
        },
    })
    for k in [k for k in n if k.startswith("cpu_s/")]:
        del n[k]
    if not q:
        ctx.coverage_extra["grids"].update(deep_grids())
        ctx.coverage_extra["rule_note"] = (
            "the tight-loop parts of the thorough tier (seg, rseg, xofgrid, pgrid, k12-every-cut, blake2 grid) "
            "record one shape per (algorithm and parameters, message length / parameter value, pieces, mode); the "
            "individual cut positions / output lengths / message lengths inside a shape are counted in "
            "cases_per_part and evaluations only, so distinct_nontrivial understates the number of distinct cases")
    ctx.assume("data values: zero / ones / ascending / SHAKE256(VERIF_SEED) only (DESIGN 2.4); all shapes in 'grids'")
    ctx.assume("message lengths beyond the stated grids are covered by one long message per Merkle-Damgard hash only "
               "(%s); larger length counters, in particular the 2^64-bit carry of SHA-384/512, are not reached"
               % ("2^24+1 bytes = 2^27+8 bits" if q else
                  "2^29+1 bytes = 2^32+8 bits, crossing the 32-bit word of the bit counter; BLAKE2s 2^32+65 bytes; "
                  "also SHA3-224..512 and BLAKE2b 2^29+1 bytes; plus the lengths 2^k-1, 2^k, 2^k+1 up to 1 MiB"))
    if not q:
        ctx.assume("segmented feeding: pieces are enumerated completely only up to the stated message lengths "
                   "(2, 3 and 4 pieces); digest() in mid-stream is not explored for HMAC over SHA-3 (HMAC.digest() "
                   "finalises the inner SHA-3 object, which then refuses update(); the property text does not "
                   "regulate this) nor for Poly1305 / KMAC / the XOFs (update() after digest()/read() is refused by "
                   "design); copy() only where the library offers it (MD2..SHA-512, SHA-3, SHAKE, HMAC, CMAC)")
    ctx.assume("CAST-128 and RC2: CMAC is checked relative to the library's own single-block encryption")
    ctx.assume("library-chosen random nonces of Poly1305.new(nonce=None) are not exercised")
    ctx.assume("parameter refusals documented by the library (KMAC key < 16/32 bytes, mac_len/digest < 8, "
               "CMAC mac_len outside 4..block, TurboSHAKE domain outside 01..7f) are logged, not judged")
    ctx.assume("verify(): the random 16-byte secret comes from the get_random_bytes seam of each MAC module")
    ctx.assume("cSHAKE function names other than '', 'KMAC', 'TupleHash' are reached through the private _new()")


def deep_guards(ctx, a, shapes):
    """vacuity guards of the thorough-only dimensions"""
    plan = seg_plan()
    for mode in SEG_MODES:
        want = len(set(p[0] for p in plan if p[4] == mode))
        got = len(a.distinct.get("seg-subjects/" + mode, ()))
        ctx.require(got == want and want > 0, "segmented feeding (%s) ran on %d subjects, planned %d" % (mode, got, want))
    segs = [s for s in shapes if s[0] == "seg"]
    for np_ in (2, 3, 4):
        ctx.require(any(s[3] == np_ for s in segs), "no %d-piece segmented feeding was executed" % np_)
    fams = set(s[1].split("/")[0].split("-")[0] for s in segs)
    for f in ("HMAC", "CMAC", "KMAC128", "KMAC256", "Poly1305", "BLAKE2b", "BLAKE2s", "SHAKE128", "cSHAKE256",
              "TurboSHAKE128", "K12", "SHA256", "keccak512", "MD2"):
        ctx.require(f in fams, "segmented feeding never ran on %s" % f)
    rs = [s for s in shapes if s[0] == "rseg" and isinstance(s[4], int)]
    ctx.require(any(s[4] == 2 for s in rs) and any(s[4] == 3 for s in rs), "segmented reading: 2 and 3 pieces expected")
    ctx.require(len(set(s[1] for s in rs)) == len(xof_subjects()), "segmented reading did not run on every XOF")
    ctx.require(len(set(s[1:3] for s in shapes if s[0] == "pgrid")) == 2 * len(PGRID) - 1
                and len([s for s in shapes if s[0] == "thgrid"]) == 2 * (338 + 274),
                "parameter x message grids did not run for every family")
    for part in ("seg", "rseg", "xofgrid", "pgrid"):
        ctx.require(len(a.distinct.get("out/" + part, ())) >= 100,
                    "part %s produced fewer than 100 distinct reference outputs" % part)
    have = set(s for s in shapes if s[0] in ("hash", "kmac", "tuplehash", "cshake", "k12", "hash-stream"))
    for want in (("hash", "keccak256", (1 << 20) + 1), ("hash", "MD2", (1 << 16) + 1), ("hash", "SHA512", (1 << 20) - 1),
                 ("kmac", 128, KMAC_ENCODE_HUGE[1], None, 0, 32), ("kmac", 256, 32, KMAC_ENCODE_HUGE[1], 0, 32),
                 ("kmac", 256, 32, None, 3, KMAC_ENCODE_HUGE[1]), ("kmac", 128, 8192, None, 0, 32),
                 ("tuplehash", 128, (KMAC_ENCODE_HUGE[1],), None, 32, False),
                 ("tuplehash", 256, (1,), None, KMAC_ENCODE_HUGE[1], False),
                 ("cshake", 256, 0, 32, CSHAKE_HUGE_CUSTOM[1], None),
                 ("k12", K12_MANY_CHUNKS[-1], None, (32,), ("data",)),
                 ("k12", 64 * 8192, None, (32,), ("chunks", 8192)),
                 ("hash-stream", "SHA3_512", (1 << 29) + 1)):
        ctx.require(want in have, "expected deep case %r was not executed" % (want,))
    ctx.require(any(s[0] == "k12" and s[4][0] == "cut2" for s in shapes), "K12 three-piece feeding not executed")
    ctx.require(len([s for s in shapes if s[0] == "k12-every-cut"]) >= len(K12_EVERY_CUT),
                "K12 every-cut sweeps incomplete")
    ctx.require(len(set(s[1:3] for s in shapes if s[0] == "poly-rs")) >= 35,
                "Poly1305 (r, s) limb patterns: fewer than expected")
    vm = {}
    for s in shapes:
        if s[0] == "verify":
            vm.setdefault(s[2], set()).add(s[3])
    typed = set(s[2] for s in shapes if s[0] == "verify" and s[4] == "verify-memoryview") \
        & set(s[2] for s in shapes if s[0] == "verify" and s[4] == "verify-bytearray")
    ctx.require(len(typed) >= 15 + 6 + 2 + 2 + 2, "verify(bytearray / memoryview) ran only on %d MACs" % len(typed))
    deep = sorted(k for k, v in vm.items() if "bitflip2" in v and "byte-substitution" in v)
    ctx.require(len(deep) >= 3 + 6 + 2 + 2 + 2, "extended verification alphabet ran only on %s" % deep)
    ctx.require(all("extended-next" in v for k, v in vm.items() if k.startswith("CMAC-")),
                "CMAC verification: the next-byte extension of a truncated tag was not offered for every cipher")


def seg_rows():
    """{family/pieces/mode: 'N rows, top message length min..max'} straight from the plan"""
    rows = {}
    for sd, kind, hi, npieces, mode, rc in seg_plan():
        k = "%s/%d pieces/%s" % (sd[0], npieces, mode)
        r = rows.setdefault(k, [0, hi, hi])
        r[0] += 1
        r[1] = min(r[1], hi)
        r[2] = max(r[2], hi)
    return {k: "%d rows (subject x value kind), top = %s"
            % (v[0], v[1] if v[1] == v[2] else "%d..%d (depends on block / rate)" % (v[1], v[2]))
            for k, v in sorted(rows.items())}


def deep_grids():
    """descriptions of the thorough-tier grids (replace the entries of the same name)"""
    return {
        "hash": "MD2 MD4 MD5 RIPEMD160 SHA1 SHA224/256/384/512 SHA512-224/256 SHA3-224..512 Keccak-224..512 "
                "BLAKE2b-512 BLAKE2s-256 (+aliases SHA, RIPEMD on 11 lengths): every message length 0..16*block+1 "
                "(sponges 0..8*rate+1) x zero/ones/ascending/seeded; lengths 2^k-1, 2^k, 2^k+1 for k = 11..20 (MD2: "
                "11..16), seeded value; one long message of 2^29+1 bytes (1 MiB pieces) for MD5 RIPEMD160 SHA1 SHA-2 "
                "(all six) SHA3-224..512 BLAKE2b, BLAKE2s 2^32+65 bytes; entry points new(data=), update, obj.new, "
                "second digest, hexdigest",
        "shake": "SHAKE128/256: message 0..8*rate+1 x 4 values, and 2^k-1..2^k+1 (k = 11..20); output 0..4*rate+1 "
                 "in two reads for 3 message lengths, 2^k-1..2^k+1 (k = 10..16); every split of a 2*rate+1 read",
        "cshake": "cSHAKE128/256: customisation lengths %s x every message length 0..4*rate+1 x 2 values; every "
                  "customisation length 0..3*rate+1 x message {0,1,rate-1,rate,rate+1}; customisation of %s bytes "
                  "(left_encode 3->4 bytes) x message {0,1,rate+1}; function-name lengths 0,1,4,9,31,32,33,255,256 "
                  "x 3 customisations and every function-name length 0..rate+8 via _new; output 0..2*rate+1"
                  % (custom_lengths(128), "/".join(map(str, CSHAKE_HUGE_CUSTOM))),
        "kmac": "KMAC128/256: quick grid (key {min-1(refused),min,min+1,rate-6..rate-4,rate-1,rate,rate+1,2*rate} x "
                "mac_len {default,7(refused),8,9,31,32,64,rate-1,rate,rate+1} x message {0,1,rate-1,rate,rate+1} x "
                "customisation {omitted,0,1,31,32,33,254..257,65536}) plus: every key length min..2*rate+2; every "
                "mac_len 8..2*rate+1; every message length 0..4*rate+1 x 4 values x 3 settings; key / customisation / "
                "mac_len of %s bytes (2->3 length bytes) and %s bytes (3->4 length bytes)"
                % ("/".join(map(str, KMAC_ENCODE_EDGES)), "/".join(map(str, KMAC_ENCODE_HUGE))),
        "tuplehash": "TupleHash128/256: 76 tuples of 0..3 items x 6 customisations x 7 digest lengths "
                     "(digest_bytes/digest_bits); plus all pairs over 14 boundary lengths, all 4-tuples over {0,1,32}, "
                     "4..2*rate/3+2 one-byte items, 4..rate+2 empty items (x 3 customisations x 3 digest lengths); "
                     "every digest length 8..2*rate+1, every customisation length 0..2*rate+1, every single-item "
                     "length 0..2*rate+1; item / customisation / digest of %s and %s bytes"
                     % ("/".join(map(str, KMAC_ENCODE_EDGES)), "/".join(map(str, KMAC_ENCODE_HUGE))),
        "turboshake": "TurboSHAKE128/256: message 0..8*rate+1 x domain {default,01,7f} x 4 values; every domain "
                      "01..7f x every message length 0..3*rate+1; message and output lengths 2^k-1..2^k+1 "
                      "(k = 11..18); output 0..4*rate+1 in two reads; every split of a 2*rate+1 read",
        "k12": "KangarooTwelve: message lengths 0..3, 8180..8204, 16376..16392, 24570..24584, 32768, 32769, 40961, "
               "65536, 65537 (and |S| = 8191..8193, 16383..16385) x 17 customisation lengths (omitted, 0, 1, 2, "
               "255..257, 8189..8193, 16383..16385, 24576, 65536; 8187, 8188 with the empty message) x 2 values x "
               "feeding patterns (data=, none, update, "
               "cuts at 1/8191/8192/8193/len-1, 8192- and 1000-byte pieces); every message length 0..%d x "
               "customisation %s; every chunk count %d..%d with |S| = j*8192-1..j*8192+1 for customisation %s; "
               "|S| = 2^21-1..2^21+2 (256 / 257 chunks, length_encode 1->2 bytes); equal pieces of %s bytes on 5 "
               "messages; three pieces with both cuts in {0,1,8191..8193,16383..16385,len-1,len} and anywhere in "
               "8185..8199 / 16377..16391 (2 messages); every two-piece split of %d whole messages (lengths %s); "
               "output 0..337"
               % (4 * 168 + 2, list(K12_SMALL_CUSTOMS), K12_CHUNK_COUNTS[0], K12_CHUNK_COUNTS[-1],
                  list(K12_CHUNK_CUSTOMS), "/".join(map(str, K12_PIECE_SIZES)), len(K12_EVERY_CUT),
                  ",".join("%d+C%s" % (m, c) for m, c in K12_EVERY_CUT)),
        "hmac": "HMAC over %d hash variants: every key length 0..3*block+1 and 4*block, 4*block+1, 1024, 65536 x "
                "every message length 0..3*block+1 (seeded values); zero/ones/ascending keys x all those key lengths "
                "x 10 boundary message lengths (the two alias modules: 3 key x 2 message lengths)" % len(HMAC_HASHES),
        "cmac": "CMAC over AES/3DES/DES/Blowfish (reference ciphers) and CAST/RC2 (library ECB as primitive), key "
                "lengths AES 16/24/32, 3DES 16/24, Blowfish 4..56 all, CAST 5..16 all, RC2 5..17,64,127,128; key "
                "values zero/ones/ascending/seeded (3DES: ascending/seeded): message 0..12*block+1 x mac_len "
                "4..block and x 4 message values; every two-piece split up to 3*block+1",
        "poly1305": "Poly1305_MAC(r,s) seam: 21 r limb patterns (5 + all 16 zero/max combinations of the four "
                    "32-bit limbs) x 5 s patterns x message 0..257 x 4 values; 5 r x 3 s x message 258..%d x 2 values; "
                    "Poly1305-AES: %d (key, nonce) variants (4 + 16 r limb patterns x s ones/zero/seeded), "
                    "Poly1305-ChaCha20: %d variants (4 + 4 key values x nonce 8/12 bytes x 3 nonce values): message "
                    "0..257 for the first four, 0..129 for the others"
                    % (POLY_LONG_TOP, POLY_AES_VARIANTS, POLY_CC_VARIANTS),
        "blake2": "BLAKE2b: digest_bytes 1..64 x key length 0..64 x message 0..641; BLAKE2s: 1..32 x 0..32 x 0..321; "
                  "both once with seeded values through new(digest_bytes=, data=) and once with ascending values "
                  "through new(digest_bits=).update(); all entry points (update/hexdigest/obj.new/digest_bits) for "
                  "every digest size x every key length x 6 message lengths",
        "verify": "every MAC: authentic, all truncations, +00/+ff/+next-byte extensions, other-message tag, every "
                  "single-bit flip; verify(bytes), hexverify(str) and (all shapes listed next) verify(bytearray), "
                  "verify(memoryview slice); HMAC: 8 key lengths x 6 message lengths per hash; CMAC: "
                  "every key x 6 message lengths x every mac_len 4..block and default; KMAC: 3 keys x 2 customisations "
                  "x 4 messages x mac_len 8/9/16/32/64; Poly1305: every third (key, nonce) variant x 7 message "
                  "lengths; BLAKE2: every digest size x 3 key lengths x 2 messages; extended alphabet (additionally "
                  "every two-bit flip and every substitution of one byte by each other value) on 8-/16-byte tags of "
                  "HMAC-MD2/MD4/MD5, CMAC with each cipher (mac_len 4 and default), KMAC128/256 (8, 16), "
                  "Poly1305-AES/-ChaCha20, BLAKE2b/s (1, 2, 8, 16)",
        "segmented-update": "seg: every way to cut every message length 0..top into 2, 3 or 4 consecutive pieces "
                            "(empty pieces included), each piece given to update(); reference computed once per "
                            "message.  Modes: bytes; views = pieces alternately bytearray / memoryview slice; "
                            "viewparams = additionally key / nonce / customisation passed as memoryview slice or "
                            "bytearray (HMAC, CMAC, KMAC, Poly1305, keyed BLAKE2b); data+update = first piece through "
                            "new(data=) / new(msg=); viewdata+update = the same with a memoryview first piece and "
                            "bytearray later pieces; copy = copy() after the first piece, both objects finished; uad = "
                            "digest() after every piece, each compared with the reference of the prefix (SHA-3 / "
                            "Keccak / BLAKE2 / CMAC built with update_after_digest=True).  Subjects: 21 hashes; HMAC "
                            "over 15 hashes x key length {0,1,block-1,block,block+1,2*block+1}; CMAC x %d (cipher, key "
                            "length) pairs (+ every truncated mac_len for one key per cipher); KMAC128/256 x key "
                            "{min,rate+1} x customisation {0,1} (+ mac_len 8, 64, rate+1); Poly1305 4 (r,s) patterns "
                            "and 4 cipher variants; BLAKE2b/s x digest {1,max} x key {0,1,max} (+ digest 16, 20, "
                            "max/2, max-1 x key {0,max}); SHAKE, cSHAKE (customisation 1, rate-7), TurboSHAKE (domain "
                            "1f,01,7f), K12 (customisation none, 1), 32-byte output (+ outputs of 1, rate, rate+1 "
                            "bytes).  Four pieces: %s, SHAKE128, CMAC.  The exact "
                            "rows are in 'segmented-update-rows'"
                            % (sum(len(v) for v in SEG_CMAC_KEYS.values()), " ".join(SEG_FOUR_PIECES)),
        "segmented-update-rows": seg_rows(),
        "segmented-read": "rseg: SHAKE128/256, cSHAKE128/256, TurboSHAKE128/256, K12 (without / with customisation): "
                          "every split into 2 reads of every output length 0..3*rate+1 for messages of 0, 1, rate-1, "
                          "rate+1 bytes; every split into 3 reads of every output length 0..rate+1 (SHAKE128, SHAKE256, "
                          "K12 without customisation: 0..2*rate+1); cSHAKE / K12 output lengths 2^k-1..2^k+1 "
                          "(k = 10..16) at once and in two halves",
        "xof-grid": "xofgrid: full product message length x output length through new(data=m).read(n): SHAKE "
                    "0..3*rate+1 x 0..3*rate+1; cSHAKE (customisation 1, 33, 300 bytes) and TurboSHAKE (domains 1f 01 "
                    "06 07 0b 7f) 0..2*rate+1 x 0..2*rate+1; K12 (customisation none, 1, 300) 0..337 x 0..337",
        "parameter-grid": "pgrid: full products with every message length: cSHAKE customisation length 0..3*rate+1 x "
                          "message 0..3*rate+1; KMAC key length min..2*rate+2 x message 0..2*rate+1; KMAC "
                          "customisation length 0..2*rate+1 x message 0..2*rate+1; KMAC mac_len 8..2*rate+1 x message "
                          "0..2*rate+1; K12 customisation length 0..337 x message 0..337; TupleHash128/256 of (a, b): "
                          "length of a 0..2*rate+1 x length of b 0..2*rate+1, once as update(a, b) with bytes and once "
                          "as update(bytearray a).update(memoryview b)",
    }


# ===========================================================================
def replay(case, acc):
    install_seam()
    p = case["part"]
    if p == "hash":
        check_hash(acc, case["algo"], case["msg"])
    elif p == "hash-stream":
        check_hash_stream(acc, case["algo"], case["total"])
    elif p == "hash-one":
        check_hash_oneshot(acc, case["algo"], case["total"])
    elif p == "shake":
        check_shake(acc, case["bits"], case["msg"], tuple(case["reads"]))
    elif p == "cshake":
        check_cshake(acc, case["bits"], case["msg"], case["outlen"], case["custom"], case["fn"])
    elif p == "kmac":
        check_kmac(acc, case["bits"], case["key"], case["custom"], case["msg"], case["mac_len"], case["verify"])
    elif p == "tuplehash":
        check_tuplehash(acc, case["bits"], case["items"], case["custom"], case["dbytes"], case["use_bits"])
    elif p == "turbo":
        check_turbo(acc, case["bits"], case["msg"], tuple(case["reads"]), case["domain"])
    elif p == "k12":
        check_k12(acc, case["msg"], case["custom"], tuple(case["reads"]), case["feed"])
    elif p == "hmac":
        check_hmac(acc, case["hash"], case["key"], case["msg"], case["verify"])
    elif p == "cmac":
        check_cmac(acc, case["cipher"], case["key"], case["msg"], case["mac_len"], case["cut"], case["verify"])
    elif p == "poly-rs":
        check_poly_rs(acc, case["r"], case["s"], case["msg"])
    elif p == "poly":
        check_poly(acc, case["cipher"], case["key"], case["nonce"], case["msg"], case["verify"])
    elif p == "blake2":
        check_blake2(acc, case["variant"], case["dbytes"], case["key"], case["msg"], case["use_bits"],
                     case["verify"])
    elif p == "seg":
        check_seg(acc, case["spec"], case["msg"], tuple(case["cuts"]), case["mode"])
    elif p == "one":
        check_one(acc, case["spec"], case["msg"])
    elif p == "rseg":
        check_rseg(acc, case["spec"], case["msg"], tuple(case["reads"]), case["entry"])
    else:
        acc.error("unknown replay part %r" % p)
