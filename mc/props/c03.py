"""C03 - hashes, XOFs and MACs equal their standards; MAC verification accepts only the true tag.

ShapeExplorer: complete enumeration of stated finite grids of input *shapes* (message / key /
customisation / output lengths, digest sizes, feeding patterns) times the value alphabet of
DESIGN 2.4, run against the real library; every case is compared with an independent reference
(hashlib / hmac from CPython, pure-Python models in mc.ref).  Every MAC tag is then mutated with
the complete received-tag alphabet (all single-bit flips, all truncations, one-byte extensions,
the tag of another message) and offered to verify()/hexverify().
"""
import hashlib

from ..common import Acc, chunks, exc_site, short, seeded, asc
from . import _c03_ref as R

LEVEL = "exploration"
RULE = ("complete enumeration of length/parameter grids per algorithm (see 'grids'); a case is one "
        "library computation compared with the reference; cases are distinct by (part, algorithm, "
        "enumerated shape parameters); distinct_nontrivial = number of distinct such shape tuples "
        "actually executed plus distinct (MAC, candidate class, entry point, outcome) verification classes")
BUDGET = {"quick": 200, "thorough": 1700}

K = R.K

# ---------------------------------------------------------------------------
# value alphabet
# ---------------------------------------------------------------------------
_BUF = {}
KINDS = ("zero", "ones", "asc", "seeded")


def val(kind, n, label="v"):
    """kind: 0 zero, 1 ones, 2 ascending, 3 SHAKE256(seed|label) (prefix-consistent in n)"""
    if kind == 0:
        return bytes(n)
    if kind == 1:
        return b"\xff" * n
    if kind == 2:
        return asc(n)
    b = _BUF.get(label)
    if b is None or len(b) < n:
        b = _BUF[label] = seeded("c03/" + label, max(n, 2048))
    return b[:n]


# ---------------------------------------------------------------------------
# seam: the random secret used by verify() (module attribute get_random_bytes)
# ---------------------------------------------------------------------------
SEAM = {"n": 0, "installed": False}


def _fake_rng(n):
    SEAM["n"] += 1
    return seeded("c03/verify-secret/%d" % SEAM["n"], n)


def install_seam():
    if SEAM["installed"]:
        return
    import importlib
    for name in ("HMAC", "CMAC", "Poly1305", "KMAC128", "BLAKE2b", "BLAKE2s"):
        m = importlib.import_module("Crypto.Hash." + name)
        if not hasattr(m, "get_random_bytes"):
            raise RuntimeError("harness cannot reach seam Crypto.Hash.%s.get_random_bytes" % name)
        m.get_random_bytes = _fake_rng
    SEAM["installed"] = True


# ---------------------------------------------------------------------------
# library side
# ---------------------------------------------------------------------------
class _H(object):
    """How to build one fixed-output hash of the library."""

    def __init__(self, mod, kw=None, positional=True, digestmod=None):
        self.mod = mod
        self.kw = kw or {}
        self.positional = positional
        self.digestmod = digestmod

    def new_kw(self, data):
        return self.mod.new(data=data, **self.kw)

    def new_empty(self):
        return self.mod.new(**self.kw)

    def objnew(self, h, data):
        # .new() on an existing object: a fresh object of the same algorithm/parameters
        if self.positional:
            return h.new(data)
        return h.new(data=data)


_LIB = None


def lib():
    global _LIB
    if _LIB is not None:
        return _LIB
    import importlib
    M = lambda n: importlib.import_module("Crypto.Hash." + n)
    hs = {}
    for n in ("MD2", "MD4", "MD5", "RIPEMD160", "SHA1", "SHA224", "SHA256", "SHA384", "SHA512",
              "SHA3_224", "SHA3_256", "SHA3_384", "SHA3_512"):
        hs[n] = _H(M(n), digestmod=M(n))
    hs["SHA(alias)"] = _H(M("SHA"), digestmod=M("SHA"))
    hs["RIPEMD(alias)"] = _H(M("RIPEMD"), digestmod=M("RIPEMD"))
    s512 = M("SHA512")
    hs["SHA512_224"] = _H(s512, {"truncate": "224"}, digestmod=s512.new(truncate="224"))
    hs["SHA512_256"] = _H(s512, {"truncate": "256"}, digestmod=s512.new(truncate="256"))
    for b in (224, 256, 384, 512):
        hs["keccak%d" % b] = _H(M("keccak"), {"digest_bits": b}, positional=False)
    hs["BLAKE2b"] = _H(M("BLAKE2b"), positional=False)
    hs["BLAKE2s"] = _H(M("BLAKE2s"), positional=False)
    C = lambda n: importlib.import_module("Crypto.Cipher." + n)
    _LIB = {
        "hash": hs,
        "SHAKE": {128: M("SHAKE128"), 256: M("SHAKE256")},
        "cSHAKE": {128: M("cSHAKE128"), 256: M("cSHAKE256")},
        "KMAC": {128: M("KMAC128"), 256: M("KMAC256")},
        "TupleHash": {128: M("TupleHash128"), 256: M("TupleHash256")},
        "TurboSHAKE": {128: M("TurboSHAKE128"), 256: M("TurboSHAKE256")},
        "K12": M("KangarooTwelve"),
        "HMAC": M("HMAC"), "CMAC": M("CMAC"), "Poly1305": M("Poly1305"),
        "BLAKE2": {"b": M("BLAKE2b"), "s": M("BLAKE2s")},
        "cipher": {n: C(n) for n in ("AES", "DES3", "DES", "Blowfish", "CAST", "ARC2", "ChaCha20")},
    }
    return _LIB


HMAC_HASHES = ("MD2", "MD4", "MD5", "RIPEMD160", "SHA1", "SHA224", "SHA256", "SHA384", "SHA512",
               "SHA512_224", "SHA512_256", "SHA3_224", "SHA3_256", "SHA3_384", "SHA3_512",
               "SHA(alias)", "RIPEMD(alias)")


def _raised(acc, fam, algo, e, what, case):
    acc.violation("C03/%s/%s/raises-%s@%s" % (fam, algo, type(e).__name__, exc_site(e)),
                  "%s raised %s: %s" % (what, type(e).__name__, e), case)


def _split(n):
    return (n // 2, n - n // 2)


# ---------------------------------------------------------------------------
# MAC verification alphabet
# ---------------------------------------------------------------------------
def run_verify(acc, fam, algo, mk, tag, longer, other, what, case):
    """mk() -> fresh MAC object holding the message; tag = reference tag (== library tag)."""
    obj = mk()
    for cls, cand in R.tag_candidates(tag, longer, other):
        good = cand == tag
        for mode in ("verify", "hexverify"):
            acc.count("evaluations")
            try:
                if mode == "verify":
                    obj.verify(cand)
                else:
                    obj.hexverify(cand.hex())
                res = "accept"
            except ValueError:
                res = "reject"
            except Exception as e:  # noqa
                res = "raises-" + type(e).__name__
            acc.seen("shapes", ("verify", fam, algo, cls, mode, res))
            acc.count("verify_" + (res if res in ("accept", "reject") else "other"))
            key = None
            if res == "accept" and not good:
                key = "accepts-" + cls
            elif res == "reject" and good:
                key = "rejects-authentic"
            elif res not in ("accept", "reject"):
                key = "%s-on-%s" % (res, "authentic" if good else "forged")
            if key:
                acc.violation("C03/%s/%s/%s/%s" % (fam, algo, mode, key),
                              "%s: %s(%s candidate %s) -> %s; the true tag is %s"
                              % (what, mode, cls, short(cand), res, short(tag)), case)


# ---------------------------------------------------------------------------
# part: fixed-output hashes
# ---------------------------------------------------------------------------
def check_hash(acc, algo, msg):
    L = lib()["hash"][algo]
    exp = R.hash_ref(algo, msg)
    acc.count("evaluations", 4)
    acc.count("hash_cases")
    acc.seen("shapes", ("hash", algo, len(msg)))
    acc.seen("out/hash", exp[:6])
    case = {"part": "hash", "algo": algo, "msg": msg}
    what = "%s of %d-byte message %s" % (algo, len(msg), short(msg, 24))
    try:
        h1 = L.new_kw(msg)
        d1 = h1.digest()
        d1b = h1.digest()
        hx = h1.hexdigest()
        ds = h1.digest_size
        h2 = L.new_empty()
        h2.update(msg)
        d2 = h2.digest()
        d3 = L.objnew(h2, msg).digest()
    except Exception as e:  # noqa
        return _raised(acc, "hash", algo, e, what, case)
    k = "C03/hash/%s/" % algo
    if d1 != exp:
        return acc.violation(k + "value", "%s: new(data=m).digest() = %s, standard says %s"
                             % (what, d1.hex(), exp.hex()), case)
    if d2 != exp:
        acc.violation(k + "update-vs-data", "%s: new().update(m).digest() = %s, standard says %s"
                      % (what, d2.hex(), exp.hex()), case)
    if d1b != exp:
        acc.violation(k + "second-digest", "%s: second digest() call = %s, first (correct) = %s"
                      % (what, d1b.hex(), exp.hex()), case)
    if hx != exp.hex():
        acc.violation(k + "hexdigest", "%s: hexdigest() = %r, standard says %s" % (what, hx, exp.hex()), case)
    if d3 != exp:
        acc.violation(k + "obj.new", "%s: obj.new(m).digest() = %s, standard says %s"
                      % (what, d3.hex(), exp.hex()), case)
    if ds != len(exp):
        acc.violation(k + "digest_size", "%s: digest_size = %r, standard length %d" % (what, ds, len(exp)), case)


_PATTERN = None


def check_hash_stream(acc, algo, total):
    """A long message fed in 1 MiB pieces (bit counters above 2^24 / 2^32), reference fed the same way."""
    global _PATTERN
    if _PATTERN is None:
        _PATTERN = asc(251) * 4178           # 1 048 678 bytes, period 251 (co-prime to block sizes)
    L = lib()["hash"][algo]
    hl = R.HASH_REF[algo][3]
    ref = hashlib.new(hl)
    acc.count("evaluations")
    acc.count("hash_stream_cases")
    acc.seen("shapes", ("hash-stream", algo, total))
    case = {"part": "hash-stream", "algo": algo, "total": total}
    what = "%s of %d bytes (pattern 00..fa repeated, fed in pieces of %d)" % (algo, total, len(_PATTERN))
    try:
        h = L.new_empty()
        left = total
        while left > 0:
            piece = _PATTERN if left >= len(_PATTERN) else _PATTERN[:left]
            h.update(piece)
            ref.update(piece)
            left -= len(piece)
        d = h.digest()
    except Exception as e:  # noqa
        return _raised(acc, "hash", algo, e, what, case)
    exp = ref.digest()
    if d != exp:
        acc.violation("C03/hash/%s/value-long-message" % algo,
                      "%s: digest %s, standard says %s" % (what, d.hex(), exp.hex()), case)


# ---------------------------------------------------------------------------
# part: SHAKE128/256 (reference: hashlib)
# ---------------------------------------------------------------------------
def check_shake(acc, bits, msg, reads):
    mod = lib()["SHAKE"][bits]
    algo = "SHAKE%d" % bits
    outlen = sum(reads)
    exp = (hashlib.shake_128 if bits == 128 else hashlib.shake_256)(msg).digest(outlen)
    acc.count("evaluations", 3)
    acc.count("shake_cases")
    acc.seen("shapes", ("shake", bits, len(msg), tuple(reads)))
    acc.seen("out/shake", exp[:6])
    case = {"part": "shake", "bits": bits, "msg": msg, "reads": list(reads)}
    what = "%s of %d-byte message %s, output %d bytes" % (algo, len(msg), short(msg, 24), outlen)
    try:
        x1 = mod.new(data=msg).read(outlen)
        h2 = mod.new()
        h2.update(msg)
        x2 = b"".join(h2.read(r) for r in reads)
        x3 = h2.new(data=msg).read(outlen)
    except Exception as e:  # noqa
        return _raised(acc, "xof", algo, e, what, case)
    k = "C03/xof/%s/" % algo
    if x1 != exp:
        return acc.violation(k + "value", "%s: new(data=m).read(n) = %s, standard says %s"
                             % (what, short(x1), short(exp)), case)
    if x2 != exp:
        acc.violation(k + "update-or-split-read", "%s: update(m) then read%s = %s, standard says %s"
                      % (what, tuple(reads), short(x2), short(exp)), case)
    if x3 != exp:
        acc.violation(k + "obj.new", "%s: obj.new(data=m).read(n) = %s, standard says %s"
                      % (what, short(x3), short(exp)), case)


# ---------------------------------------------------------------------------
# part: cSHAKE128/256  (fn=None: public new(data, custom); fn=bytes: the _new(data, custom, function)
# entry point that KMAC and TupleHash are built on)
# ---------------------------------------------------------------------------
def check_cshake(acc, bits, msg, outlen, custom, fn=None):
    mod = lib()["cSHAKE"][bits]
    algo = "cSHAKE%d" % bits
    exp = R.cshake_ref(bits, msg, outlen, fn or b"", custom or b"")
    acc.count("evaluations", 2)
    acc.count("cshake_cases")
    acc.seen("shapes", ("cshake", bits, len(msg), outlen, None if custom is None else len(custom),
                        None if fn is None else len(fn)))
    acc.seen("out/cshake", exp[:6])
    case = {"part": "cshake", "bits": bits, "msg": msg, "outlen": outlen, "custom": custom, "fn": fn}
    what = "%s, %d-byte message, customisation %s, %soutput %d bytes" % (
        algo, len(msg), "omitted" if custom is None else "%d bytes" % len(custom),
        "" if fn is None else "function name %d bytes, " % len(fn), outlen)
    try:
        if fn is None:
            x1 = (mod.new(data=msg) if custom is None else mod.new(data=msg, custom=custom)).read(outlen)
            h2 = mod.new() if custom is None else mod.new(custom=custom)
        else:
            x1 = mod._new(msg, custom, fn).read(outlen)
            h2 = mod._new(None, custom, fn)
        h2.update(msg)
        a, b = _split(outlen)
        x2 = h2.read(a) + h2.read(b)
    except Exception as e:  # noqa
        return _raised(acc, "xof", algo, e, what, case)
    k = "C03/xof/%s/%s" % (algo, "" if fn is None else "function-name/")
    if x1 != exp:
        return acc.violation(k + "value", "%s: read(n) = %s, SP 800-185 says %s"
                             % (what, short(x1), short(exp)), case)
    if x2 != exp:
        acc.violation(k + "update-or-split-read", "%s: update(m), read(%d)+read(%d) = %s, SP 800-185 says %s"
                      % (what, a, b, short(x2), short(exp)), case)


# ---------------------------------------------------------------------------
# part: KMAC128/256
# ---------------------------------------------------------------------------
KMAC_MINKEY = {128: 16, 256: 32}


def check_kmac(acc, bits, key, custom, msg, mac_len, do_verify=False):
    """custom=None / mac_len=None: parameter omitted (documented defaults b'' / 64)."""
    mod = lib()["KMAC"][bits]
    algo = "KMAC%d" % bits
    outlen = 64 if mac_len is None else mac_len
    acc.count("kmac_cases")
    acc.seen("shapes", ("kmac", bits, len(key), None if custom is None else len(custom), len(msg), mac_len))
    case = {"part": "kmac", "bits": bits, "key": key, "custom": custom, "msg": msg, "mac_len": mac_len,
            "verify": do_verify}
    what = "%s key %d bytes, customisation %s, message %d bytes, mac_len %s" % (
        algo, len(key), "omitted" if custom is None else "%d bytes" % len(custom), len(msg), mac_len)
    kw = {}
    if custom is not None:
        kw["custom"] = custom
    kw2 = dict(kw)
    if mac_len is not None:
        kw["mac_len"] = mac_len
    try:
        h1 = mod.new(key=key, data=msg, **kw)
    except ValueError as e:
        if len(key) < KMAC_MINKEY[bits] or outlen < 8:
            acc.count("refused_by_policy")
            acc.observe("%s refuses %s (documented library limit; SP 800-185 defines a value)"
                        % (algo, "keys shorter than %d bytes" % KMAC_MINKEY[bits]
                           if len(key) < KMAC_MINKEY[bits] else "mac_len < 8"))
            return
        return _raised(acc, "mac", algo, e, what, case)
    except Exception as e:  # noqa
        return _raised(acc, "mac", algo, e, what, case)
    exp = R.kmac_ref(bits, key, msg, outlen, custom or b"")
    acc.count("evaluations", 3)
    acc.seen("out/kmac", exp[:6])
    try:
        d1 = h1.digest()
        hx = h1.hexdigest()
        ds = h1.digest_size
        h2 = mod.new(key=key, **kw)
        h2.update(msg)
        d2 = h2.digest()
        d3 = h1.new(key=key, data=msg, **kw2).digest()      # mac_len inherited from h1
    except Exception as e:  # noqa
        return _raised(acc, "mac", algo, e, what, case)
    k = "C03/mac/%s/" % algo
    if d1 != exp:
        return acc.violation(k + "value", "%s: digest() = %s, SP 800-185 says %s"
                             % (what, short(d1), short(exp)), case)
    if d2 != exp:
        acc.violation(k + "update-vs-data", "%s: update(m) path = %s, SP 800-185 says %s"
                      % (what, short(d2), short(exp)), case)
    if hx != exp.hex():
        acc.violation(k + "hexdigest", "%s: hexdigest() = %r, expected %s" % (what, hx, exp.hex()), case)
    if ds != len(exp):
        acc.violation(k + "digest_size", "%s: digest_size = %r" % (what, ds), case)
    if d3 != exp:
        if bits == 256 and d3 == R.kmac_ref(128, key, msg, outlen, custom or b""):
            acc.violation("C03/mac/KMAC256/obj.new-yields-KMAC128",
                          "%s: h = KMAC256.new(...); h.new(key=k, data=m).digest() = %s which is KMAC128(k, m), "
                          "KMAC256 is %s" % (what, short(d3), short(exp)), case, script=_SCRIPT_KMAC256)
        else:
            acc.violation(k + "obj.new", "%s: obj.new(key=k, data=m).digest() = %s, SP 800-185 says %s"
                          % (what, short(d3), short(exp)), case)
    if do_verify:
        other = R.kmac_ref(bits, key, msg + b"x", outlen, custom or b"")
        run_verify(acc, "mac", algo, lambda: mod.new(key=key, data=msg, **kw), exp, None, other, what, case)


_SCRIPT_KMAC256 = """from Crypto.Hash import KMAC128, KMAC256
k = bytes(range(32)); m = b"abc"
h = KMAC256.new(key=k, mac_len=32)
t = h.new(key=k, data=m).digest()
print("obj.new() of a KMAC256 object gives", t.hex())
print("KMAC256:", KMAC256.new(key=k, data=m, mac_len=32).hexdigest())
print("KMAC128:", KMAC128.new(key=k, data=m, mac_len=32).hexdigest())
assert t == KMAC256.new(key=k, data=m, mac_len=32).digest(), "fresh object is not a KMAC256"
"""


# ---------------------------------------------------------------------------
# part: TupleHash128/256
# ---------------------------------------------------------------------------
def check_tuplehash(acc, bits, items, custom, dbytes, use_bits=False):
    """custom=None / dbytes=None: parameter omitted (defaults b'' / 64)."""
    mod = lib()["TupleHash"][bits]
    algo = "TupleHash%d" % bits
    items = [bytes(i) for i in items]
    outlen = 64 if dbytes is None else dbytes
    acc.count("tuplehash_cases")
    acc.seen("shapes", ("tuplehash", bits, tuple(len(i) for i in items),
                        None if custom is None else len(custom), dbytes, use_bits))
    case = {"part": "tuplehash", "bits": bits, "items": items, "custom": custom, "dbytes": dbytes,
            "use_bits": use_bits}
    what = "%s of tuple with item lengths %s, customisation %s, digest %s bytes" % (
        algo, [len(i) for i in items], "omitted" if custom is None else "%d bytes" % len(custom), dbytes)
    kw = {}
    if custom is not None:
        kw["custom"] = custom
    kw2 = dict(kw)
    if dbytes is not None:
        if use_bits:
            kw["digest_bits"] = dbytes * 8
        else:
            kw["digest_bytes"] = dbytes
    try:
        h1 = mod.new(**kw)
    except ValueError as e:
        if outlen < 8:
            acc.count("refused_by_policy")
            acc.observe("%s refuses digests shorter than 8 bytes (documented library limit)" % algo)
            return
        return _raised(acc, "xof", algo, e, what, case)
    except Exception as e:  # noqa
        return _raised(acc, "xof", algo, e, what, case)
    exp = R.tuplehash_ref(bits, items, outlen, custom or b"")
    acc.count("evaluations", 3)
    acc.seen("out/tuplehash", exp[:6])
    try:
        h1.update(*items)
        d1 = h1.digest()
        hx = h1.hexdigest()
        ds = h1.digest_size
        h2 = mod.new(**kw)
        for it in items:
            h2.update(it)
        d2 = h2.digest()
        h3 = h1.new(**kw2)
        h3.update(*items)
        d3 = h3.digest()
    except Exception as e:  # noqa
        return _raised(acc, "xof", algo, e, what, case)
    k = "C03/xof/%s/" % algo
    if d1 != exp:
        return acc.violation(k + "value", "%s: digest() = %s, SP 800-185 says %s"
                             % (what, short(d1), short(exp)), case)
    if d2 != exp:
        acc.violation(k + "one-item-per-update", "%s: update(a).update(b).. = %s, SP 800-185 says %s"
                      % (what, short(d2), short(exp)), case)
    if hx != exp.hex():
        acc.violation(k + "hexdigest", "%s: hexdigest() = %r, expected %s" % (what, hx, exp.hex()), case)
    if ds != len(exp):
        acc.violation(k + "digest_size", "%s: digest_size = %r" % (what, ds), case)
    if d3 != exp:
        if bits == 256 and d3 == R.tuplehash_ref(128, items, outlen, custom or b""):
            acc.violation("C03/xof/TupleHash256/obj.new-yields-TupleHash128",
                          "%s: h = TupleHash256.new(...); h.new().update(*t).digest() = %s which is "
                          "TupleHash128(t), TupleHash256 is %s" % (what, short(d3), short(exp)), case,
                          script=_SCRIPT_TH256)
        else:
            acc.violation(k + "obj.new", "%s: obj.new().update(*t).digest() = %s, SP 800-185 says %s"
                          % (what, short(d3), short(exp)), case)


_SCRIPT_TH256 = """from Crypto.Hash import TupleHash128, TupleHash256
h = TupleHash256.new(digest_bytes=32)
t = h.new().update(b"abc").digest()
print("obj.new() of a TupleHash256 object gives", t.hex())
print("TupleHash256:", TupleHash256.new(digest_bytes=32).update(b"abc").hexdigest())
print("TupleHash128:", TupleHash128.new(digest_bytes=32).update(b"abc").hexdigest())
assert t == TupleHash256.new(digest_bytes=32).update(b"abc").digest(), "fresh object is not a TupleHash256"
"""


# ---------------------------------------------------------------------------
# part: TurboSHAKE128/256
# ---------------------------------------------------------------------------
def check_turbo(acc, bits, msg, reads, domain):
    """domain=None: parameter omitted (default 0x1F)."""
    mod = lib()["TurboSHAKE"][bits]
    algo = "TurboSHAKE%d" % bits
    outlen = sum(reads)
    acc.count("turbo_cases")
    acc.seen("shapes", ("turbo", bits, len(msg), tuple(reads), domain))
    case = {"part": "turbo", "bits": bits, "msg": msg, "reads": list(reads), "domain": domain}
    what = "%s, %d-byte message, domain byte %s, output %d bytes" % (
        algo, len(msg), "omitted" if domain is None else "0x%02x" % domain, outlen)
    kw = {} if domain is None else {"domain": domain}
    d = 0x1F if domain is None else domain
    try:
        h1 = mod.new(data=msg, **kw)
    except ValueError as e:
        if not 1 <= d <= 0x7F:
            acc.count("refused_by_policy")
            acc.observe("%s refuses a domain byte outside 0x01..0x7F (RFC 9861 range)" % algo)
            return
        return _raised(acc, "xof", algo, e, what, case)
    except Exception as e:  # noqa
        return _raised(acc, "xof", algo, e, what, case)
    if not 1 <= d <= 0x7F:
        acc.observe("%s accepts a domain byte outside 0x01..0x7F (no standard value to compare with)" % algo)
        return
    exp = K.turboshake(bits, msg, outlen, d)
    acc.count("evaluations", 3)
    acc.seen("out/turbo", exp[:6])
    try:
        x1 = h1.read(outlen)
        h2 = mod.new(**kw)
        h2.update(msg)
        x2 = b"".join(h2.read(r) for r in reads)
        x3 = h2.new(data=msg).read(outlen)             # domain inherited
    except Exception as e:  # noqa
        return _raised(acc, "xof", algo, e, what, case)
    k = "C03/xof/%s/" % algo
    if x1 != exp:
        return acc.violation(k + "value", "%s: read(n) = %s, RFC 9861 says %s" % (what, short(x1), short(exp)), case)
    if x2 != exp:
        acc.violation(k + "update-or-split-read", "%s: update(m) then read%s = %s, RFC 9861 says %s"
                      % (what, tuple(reads), short(x2), short(exp)), case)
    if x3 != exp:
        acc.violation(k + "obj.new", "%s: obj.new(data=m).read(n) = %s, RFC 9861 says %s"
                      % (what, short(x3), short(exp)), case)


# ---------------------------------------------------------------------------
# part: KangarooTwelve (KT128)
# ---------------------------------------------------------------------------
def check_k12(acc, msg, custom, reads, feed):
    """feed: ['data'] new(data=m) | ['none'] no update call at all (empty message only) |
    ['update'] one update(m) | ['cut', c] update(m[:c]), update(m[c:]) | ['chunks', n] pieces of n bytes.
    custom=None: parameter omitted."""
    mod = lib()["K12"]
    feed = list(feed)
    outlen = sum(reads)
    cu = custom or b""
    exp = R.k12_ref(bytes(msg), bytes(cu))[:outlen]
    acc.count("evaluations")
    acc.count("k12_cases")
    acc.seen("shapes", ("k12", len(msg), None if custom is None else len(custom), tuple(reads), tuple(feed)))
    acc.seen("out/k12", exp[:6])
    case = {"part": "k12", "msg": msg, "custom": custom, "reads": list(reads), "feed": feed}
    what = "KangarooTwelve, %d-byte message, customisation %s, fed by %s, output %d bytes" % (
        len(msg), "omitted" if custom is None else "%d bytes" % len(custom), feed, outlen)
    kw = {} if custom is None else {"custom": custom}
    try:
        if feed[0] == "data":
            h = mod.new(data=msg, **kw)
        else:
            h = mod.new(**kw)
            if feed[0] == "none":
                assert len(msg) == 0
            elif feed[0] == "update":
                h.update(msg)
            elif feed[0] == "cut":
                h.update(msg[:feed[1]])
                h.update(msg[feed[1]:])
            elif feed[0] == "chunks":
                for i in range(0, len(msg), feed[1]):
                    h.update(msg[i:i + feed[1]])
            else:
                raise AssertionError("bad feed")
        x = b"".join(h.read(r) for r in reads)
    except AssertionError:
        raise
    except Exception as e:  # noqa
        return _raised(acc, "xof", "K12", e, what, case)
    if x != exp:
        s_len = len(cu) + len(K.length_encode(len(cu)))
        if len(msg) == 0 and feed[0] in ("data", "none") and s_len > 8192 \
                and x == R.k12_single_node(cu, outlen):
            acc.violation("C03/K12/long-custom-without-update",
                          "%s: |C || length_encode(|C|)| = %d > 8192 so RFC 9861 requires tree hashing, but "
                          "read() returns the single-node value %s instead of %s (update() was never called, "
                          "so the object is still in its SHORT_MSG state)"
                          % (what, s_len, short(x), short(exp)), case, script=_SCRIPT_K12)
        else:
            acc.violation("C03/xof/K12/value" if feed[0] in ("data", "update") and len(reads) == 1
                          else "C03/xof/K12/segmented-update-or-read",
                          "%s: read = %s, RFC 9861 says %s" % (what, short(x), short(exp)), case)


_SCRIPT_K12 = """from Crypto.Hash import KangarooTwelve as K12
C = bytes(8190)                      # |C| + |length_encode(8190)| = 8193 > 8192  ->  tree hashing
a = K12.new(custom=C).read(32)                  # no update() call
b = K12.new(custom=C).update(b"").read(32)      # same input, one empty update()
print(a.hex()); print(b.hex())
assert a == b, "KT128(M=empty, C) depends on whether update() was called"
"""


# ---------------------------------------------------------------------------
# part: HMAC over every hash module that HMAC accepts
# ---------------------------------------------------------------------------
def check_hmac(acc, hname, key, msg, do_verify=False):
    """hname=None: digestmod omitted (documented default MD5)."""
    HM = lib()["HMAC"]
    refname = "MD5" if hname is None else hname
    algo = "HMAC-" + ("default" if hname is None else hname)
    exp = R.hmac_ref(refname, key, msg)
    acc.count("evaluations", 2)
    acc.count("hmac_cases")
    acc.seen("shapes", ("hmac", hname, len(key), len(msg)))
    acc.seen("out/hmac", exp[:6])
    case = {"part": "hmac", "hash": hname, "key": key, "msg": msg, "verify": do_verify}
    what = "%s key %d bytes %s, message %d bytes" % (algo, len(key), short(key, 16), len(msg))
    kw = {} if hname is None else {"digestmod": lib()["hash"][hname].digestmod}
    try:
        h1 = HM.new(key, msg, **kw)
        d1 = h1.digest()
        d1b = h1.digest()
        hx = h1.hexdigest()
        ds = h1.digest_size
        h2 = HM.new(key, **kw)
        h2.update(msg)
        d2 = h2.digest()
    except Exception as e:  # noqa
        return _raised(acc, "mac", algo, e, what, case)
    k = "C03/mac/%s/" % algo
    if d1 != exp:
        return acc.violation(k + "value", "%s: digest() = %s, RFC 2104 says %s" % (what, d1.hex(), exp.hex()), case)
    if d2 != exp:
        acc.violation(k + "update-vs-msg", "%s: update(m) path = %s, RFC 2104 says %s"
                      % (what, d2.hex(), exp.hex()), case)
    if d1b != exp:
        acc.violation(k + "second-digest", "%s: second digest() = %s, first (correct) %s"
                      % (what, d1b.hex(), exp.hex()), case)
    if hx != exp.hex():
        acc.violation(k + "hexdigest", "%s: hexdigest() = %r, expected %s" % (what, hx, exp.hex()), case)
    if ds != len(exp):
        acc.violation(k + "digest_size", "%s: digest_size = %r" % (what, ds), case)
    if do_verify:
        other = R.hmac_ref(refname, key, msg + b"x")
        run_verify(acc, "mac", algo, lambda: HM.new(key, msg, **kw), exp, None, other, what, case)


# ---------------------------------------------------------------------------
# part: CMAC
# ---------------------------------------------------------------------------
class _LibBlock(object):
    """CAST-128 / RC2 have no reference primitive (DESIGN 2.3): CMAC is modelled over the library's
    own single-block ECB encryption (decomposition primitive x mode)."""

    def __init__(self, mod, key):
        self.block_size = mod.block_size
        self._c = mod.new(key, mod.MODE_ECB)

    def encrypt_block(self, b):
        return self._c.encrypt(b)


_LIBBLOCK = {}


def _cmac_cipher(cname, key):
    if cname in ("CAST", "ARC2"):
        k = (cname, bytes(key))
        if k not in _LIBBLOCK:
            _LIBBLOCK[k] = _LibBlock(lib()["cipher"][cname], key)
        return _LIBBLOCK[k]
    return R.ref_cipher(cname, key)


def check_cmac(acc, cname, key, msg, mac_len, cut=None, do_verify=False):
    """mac_len=None: omitted (default = block size).  cut=None: new(key, msg=m); cut=c: update(m[:c]), update(m[c:])."""
    CM = lib()["CMAC"]
    cmod = lib()["cipher"][cname]
    algo = "CMAC-" + cname
    bs = cmod.block_size
    outlen = bs if mac_len is None else mac_len
    acc.count("cmac_cases")
    acc.seen("shapes", ("cmac", cname, len(key), len(msg), mac_len, cut))
    case = {"part": "cmac", "cipher": cname, "key": key, "msg": msg, "mac_len": mac_len, "cut": cut,
            "verify": do_verify}
    what = "%s key %s, message %d bytes %s, mac_len %s%s" % (
        algo, key.hex(), len(msg), short(msg, 24), mac_len, "" if cut is None else ", two updates cut at %d" % cut)
    kw = {} if mac_len is None else {"mac_len": mac_len}
    try:
        if cut is None:
            h1 = CM.new(key, msg=msg, ciphermod=cmod, **kw)
        else:
            h1 = CM.new(key, ciphermod=cmod, **kw)
            h1.update(msg[:cut])
            h1.update(msg[cut:])
    except ValueError as e:
        if not 4 <= outlen <= bs:
            acc.count("refused_by_policy")
            acc.observe("CMAC refuses mac_len outside 4..block size (documented library limit)")
            return
        return _raised(acc, "mac", algo, e, what, case)
    except Exception as e:  # noqa
        return _raised(acc, "mac", algo, e, what, case)
    full = R.cmac_ref(_cmac_cipher(cname, key), msg)
    exp = full[:outlen]
    acc.count("evaluations")
    acc.seen("out/cmac", exp[:6])
    try:
        d1 = h1.digest()
        hx = h1.hexdigest()
        ds = h1.digest_size
    except Exception as e:  # noqa
        return _raised(acc, "mac", algo, e, what, case)
    k = "C03/mac/%s/" % algo
    if d1 != exp:
        return acc.violation(k + ("value" if cut is None else "two-updates"),
                             "%s: digest() = %s, SP 800-38B says %s" % (what, d1.hex(), exp.hex()), case)
    if hx != exp.hex():
        acc.violation(k + "hexdigest", "%s: hexdigest() = %r, expected %s" % (what, hx, exp.hex()), case)
    if ds != len(exp):
        acc.violation(k + "digest_size", "%s: digest_size = %r" % (what, ds), case)
    if do_verify:
        other = R.cmac_ref(_cmac_cipher(cname, key), msg + b"x")[:outlen]
        run_verify(acc, "mac", algo, lambda: CM.new(key, msg=msg, ciphermod=cmod, **kw), exp, full, other,
                   what, case)


# ---------------------------------------------------------------------------
# part: Poly1305
# ---------------------------------------------------------------------------
def check_poly_rs(acc, r, s, msg):
    """Seam Poly1305_MAC(r, s, data): any (r, s) limb pattern."""
    P = lib()["Poly1305"]
    exp = R.poly_ref(r, s, msg)
    acc.count("evaluations", 2)
    acc.count("poly_rs_cases")
    acc.seen("shapes", ("poly-rs", r[:2] + r[-2:], s[:2], len(msg)))
    acc.seen("out/poly", exp[:6])
    case = {"part": "poly-rs", "r": r, "s": s, "msg": msg}
    what = "Poly1305(r=%s, s=%s) of %d-byte message %s" % (r.hex(), s.hex(), len(msg), short(msg, 24))
    try:
        d1 = P.Poly1305_MAC(r, s, msg).digest()
        h2 = P.Poly1305_MAC(r, s, None)
        h2.update(msg)
        d2 = h2.digest()
    except Exception as e:  # noqa
        return _raised(acc, "mac", "Poly1305", e, what, case)
    if d1 != exp:
        return acc.violation("C03/mac/Poly1305/value", "%s: digest() = %s, RFC 8439 2.5 says %s"
                             % (what, d1.hex(), exp.hex()), case)
    if d2 != exp:
        acc.violation("C03/mac/Poly1305/update-vs-data", "%s: update(m) path = %s, RFC 8439 2.5 says %s"
                      % (what, d2.hex(), exp.hex()), case)


def check_poly(acc, cname, key, nonce, msg, do_verify=False):
    P = lib()["Poly1305"]
    cmod = lib()["cipher"][cname]
    algo = "Poly1305-" + cname
    r, s = R.poly_aes_rs(key, nonce) if cname == "AES" else R.poly_chacha_rs(key, nonce)
    exp = R.poly_ref(r, s, msg)
    acc.count("evaluations", 2)
    acc.count("poly_cases")
    acc.seen("shapes", ("poly", cname, len(nonce), len(msg)))
    acc.seen("out/poly", exp[:6])
    case = {"part": "poly", "cipher": cname, "key": key, "nonce": nonce, "msg": msg, "verify": do_verify}
    what = "%s key %s nonce %s, %d-byte message %s" % (algo, key.hex(), nonce.hex(), len(msg), short(msg, 24))
    try:
        h1 = P.new(key=key, cipher=cmod, nonce=nonce, data=msg)
        d1 = h1.digest()
        hx = h1.hexdigest()
        ds = h1.digest_size
        h2 = P.new(key=key, cipher=cmod, nonce=nonce)
        h2.update(msg)
        d2 = h2.digest()
    except Exception as e:  # noqa
        return _raised(acc, "mac", algo, e, what, case)
    k = "C03/mac/%s/" % algo
    if d1 != exp:
        return acc.violation(k + "value", "%s: digest() = %s, standard says %s (r=%s s=%s)"
                             % (what, d1.hex(), exp.hex(), r.hex(), s.hex()), case)
    if d2 != exp:
        acc.violation(k + "update-vs-data", "%s: update(m) path = %s, standard says %s"
                      % (what, d2.hex(), exp.hex()), case)
    if hx != exp.hex():
        acc.violation(k + "hexdigest", "%s: hexdigest() = %r, expected %s" % (what, hx, exp.hex()), case)
    if ds != 16:
        acc.violation(k + "digest_size", "%s: digest_size = %r" % (what, ds), case)
    if do_verify:
        other = R.poly_ref(r, s, msg + b"x")
        run_verify(acc, "mac", algo, lambda: P.new(key=key, cipher=cmod, nonce=nonce, data=msg), exp, None,
                   other, what, case)


# ---------------------------------------------------------------------------
# part: BLAKE2b / BLAKE2s  (every digest size x every key length x message lengths)
# ---------------------------------------------------------------------------
def _b2ref(variant, dbytes, key, msg):
    f = hashlib.blake2b if variant == "b" else hashlib.blake2s
    return f(msg, digest_size=dbytes, key=key).digest()


def check_blake2(acc, variant, dbytes, key, msg, use_bits=False, do_verify=False, counted=False):
    """Full comparison of one BLAKE2 case (all entry points).  key=b'' means unkeyed."""
    mod = lib()["BLAKE2"][variant]
    algo = "BLAKE2" + variant
    case = {"part": "blake2", "variant": variant, "dbytes": dbytes, "key": key, "msg": msg,
            "use_bits": use_bits, "verify": do_verify}
    what = "%s digest %d bytes (%s), key %d bytes %s, message %d bytes %s" % (
        algo, dbytes, "digest_bits" if use_bits else "digest_bytes", len(key), short(key, 16), len(msg),
        short(msg, 24))
    if not counted:
        acc.count("evaluations", 3)
        acc.count("blake2_cases")
        acc.seen("shapes", ("blake2-full", variant, dbytes, len(key), len(msg), use_bits))
    kw = {"digest_bits": dbytes * 8} if use_bits else {"digest_bytes": dbytes}
    if key:
        kw["key"] = key
    try:
        h1 = mod.new(data=msg, **kw)
        d1 = h1.digest()
        hx = h1.hexdigest()
        ds = h1.digest_size
        h2 = mod.new(**kw)
        h2.update(msg)
        d2 = h2.digest()
        kw3 = dict(kw)
        kw3.pop("digest_bits", None)
        kw3.pop("digest_bytes", None)
        d3 = h1.new(data=msg, **kw3).digest()          # digest size inherited
    except Exception as e:  # noqa
        return _raised(acc, "hash", algo, e, what, case)
    exp = _b2ref(variant, dbytes, key, msg)
    fam = "mac" if key else "hash"
    k = "C03/%s/%s/" % (fam, algo)
    if d1 != exp:
        return acc.violation(k + "value", "%s: digest() = %s, RFC 7693 says %s" % (what, d1.hex(), exp.hex()), case)
    if d2 != exp:
        acc.violation(k + "update-vs-data", "%s: update(m) path = %s, RFC 7693 says %s"
                      % (what, d2.hex(), exp.hex()), case)
    if hx != exp.hex():
        acc.violation(k + "hexdigest", "%s: hexdigest() = %r, expected %s" % (what, hx, exp.hex()), case)
    if ds != len(exp):
        acc.violation(k + "digest_size", "%s: digest_size = %r" % (what, ds), case)
    if d3 != exp:
        acc.violation(k + "obj.new", "%s: obj.new(data=m, key=k).digest() = %s, RFC 7693 says %s"
                      % (what, d3.hex(), exp.hex()), case)
    if do_verify:
        other = _b2ref(variant, dbytes, key, msg + b"x")
        run_verify(acc, fam, algo, lambda: mod.new(data=msg, **kw), exp, None, other, what, case)


def blake2_grid(acc, variant, dbytes, maxmsg):
    """Tight loop: every key length x every message length 0..maxmsg for one digest size."""
    mod = lib()["BLAKE2"][variant]
    new = mod.new
    f = hashlib.blake2b if variant == "b" else hashlib.blake2s
    maxkey = 64 if variant == "b" else 32
    kbuf = val(3, maxkey, "b2key")
    mbuf = val(3, maxmsg + 300, "b2msg")
    n = 0
    for kl in range(maxkey + 1):
        key = kbuf[:kl]
        acc.seen("shapes", ("blake2", variant, dbytes, kl))
        for ml in range(maxmsg + 1):
            off = (kl * 7 + dbytes) % 251
            msg = mbuf[off:off + ml]
            n += 1
            try:
                if kl:
                    d = new(digest_bytes=dbytes, key=key, data=msg).digest()
                else:
                    d = new(digest_bytes=dbytes, data=msg).digest()
                bad = d != f(msg, digest_size=dbytes, key=key).digest()
            except Exception:  # noqa
                bad = True
            if bad:
                check_blake2(acc, variant, dbytes, key, msg, counted=True)
    for ml in range(maxmsg + 1):
        acc.seen("shapes", ("blake2-msglen", variant, ml))
    acc.count("evaluations", n)
    acc.count("blake2_grid_cases", n)
