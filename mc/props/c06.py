"""C06 - EC arithmetic follows the group law; ECDH / X25519 / X448 secrets are correct.

Bounded-exhaustive exploration (ShapeExplorer + SeqExplorer) of the real EccPoint / EccXPoint objects and
of Crypto.Protocol.DH.key_agreement against the affine reference arithmetic of mc.ref.ec:

* per curve a point alphabet (neutral element, the registry generator, a fresh EccPoint(Gx,Gy), G reached by
  arithmetic with z != 1, small and seeded multiples, -G, (n-1)G, the low-order points of the Edwards curves and
  mixed-order points): ALL ordered pairs for + += == !=, every point for - double() copy() xy
  is_point_at_infinity() and the aliased forms P+P, P+=P;
* the scalar alphabet of DESIGN (0, small, 2^k-1/2^k/2^k+1, n-1, n, n+1, 2n, h*n, 2^bits.., window patterns,
  far larger than the order) x every point x {P*k, k*P, P*=k, P*Integer(k)} x blinding seeds (seam
  Crypto.PublicKey._point.getrandbits; 0 = unblinded path);
* all histories of in-place operations up to depth 3 on ONE mutable object (prefix replay), then a functional
  operator on the reached object;
* EccXPoint: all scalars x all u of an alphabet that contains every low-order u, non-canonical u, twist points and
  the neutral element; all ordered pairs for ==; histories of *=;  the oracle is the exact group law on the curve /
  its twist (the RFC 7748 ladder is only the second opinion);
* key_agreement: all 16 subsets of {static_priv, static_pub, eph_priv, eph_pub} from both parties' view on the five
  NIST curves and X25519/X448, neutral results (public key = neutral element / every low-order u and its aliases),
  edge-of-encoding public values, RFC 7748 5.2 iterations (1 and 1000).
"""
from ..common import Acc, seeded_int
from ..ref import ec as R
from . import _c06_ref as H
from . import _c06_core as K
from . import _c06_points as P
from . import _c06_xdh as X

LEVEL = "exploration"
RULE = ("complete enumeration of the stated alphabets: per curve all ordered pairs of the point alphabet, all (point, scalar, "
        "operator form, blinding seed) tuples, all in-place operator histories up to the depth bound, all 16 key_agreement "
        "argument subsets x key sets for both parties; a case is distinct by (curve, operand recipes, scalar, seed, history); "
        "distinct_nontrivial counts the distinct behaviour classes observed (part, curve, operator, class of the operand(s) "
        "[neutral / G / order-2 / low-order / other], scalar range, class of the result, agreement with the reference)")
BUDGET = {"quick": 200, "thorough": 2400}

ALPHA = {}      # cname -> point alphabet (filled in the parent before forking)
XALPHA = {}


def _seeds(cname, quick):
    if cname not in H.WEIER:
        return [0x0123456789ABCDEF]             # the seed is ignored by the Edwards code
    s = 1 + seeded_int("c06/blind/" + cname, 64) % ((1 << 64) - 1)
    if quick:
        return [s, 0] + ([0xFFFFFFFFFFFFFFFF] if cname == "p256" else [])
    return [s, 0, 1, 0xFFFFFFFF, 0xFFFFFFFFFFFFFFFF]


def worker(shards):
    acc = Acc()
    for sh in shards:
        kind = sh[0]
        if kind == "selfcheck":
            H.selfcheck()           # an AssertionError here is reported by pmap as a harness error
            acc.seen("selfcheck", "done")
        elif kind == "unary":
            for i, a in enumerate(ALPHA[sh[1]]):
                P.check_unary(sh[1], a[1], acc, size=i)
        elif kind == "pair":
            _, cname, i = sh
            A = ALPHA[cname]
            for j, b in enumerate(A):
                P.check_pair(cname, A[i][1], b[1], acc, size=1000 + 100 * max(i, j) + min(i, j))
                acc.count("pairs")
        elif kind == "scalar":
            _, cname, i, reduced, quick = sh
            S = H.scalar_alphabet(cname, reduced)
            for j, (kl, k) in enumerate(S):
                for si, seed in enumerate(_seeds(cname, quick)):
                    P.check_scalar(cname, ALPHA[cname][i][1], k, seed, acc, size=100000 + (100 * j + i) * 10 + si)
                    acc.count("scalar_cases")
        elif kind == "hist":
            _, cname, si, depth, reduced, first = sh
            A = ALPHA[cname]
            ops = P.hist_ops(cname, A, reduced)
            if first < len(ops):
                P.explore_histories(cname, hist_starts(cname)[si], ops, depth, first, _byl(cname, "W2"), acc, sbase=si)
        elif kind == "xunary":
            for i, a in enumerate(XALPHA[sh[1]]):
                X.check_xunary(sh[1], a[1], acc, size=i)
        elif kind == "xpair":
            _, cname, i = sh
            A = XALPHA[cname]
            for j, b in enumerate(A):
                X.check_xpair(cname, A[i][1], b[1], acc, size=1000 + 100 * max(i, j) + min(i, j))
                acc.count("pairs")
        elif kind == "xscalar":
            _, cname, i, reduced = sh
            for j, (kl, k) in enumerate(H.scalar_alphabet(cname, reduced)):
                X.check_xscalar(cname, XALPHA[cname][i][1], k, acc, size=100000 + 100 * j + i)
                acc.count("scalar_cases")
        elif kind == "xhist":
            _, cname, si, depth, reduced, first = sh
            S = X.xhist_scalars(cname, reduced)
            if first < len(S):
                X.explore_xhistories(cname, xhist_starts(cname)[si], S, depth, first, acc, sbase=si)
        elif kind == "ka":
            X.check_ka(sh[1], sh[2], sh[3], acc)
        elif kind == "kaneutral":
            X.check_ka_neutral(sh[1], sh[2], acc)
        elif kind == "xdhspecial":
            X.check_xdh_special(sh[1], sh[2], acc)
        elif kind == "rfciter":
            X.check_rfc7748_iter(sh[1], sh[2], acc)
        elif kind == "cross":
            for c1 in H.WEIER:
                for c2 in H.WEIER:
                    if c1 != c2:
                        X.check_cross(c1, c2, acc)
        else:
            raise RuntimeError("unknown shard %r" % (sh,))
    acc.sample({"shard": [s if not isinstance(s, int) or s < 2**53 else str(s) for s in sh]})
    return acc


def _byl(cname, label):
    return [a for a in ALPHA[cname] if a[0] == label][0][1]


def hist_starts(cname):
    return [_byl(cname, "G'"), ("O",), _byl(cname, "W0")]


def xhist_starts(cname):
    A = {a[0]: a[1] for a in XALPHA[cname]}
    tw = [a[1] for a in XALPHA[cname] if a[2] == "twist"][0]
    return [A["G'"], A["low(1)"], A["W0"], tw]


def run(ctx):
    q = ctx.quick
    R.validate_curves()
    if not K.have_seam():
        ctx.acc.error("seam Crypto.PublicKey._point.getrandbits not found")
        return
    for cname in H.WEIER + H.EDW:
        ALPHA[cname] = K.point_alphabet(cname, ctx.acc.observe)
    for cname in H.MONT:
        XALPHA[cname] = K.xpoint_alphabet(cname)
    full = ("p256", "ed25519", "curve25519")
    # the reference self-tests (6-8 s: RFC vectors, 1000 X25519 iterations, helper cross-checks) run as the first shard, in
    # parallel with the exploration; a failure is a harness error (exit 3)
    sh = [[("selfcheck",)]]
    # --- EccPoint ---
    for cname in H.WEIER + H.EDW:
        sh.append([("unary", cname)])
        n = len(ALPHA[cname])
        for i in range(n):
            sh.append([("pair", cname, i)])
            sh.append([("scalar", cname, i, q and cname not in full, q)])
    hist_plan = {}
    for cname in H.WEIER + H.EDW:
        if q:
            plans = [(3, True, (0,))] if cname in full else []
            plans.append((2, False, (0, 1, 2)))
        else:
            plans = [(3, False, (0, 1, 2))] + ([(4, True, (0,))] if cname in full else [])
        hist_plan[cname] = plans
        for depth, reduced, starts in plans:
            nops = len(P.hist_ops(cname, ALPHA[cname], reduced))
            for si in starts:
                for first in range(nops):
                    sh.append([("hist", cname, si, depth, reduced, first)])
    # --- EccXPoint ---
    xdepth = 2 if q else 3
    for cname in H.MONT:
        red = q and cname not in full
        sh.append([("xunary", cname)])
        for i in range(len(XALPHA[cname])):
            sh.append([("xpair", cname, i)])
            sh.append([("xscalar", cname, i, red)])
        for si in range(4):
            for first in range(len(X.xhist_scalars(cname, False))):
                sh.append([("xhist", cname, si, xdepth, False, first)])
    # --- key agreement ---
    nsets = 3 if q else 6
    for cname in X.KA_CURVES:
        for ksi in range(nsets):
            sh.append([("ka", cname, ksi, nsets)])
        if cname in H.MONT:
            for u in X.neutral_us(cname):
                sh.append([("kaneutral", cname, u)])
            for u in X.special_us(cname):
                sh.append([("xdhspecial", cname, u)])
            for it in (1, 1000):
                sh.append([("rfciter", cname, it)])
        else:
            sh.append([("kaneutral", cname, None)])
    sh.append([("cross",)])
    # expensive shards first
    cost = {"selfcheck": -1, "rfciter": 0, "hist": 1, "xhist": 1, "scalar": 2, "xscalar": 3}
    sh.sort(key=lambda s: (cost.get(s[0][0], 5), -R.CURVES[s[0][1]].bits if len(s[0]) > 1 and s[0][1] in R.CURVES else 0))
    ctx.pmap(worker, sh)

    a = ctx.acc
    cl = a.distinct.get("classes", set())
    ctx.require("done" in a.distinct.get("selfcheck", ()), "reference self-check shard did not complete")
    for cname in H.WEIER + H.EDW:
        ctx.require(any(c[0] == "scalar" and c[1] == cname and c[3] == ">=2^bits" for c in cl) or
                    any(c[0] == "scalar-exc" and c[1] == cname for c in cl), "%s: no scalar >= 2^bits was multiplied" % cname)
        ctx.require(cname not in H.WEIER or any(c[0] == "scalar" and c[1] == cname and c[2] == "G" and c[5] for c in cl) and
                    any(c[0] == "scalar" and c[1] == cname and c[2] == "other" and not c[5] for c in cl),
                    "%s: blinded and unblinded scalar multiplication were not both exercised" % cname)
        ctx.require(("eq", cname, True, True, False) in cl and ("eq", cname, False, False, True) in cl,
                    "%s: equal and unequal pairs were not both observed" % cname)
        ctx.require(any(c[0] == "val" and c[1] == cname and c[2] in ("add", "iadd") and c[3] == "neutral" and c[4] for c in cl),
                    "%s: no addition reached the neutral element" % cname)
        pc = {c[3] for c in a.distinct.get("pairclasses", ()) if c[0] == cname}
        ctx.require(pc >= {"eq", "opp", "gen"}, "%s: pairs did not include equal, opposite and generic operands" % cname)
        ctx.require(any(c[0] == "hist" and c[1] == cname for c in cl), "%s: no history executed" % cname)
    for cname in ("p256", "p384", "p521"):
        ctx.require(any(c[0] in ("scalar", "scalar-exc") and c[1] == cname and c[2] == "G" and c[3] == ">=2^bits" for c in cl),
                    "%s: generator x scalar >= 2^bits (known defect input) was not executed" % cname)
    for cname in H.EDW:
        ctx.require(any(c[0] == "pai" and c[1] == cname and c[2] == "order-2" for c in cl), "%s: order-2 point never examined" % cname)
        ctx.require(any(c[0] == "pai" and c[1] == cname and c[2] == "low-order" for c in cl), "%s: no low-order point examined" % cname)
    for cname in H.MONT:
        ctx.require(any(c[0] == "xscalar" and c[1] == cname and c[2] == "order-2" for c in cl) and
                    any(c[0] == "xscalar" and c[1] == cname and c[2] == "low-order" for c in cl) and
                    any(c[0] == "xscalar" and c[1] == cname and c[5] == "neutral" for c in cl),
                    "%s: low-order inputs / neutral results were not observed" % cname)
        ctx.require(any(c[0] == "xeq" and c[1] == cname and c[4] and c[5] for c in cl) and
                    any(c[0] == "xeq" and c[1] == cname and not c[4] and not c[5] for c in cl), "%s: == never true / never false" % cname)
        ctx.require(("rfciter", cname, 1000) in cl or any(k.startswith("C06/rfc7748") for k in a.viol), "%s: RFC 7748 iteration did not finish" % cname)
    ks = a.distinct.get("ka_schemes", set())
    for cname in X.KA_CURVES:
        for s in ("C(2e,2s)", "C(2e,0s)", "C(1e,2s)U", "C(1e,2s)V", "C(0e,2s)", "C(1e,1s)U", "C(1e,1s)V"):
            ctx.require((cname, s, "ok") in ks or (cname, s, "exc") in ks, "%s: scheme %s not exercised" % (cname, s))
        ctx.require((cname, "illegal", "exc") in ks, "%s: no illegal key combination was refused" % cname)
        ctx.require(any(c[0] == cname for c in a.distinct.get("ka_neutral", ())) or
                    any("neutral-result" in k and cname in k for k in a.viol), "%s: no neutral-result exchange was refused" % cname)
    ctx.require(("cross", False) in cl and ("cross-add", "ValueError") in cl, "cross-curve comparison not executed")

    ctx.coverage_extra.update({
        "evaluations": a.n.get("evaluations", 0),
        "distinct_nontrivial": len(cl),
        "exhaustive": not a.caps,
        "ordered_pairs": a.n.get("pairs", 0),
        "scalar_cases(point,scalar,seed)": a.n.get("scalar_cases", 0),
        "history_nodes": a.n.get("states", 0), "history_calls": a.n.get("transitions", 0),
        "history_traces": a.n.get("traces", 0), "distinct_reference_points_reached_by_histories": len(a.distinct.get("hist_refstates", ())),
        "point_alphabet": {c: [x[0] for x in ALPHA[c]] for c in ALPHA},
        "xpoint_alphabet": {c: [x[0] for x in XALPHA[c]] for c in XALPHA},
        "scalar_alphabet": {c: [l for l, _ in H.scalar_alphabet(c, q and c not in full)] for c in R.CURVES},
        "blinding_seeds": {c: ["0x%x" % s for s in _seeds(c, q)] for c in H.WEIER},
        "history_plan(depth,reduced alphabet,start indices)": {c: [list(map(str, p)) for p in v] for c, v in hist_plan.items()},
        "history_alphabet_sizes": {c: {"full": len(P.hist_ops(c, ALPHA[c], False)), "reduced": len(P.hist_ops(c, ALPHA[c], True))} for c in ALPHA},
        "xhistory": {"depth": xdepth, "scalars": [l for l, _ in X.xhist_scalars("curve25519")], "starts": 4},
        "key_agreement": {"curves": list(X.KA_CURVES), "key_sets": nsets, "subsets": 16, "views": 2,
                          "neutral_u_values": {c: len(X.neutral_us(c)) for c in H.MONT},
                          "special_u_values": {c: len(X.special_us(c)) for c in H.MONT}, "rfc7748_iterations": [1, 1000]},
    })
    ctx.assume("coordinates and scalars outside the stated alphabets are not covered (value alphabet: boundary values plus "
               "SHAKE256(VERIF_SEED)-derived multiples/scalars)")
    ctx.assume("reference k*P on Weierstrass/Edwards curves is computed as (k mod h*n)*P (validated unreduced on P-192 and Ed25519 at "
               "start-up); the library always receives the unreduced scalar")
    ctx.assume("scalars with leading zero bytes cannot be produced through the Python operators (long_to_bytes strips them); the raw "
               "C entry points are not called directly")
    ctx.assume("the 64-bit blinding seed is owned through the module attribute Crypto.PublicKey._point.getrandbits; only the listed "
               "seed values are explored (0 selects the unblinded path)")
    ctx.assume("RFC 7748 5.2: 1 and 1000 iterations; 1,000,000 iterations are out of budget")
    ctx.assume("Weierstrass coordinates >= p and the acceptance of invalid points by constructors belong to C05 and are not judged here; "
               "key_agreement with Ed25519/Ed448 keys is outside the property text")
    ctx.assume("comparison of points of different curve families (e.g. Ed25519 vs P-256) is not executed: the C comparison function "
               "of one family would read the other family's structure")


def replay(case, acc):
    p = case["part"]
    c = case.get("curve")
    t = H.tup
    if p == "pair":
        P.check_pair(c, t(case["P"]), t(case["Q"]), acc)
    elif p == "unary":
        P.check_unary(c, t(case["P"]), acc)
    elif p == "scalar":
        P.check_scalar(c, t(case["P"]), case["k"], case["seed"], acc, ops=tuple(case["ops"]))
    elif p == "hist":
        P.run_history(c, t(case["start"]), [t(o) for o in case["ops"]], acc, final=t(case["final"]) if case["final"] else None,
                      check_all=False)
    elif p == "xscalar":
        X.check_xscalar(c, t(case["P"]), case["k"], acc)
    elif p == "xpair":
        X.check_xpair(c, t(case["P"]), t(case["Q"]), acc)
    elif p == "xunary":
        X.check_xunary(c, t(case["P"]), acc)
    elif p == "xhist":
        X.run_xhistory(c, t(case["start"]), case["ks"], acc)
    elif p == "ka":
        X.check_ka(c, case["keyset"], case["nsets"], acc)
    elif p == "kaneutral":
        X.check_ka_neutral(c, case["u"], acc)
    elif p == "xdhspecial":
        X.check_xdh_special(c, case["u"], acc)
    elif p == "rfciter":
        X.check_rfc7748_iter(c, case["iters"], acc)
    elif p == "cross":
        X.check_cross(case["c1"], case["c2"], acc)
    else:
        acc.error("unknown replay part %r" % (p,))
