"""C06 - EC arithmetic follows the group law; ECDH / X25519 / X448 secrets are correct.

Bounded-exhaustive exploration (ShapeExplorer + SeqExplorer) of the real EccPoint / EccXPoint objects and
of Crypto.Protocol.DH.key_agreement against the affine reference arithmetic of mc.ref.ec:

* per curve a point alphabet (neutral element, the registry generator, a fresh EccPoint(Gx,Gy), G reached by
  arithmetic with z != 1, small and seeded multiples, -G, (n-1)G, the low-order points of the Edwards curves and
  mixed-order points): ALL ordered pairs for + += == !=, every point for - double() copy() xy
  is_point_at_infinity() and the aliased forms P+P, P+=P;
* the scalar alphabet of DESIGN (0, small, 2^k-1/2^k/2^k+1, n-1, n, n+1, 2n, h*n, 2^bits.., window patterns,
  far larger than the order) x every point x {P*k, k*P, P*=k, P*Integer(k)} x blinding seeds (seam
  Crypto.PublicKey._point.getrandbits; 0 = unblinded path);
* all histories of in-place operations up to depth 3 on ONE mutable object (prefix replay), then a functional
  operator on the reached object;
* EccXPoint: all scalars x all u of an alphabet that contains every low-order u, non-canonical u, twist points and
  the neutral element; all ordered pairs for ==; histories of *=;  the oracle is the exact group law on the curve /
  its twist (the RFC 7748 ladder is only the second opinion);
* key_agreement: all 16 subsets of {static_priv, static_pub, eph_priv, eph_pub} from both parties' view on the five
  NIST curves and X25519/X448, neutral results (public key = neutral element / every low-order u and its aliases),
  edge-of-encoding public values, RFC 7748 5.2 iterations (1 and 1000).

The thorough tier adds (every addition is a complete enumeration, described in the evidence under "thorough_extensions"):
larger point / u / scalar / blinding-seed alphabets, structured scalar sweeps (every single non-zero window digit in every
window position for the window sizes of the C code - i.e. every entry of every pre-computed generator table of P-256/384/521 -
and 2^k-1, 2^k, 2^k+1 for every k up to bits+72) with an addition-chain reference, depth-4 histories on every curve, further
history starts, more key sets / key-object routes / own keys / public values for key_agreement, 5000 RFC 7748 iterations.
"""
from ..common import Acc, seeded_int
from ..ref import ec as R
from . import _c06_ref as H
from . import _c06_core as K
from . import _c06_points as P
from . import _c06_xdh as X

LEVEL = "exploration"
RULE = ("complete enumeration of the stated alphabets: per curve all ordered pairs of the point alphabet, all (point, scalar, "
        "operator form, blinding seed) tuples, all in-place operator histories up to the depth bound, all 16 key_agreement "
        "argument subsets x key sets (x key-object routes) for both parties; thorough tier in addition: all scalars of the structured "
        "sweep families (every window digit in every window position, 2^k-1 / 2^k / 2^k+1 for every k) x sweep points x blinding "
        "seeds; a case is distinct by (curve, operand recipes, scalar, seed, history); "
        "distinct_nontrivial counts the distinct behaviour classes observed (part, curve, operator, class of the operand(s) "
        "[neutral / G / order-2 / low-order / other], scalar range, class of the result, agreement with the reference)")
BUDGET = {"quick": 200, "thorough": 2400}

ALPHA = {}      # cname -> point alphabet (filled in the parent before forking)
XALPHA = {}
SCALAR_PARTS = {"p384": 2, "p521": 3, "ed448": 2, "p256": 2}    # thorough tier: scalar shards of one point are split (balance)
SWEEP_CHUNK = 240                                               # scalars per sweep shard


def _seeds(cname, quick):
    if cname not in H.WEIER:
        return [0x0123456789ABCDEF]             # the seed is ignored by the Edwards code
    s = 1 + seeded_int("c06/blind/" + cname, 64) % ((1 << 64) - 1)
    if quick:
        return [s, 0] + ([0xFFFFFFFFFFFFFFFF] if cname == "p256" else [])
    # src/ec_ws.c ec_ws_scalar: (uint32_t)seed is the scalar-blinding factor R (scalar + R*n), seed the source of the projective
    # blinding factor, seed+1 / seed+2 the seeds of the scrambled tables.  0x100000000: blinded path with R = 0;
    # 0xFFFFFFFFFFFFFFFE / ..FF: seed+2 / seed+1 wrap to 0; 0x80000000, 0xFFFFFFFF00000001, 2^63: sign / word boundaries of R and seed
    return [s, 0, 1, 0xFFFFFFFF, 0xFFFFFFFFFFFFFFFF,
            0x100000000, 0xFFFFFFFFFFFFFFFE, 0x80000000, 0xFFFFFFFF00000001, 0x8000000000000000]


_PAIR_ONLY = frozenset(["%dG" % m for m in range(4, 18)] + ["-3G", "dbl(dbl(G))", "-(dbl(G))", "2W0", "dbl(W0)", "-W1", "W1+W2", "W6", "W7"])


def _pair_only(label):
    """thorough-tier point-alphabet entries that take part in the pair / unary checks only (their value class and representation are
    already present in the scalar grid through other entries)"""
    return label in _PAIR_ONLY


def _sweep_seeds(cname):
    return _seeds(cname, False)[:1] if cname not in H.WEIER else [_seeds(cname, False)[0], 0, 0xFFFFFFFFFFFFFFFF]


def sweep_points(cname):
    """point alphabet entries the structured scalar sweeps run on: the shared generator object and a fresh EccPoint(Gx,Gy) (both take
    the pre-computed-table path on P-256/384/521), G with z != 1 and a seeded point (generic path), a mixed-order point (Edwards)"""
    labs = ["G", "G'", "2G+(-G)", "W0"] + (["G+T%d" % R.CURVES[cname].cofactor] if cname in H.EDW else [])
    return [[a for a in ALPHA[cname] if a[0] == l][0] for l in labs]


def xsweep_points(cname):
    A = {a[0]: a for a in XALPHA[cname]}
    tw = [a for a in XALPHA[cname] if a[2] == "twist"][0]
    return [A["G"], A["G'"], A["W0"], tw, A["low(1)"], A["p+Gu"]]


def worker(shards):
    acc = Acc()
    for sh in shards:
        kind = sh[0]
        if kind == "selfcheck":
            H.selfcheck()           # an AssertionError here is reported by pmap as a harness error
            acc.seen("selfcheck", "done")
        elif kind == "unary":
            for i, a in enumerate(ALPHA[sh[1]]):
                P.check_unary(sh[1], a[1], acc, size=i)
        elif kind == "pair":
            _, cname, i = sh
            A = ALPHA[cname]
            for j, b in enumerate(A):
                P.check_pair(cname, A[i][1], b[1], acc, size=1000 + 100 * max(i, j) + min(i, j))
                acc.count("pairs")
        elif kind == "scalar":
            cname, i, reduced, quick = sh[1:5]
            part, nparts = sh[5:7] if len(sh) > 5 else (0, 1)
            S = H.scalar_alphabet(cname, reduced, deep=not quick)
            if not quick:
                H.use_doubling_table(cname, ALPHA[cname][i][3])
            for j, (kl, k) in enumerate(S):
                if j % nparts != part:
                    continue
                for si, seed in enumerate(_seeds(cname, quick)):
                    P.check_scalar(cname, ALPHA[cname][i][1], k, seed, acc, size=100000 + (100 * j + i) * 10 + si)
                    acc.count("scalar_cases")
        elif kind == "sweep":
            _, cname, pi, fam, w, lo, hi = sh
            P.check_sweep(cname, sweep_points(cname)[pi][1], fam, w, lo, hi, _sweep_seeds(cname), acc, pidx=pi)
        elif kind == "xsweep":
            _, cname, pi, fam, w, lo, hi = sh
            X.check_xsweep(cname, xsweep_points(cname)[pi][1], fam, w, lo, hi, acc, pidx=pi)
        elif kind == "hist":
            _, cname, si, depth, reduced, first = sh
            A = ALPHA[cname]
            ops = P.hist_ops(cname, A, reduced)
            if first < len(ops):
                P.explore_histories(cname, hist_starts(cname)[si], ops, depth, first, _byl(cname, "W2"), acc, sbase=si)
                if depth >= 4:
                    acc.count("hist4/" + cname)
        elif kind == "xunary":
            for i, a in enumerate(XALPHA[sh[1]]):
                X.check_xunary(sh[1], a[1], acc, size=i)
        elif kind == "xpair":
            _, cname, i = sh
            A = XALPHA[cname]
            for j, b in enumerate(A):
                X.check_xpair(cname, A[i][1], b[1], acc, size=1000 + 100 * max(i, j) + min(i, j))
                acc.count("pairs")
        elif kind == "xscalar":
            cname, i, reduced = sh[1:4]
            deep = len(sh) > 4 and sh[4]
            for j, (kl, k) in enumerate(H.scalar_alphabet(cname, reduced, deep=deep)):
                X.check_xscalar(cname, XALPHA[cname][i][1], k, acc, size=100000 + 100 * j + i)
                acc.count("scalar_cases")
        elif kind == "xhist":
            _, cname, si, depth, reduced, first = sh
            S = X.xhist_scalars(cname, reduced)
            if first < len(S):
                X.explore_xhistories(cname, xhist_starts(cname)[si], S, depth, first, acc, sbase=si)
        elif kind == "ka":
            X.check_ka(sh[1], sh[2], sh[3], acc, route=sh[4] if len(sh) > 4 else "construct")
        elif kind == "kaneutral":
            X.check_ka_neutral(sh[1], sh[2], acc, nks=sh[3] if len(sh) > 3 else 2)
        elif kind == "xdhspecial":
            X.check_xdh_special(sh[1], sh[2], acc, deep=len(sh) > 3 and sh[3])
        elif kind == "rfciter":
            X.check_rfc7748_iter(sh[1], sh[2], acc)
        elif kind == "cross":
            for c1 in H.WEIER:
                for c2 in H.WEIER:
                    if c1 != c2:
                        X.check_cross(c1, c2, acc)
        else:
            raise RuntimeError("unknown shard %r" % (sh,))
    acc.sample({"shard": [s if not isinstance(s, int) or s < 2**53 else str(s) for s in sh]})
    return acc


_UNIT = {"p192": 1.0, "p224": 1.2, "p256": 1.5, "p384": 3.0, "p521": 4.5, "ed25519": 1.3, "ed448": 4.5, "curve25519": 1.0, "curve448": 4.0}


def _weight(s):
    """rough relative cost of a thorough-tier shard (only used to start the heaviest shards first)"""
    kind = s[0]
    u = _UNIT.get(s[1], 1.0) if len(s) > 1 else 1.0
    if kind == "selfcheck":
        return 1e9
    if kind == "rfciter":
        return 2.2 * u * s[2]
    if kind == "hist":
        nops = len(P.hist_ops(s[1], ALPHA[s[1]], s[4]))
        return 1.4 * u * sum(nops ** j for j in range(s[3]))
    if kind == "xhist":
        nops = len(X.xhist_scalars(s[1], s[4]))
        return 3.0 * u * sum(nops ** j for j in range(s[3]))
    if kind == "scalar":
        return u * len(H.scalar_alphabet(s[1], s[3], deep=True)) / s[6] * (15 + 3 * len(_seeds(s[1], False)))
    if kind == "xscalar":
        return 16.0 * u * len(H.scalar_alphabet(s[1], s[3], deep=True))
    if kind == "sweep":
        return 1.6 * u * SWEEP_CHUNK * len(_sweep_seeds(s[1]))
    if kind == "xsweep":
        return 1.6 * u * SWEEP_CHUNK
    return 10.0 * u


def _byl(cname, label):
    return [a for a in ALPHA[cname] if a[0] == label][0][1]


def hist_starts(cname):
    """0..2: both tiers; 3..: thorough tier (G with z != 1; Edwards: a point of order h and a mixed-order point)"""
    st = [_byl(cname, "G'"), ("O",), _byl(cname, "W0"), _byl(cname, "2G+(-G)")]
    if cname in H.EDW:
        h = R.CURVES[cname].cofactor
        st += [_byl(cname, "T%d[1]" % h), _byl(cname, "G+T%d" % h)]
    return st


def xhist_starts(cname):
    """0..3: both tiers; 4, 5: thorough tier (a non-canonical u, the low-order u = p-1)"""
    A = {a[0]: a[1] for a in XALPHA[cname]}
    tw = [a[1] for a in XALPHA[cname] if a[2] == "twist"][0]
    return [A["G'"], A["low(1)"], A["W0"], tw, A["p+Gu"], A["low(p-1)"]]


def run(ctx):
    q = ctx.quick
    deep = not q
    R.validate_curves()
    if not K.have_seam():
        ctx.acc.error("seam Crypto.PublicKey._point.getrandbits not found")
        return
    for cname in H.WEIER + H.EDW:
        ALPHA[cname] = K.point_alphabet(cname, ctx.acc.observe, deep=deep)
    for cname in H.MONT:
        XALPHA[cname] = K.xpoint_alphabet(cname, deep=deep)
    full = ("p256", "ed25519", "curve25519")
    # the reference self-tests (6-8 s: RFC vectors, 1000 X25519 iterations, helper cross-checks) run as the first shard, in
    # parallel with the exploration; a failure is a harness error (exit 3)
    sh = [[("selfcheck",)]]
    # --- EccPoint ---
    for cname in H.WEIER + H.EDW:
        sh.append([("unary", cname)])
        n = len(ALPHA[cname])
        nparts = 1 if q else SCALAR_PARTS.get(cname, 1)
        for i in range(n):
            sh.append([("pair", cname, i)])
            if q:
                sh.append([("scalar", cname, i, cname not in full, True)])
            elif not _pair_only(ALPHA[cname][i][0]):
                for part in range(nparts):
                    sh.append([("scalar", cname, i, False, False, part, nparts)])
    sweep_expected = 0
    if deep:
        for cname in H.WEIER + H.EDW:
            for pi in range(len(sweep_points(cname))):
                for fam, w, lo, hi in H.sweep_chunks(cname, SWEEP_CHUNK):
                    sh.append([("sweep", cname, pi, fam, w, lo, hi)])
            sweep_expected += H.sweep_count(cname) * len(sweep_points(cname)) * len(_sweep_seeds(cname))
    hist_plan = {}
    for cname in H.WEIER + H.EDW:
        if q:
            plans = [(3, True, (0,))] if cname in full else []
            plans.append((2, False, (0, 1, 2)))
        else:
            plans = [(3, False, tuple(range(len(hist_starts(cname))))), (4, True, (0,))]
        hist_plan[cname] = plans
        for depth, reduced, starts in plans:
            nops = len(P.hist_ops(cname, ALPHA[cname], reduced))
            for si in starts:
                for first in range(nops):
                    sh.append([("hist", cname, si, depth, reduced, first)])
    # --- EccXPoint ---
    xplans = [(2, False, (0, 1, 2, 3))] if q else [(3, False, (0, 1, 2, 3, 4, 5)), (4, True, (0, 1, 2, 3))]
    for cname in H.MONT:
        red = q and cname not in full
        sh.append([("xunary", cname)])
        for i in range(len(XALPHA[cname])):
            sh.append([("xpair", cname, i)])
            sh.append([("xscalar", cname, i, red) + ((True,) if deep else ())])
        for xdepth, xred, xstarts in xplans:
            for si in xstarts:
                for first in range(len(X.xhist_scalars(cname, xred))):
                    sh.append([("xhist", cname, si, xdepth, xred, first)])
        if deep:
            for pi in range(len(xsweep_points(cname))):
                for fam, w, lo, hi in H.sweep_chunks(cname, SWEEP_CHUNK):
                    sh.append([("xsweep", cname, pi, fam, w, lo, hi)])
            sweep_expected += H.sweep_count(cname) * len(xsweep_points(cname))
    # --- key agreement ---
    nsets = 3 if q else 14
    routes = X.KA_ROUTES[:1] if q else X.KA_ROUTES
    nks = 2 if q else 6
    iters = (1, 1000) if q else (1, 1000, 5000)
    for cname in X.KA_CURVES:
        for ksi in range(nsets):
            for route in routes:
                sh.append([("ka", cname, ksi, nsets) + ((route,) if deep else ())])
        if cname in H.MONT:
            for u in X.neutral_us(cname):
                sh.append([("kaneutral", cname, u) + ((nks,) if deep else ())])
            for u in X.special_us(cname, deep):
                sh.append([("xdhspecial", cname, u) + ((True,) if deep else ())])
            for it in iters:
                sh.append([("rfciter", cname, it)])
        else:
            sh.append([("kaneutral", cname, None) + ((nks,) if deep else ())])
    sh.append([("cross",)])
    # expensive shards first
    cost = {"selfcheck": -1, "rfciter": 0, "hist": 1, "xhist": 1, "scalar": 2, "xscalar": 3}
    sh.sort(key=lambda s: (cost.get(s[0][0], 5), -R.CURVES[s[0][1]].bits if len(s[0]) > 1 and s[0][1] in R.CURVES else 0))
    if deep:
        sh.sort(key=lambda s: -_weight(s[0]))       # stable: ties keep the order above
    ctx.pmap(worker, sh)

    a = ctx.acc
    cl = a.distinct.get("classes", set())
    ctx.require("done" in a.distinct.get("selfcheck", ()), "reference self-check shard did not complete")
    for cname in H.WEIER + H.EDW:
        ctx.require(any(c[0] == "scalar" and c[1] == cname and c[3] == ">=2^bits" for c in cl) or
                    any(c[0] == "scalar-exc" and c[1] == cname for c in cl), "%s: no scalar >= 2^bits was multiplied" % cname)
        ctx.require(cname not in H.WEIER or any(c[0] == "scalar" and c[1] == cname and c[2] == "G" and c[5] for c in cl) and
                    any(c[0] == "scalar" and c[1] == cname and c[2] == "other" and not c[5] for c in cl),
                    "%s: blinded and unblinded scalar multiplication were not both exercised" % cname)
        ctx.require(("eq", cname, True, True, False) in cl and ("eq", cname, False, False, True) in cl,
                    "%s: equal and unequal pairs were not both observed" % cname)
        ctx.require(any(c[0] == "val" and c[1] == cname and c[2] in ("add", "iadd") and c[3] == "neutral" and c[4] for c in cl),
                    "%s: no addition reached the neutral element" % cname)
        pc = {c[3] for c in a.distinct.get("pairclasses", ()) if c[0] == cname}
        ctx.require(pc >= {"eq", "opp", "gen"}, "%s: pairs did not include equal, opposite and generic operands" % cname)
        ctx.require(any(c[0] == "hist" and c[1] == cname for c in cl), "%s: no history executed" % cname)
    for cname in ("p256", "p384", "p521"):
        ctx.require(any(c[0] in ("scalar", "scalar-exc") and c[1] == cname and c[2] == "G" and c[3] == ">=2^bits" for c in cl),
                    "%s: generator x scalar >= 2^bits (known defect input) was not executed" % cname)
    for cname in H.EDW:
        ctx.require(any(c[0] == "pai" and c[1] == cname and c[2] == "order-2" for c in cl), "%s: order-2 point never examined" % cname)
        ctx.require(any(c[0] == "pai" and c[1] == cname and c[2] == "low-order" for c in cl), "%s: no low-order point examined" % cname)
    for cname in H.MONT:
        ctx.require(any(c[0] == "xscalar" and c[1] == cname and c[2] == "order-2" for c in cl) and
                    any(c[0] == "xscalar" and c[1] == cname and c[2] == "low-order" for c in cl) and
                    any(c[0] == "xscalar" and c[1] == cname and c[5] == "neutral" for c in cl),
                    "%s: low-order inputs / neutral results were not observed" % cname)
        ctx.require(any(c[0] == "xeq" and c[1] == cname and c[4] and c[5] for c in cl) and
                    any(c[0] == "xeq" and c[1] == cname and not c[4] and not c[5] for c in cl), "%s: == never true / never false" % cname)
        ctx.require(("rfciter", cname, 1000) in cl or any(k.startswith("C06/rfc7748") for k in a.viol), "%s: RFC 7748 iteration did not finish" % cname)
    ks = a.distinct.get("ka_schemes", set())
    for cname in X.KA_CURVES:
        for s in ("C(2e,2s)", "C(2e,0s)", "C(1e,2s)U", "C(1e,2s)V", "C(0e,2s)", "C(1e,1s)U", "C(1e,1s)V"):
            ctx.require((cname, s, "ok") in ks or (cname, s, "exc") in ks, "%s: scheme %s not exercised" % (cname, s))
        ctx.require((cname, "illegal", "exc") in ks, "%s: no illegal key combination was refused" % cname)
        ctx.require(any(c[0] == cname for c in a.distinct.get("ka_neutral", ())) or
                    any("neutral-result" in k and cname in k for k in a.viol), "%s: no neutral-result exchange was refused" % cname)
    ctx.require(("cross", False) in cl and ("cross-add", "ValueError") in cl, "cross-curve comparison not executed")
    if deep:
        sw = a.distinct.get("sweep", set())
        ctx.require(a.n.get("sweep_cases", 0) == sweep_expected,
                    "structured scalar sweeps: %d cases executed, %d expected" % (a.n.get("sweep_cases", 0), sweep_expected))
        for cname in R.CURVES:
            for fam, w, steps in H.sweep_families(cname):
                ctx.require((cname, fam, w, True) in sw and (cname, fam, w, False) in sw,
                            "%s: sweep family %s/%d did not run on the shared generator object and on other points" % (cname, fam, w))
        for cname, (w, ntab) in H.GTABLE.items():
            per = len(sweep_points(cname)) if cname not in H.MONT else len(xsweep_points(cname))
            ctx.require(a.n.get("sweep_scalars/%s/digit%d" % (cname, w), 0) >= per * ntab * ((1 << w) - 1),
                        "%s: not every entry of the %d pre-computed generator tables was addressed" % (cname, ntab))
        for cname in X.KA_CURVES:
            for route in X.KA_ROUTES:
                ctx.require((cname, route) in a.distinct.get("ka_routes", ()), "%s: key route %s not exercised" % (cname, route))
        for cname in H.MONT:
            ctx.require(("rfciter", cname, 5000) in cl or any(k.startswith("C06/rfc7748") for k in a.viol), "%s: 5000 RFC 7748 iterations did not finish" % cname)
        for cname in H.WEIER + H.EDW:
            ctx.require(any(c[0] == "hist" and c[1] == cname for c in cl) and a.n.get("hist4/" + cname, 0) > 0, "%s: no depth-4 history executed" % cname)

    ctx.coverage_extra.update({
        "evaluations": a.n.get("evaluations", 0),
        "distinct_nontrivial": len(cl),
        "exhaustive": not a.caps,
        "ordered_pairs": a.n.get("pairs", 0),
        "scalar_cases(point,scalar,seed)": a.n.get("scalar_cases", 0),
        "history_nodes": a.n.get("states", 0), "history_calls": a.n.get("transitions", 0),
        "history_traces": a.n.get("traces", 0), "distinct_reference_points_reached_by_histories": len(a.distinct.get("hist_refstates", ())),
        "point_alphabet": {c: [x[0] for x in ALPHA[c]] for c in ALPHA},
        "xpoint_alphabet": {c: [x[0] for x in XALPHA[c]] for c in XALPHA},
        "scalar_alphabet": {c: [l for l, _ in H.scalar_alphabet(c, q and c not in full, deep=deep)] for c in R.CURVES},
        "scalar_operator_forms": ["P*k", "k*P", "P*=k", "P*Integer(k)"],
        "blinding_seeds": {c: ["0x%x" % s for s in _seeds(c, q)] for c in H.WEIER},
        "history_plan(depth,reduced alphabet,start indices)": {c: [list(map(str, p)) for p in v] for c, v in hist_plan.items()},
        "history_alphabet_sizes": {c: {"full": len(P.hist_ops(c, ALPHA[c], False)), "reduced": len(P.hist_ops(c, ALPHA[c], True))} for c in ALPHA},
        "xhistory": {"plans(depth,reduced alphabet,start indices)": [list(map(str, p)) for p in xplans],
                     "scalars": {"full": [l for l, _ in X.xhist_scalars("curve25519")], "reduced": [l for l, _ in X.xhist_scalars("curve25519", True)]},
                     "starts": [K.rstr(H.MONT[0], r) for r in xhist_starts(H.MONT[0])]},
        "key_agreement": {"curves": list(X.KA_CURVES), "key_sets": nsets, "key_object_routes": list(routes), "subsets": 16, "views": 2,
                          "neutral_u_values": {c: len(X.neutral_us(c)) for c in H.MONT}, "own_key_sets_for_neutral_results": nks,
                          "special_u_values": {c: len(X.special_us(c, deep)) for c in H.MONT},
                          "private_strings_per_special_u": 14 if deep else 4, "rfc7748_iterations": list(iters)},
    })
    if deep:
        ctx.coverage_extra["thorough_extensions"] = {
            "structured_scalar_sweeps": {
                "families": "digit/w: d*2^(w*i) for EVERY window position i < (bits+8)/w+1 and EVERY digit 0 < d < 2^w, w = 4 (run-time window of "
                            "src/ec_ws.c, nibbles of the ladders) and w = window size of the pre-computed generator tables (P-256: 5 bits x 52 "
                            "tables, P-384: 5 x 77, P-521: 4 x 131; one position beyond the tables included); pow2: 2^k-1, 2^k, 2^k+1 for EVERY "
                            "k <= bits+72 (every bit / byte / 64-bit-word length of the scalar)",
                "steps(family,w,steps)": {c: [list(f) for f in H.sweep_families(c)] for c in R.CURVES},
                "scalars_per_point": {c: H.sweep_count(c) for c in R.CURVES},
                "points": dict([(c, [x[0] for x in sweep_points(c)]) for c in ALPHA] + [(c, [x[0] for x in xsweep_points(c)]) for c in XALPHA]),
                "blinding_seeds": {c: ["0x%x" % s for s in _sweep_seeds(c)] for c in H.WEIER},
                "operator_forms": "P*k and P*=k (P*k and k*P on the shared generator object, which must not be mutated)",
                "reference": "addition chain using only the affine group law mc.ref.ec.add (Montgomery: exact affine law on curve / twist); "
                             "the last value of every shard is cross-checked against double-and-add",
                "cases(point,scalar,seed)": a.n.get("sweep_cases", 0),
            },
            "points_in_pairs_and_unary_checks_only": sorted(_PAIR_ONLY),
            "point_alphabet": "per curve +14 small multiples 4G..17G (every entry of the 4-bit run-time window and the next two), one value in several "
                              "projective representations, opposites with z != 1, doubles, three more seeded points, (0,-sqrt(b)); Edwards: "
                              "low-order points with z != 1, G+T2, -(G+Th), n*(G+Th), h*(W0+T2); ALL ordered pairs; ALL (point, scalar, form, seed) except for "
                              "the entries listed under points_in_pairs_and_unary_checks_only",
            "scalar_alphabet": "2^(64j)-1, 2^(64j), 2^(64j)+1 for every word boundary j <= words+1; each 4-bit digit 1..15 repeated over the whole "
                               "width; n-2, n+2, (n-1)/2, (n+1)/2, 2n-1, 2n+1, 3n, (2^32-1)n, 2^32 n, 2^32 n+1, 2^64 n-1, h*n-1, 2hn, n+h; "
                               "2^2048-1, 2^2048, 2^4096+n",
            "blinding_seeds": "10 instead of 5: + 2^32 (blinded path with scalar-blinding factor 0), 2^64-2 (seed+2 wraps to 0), 2^31, "
                              "0xFFFFFFFF00000001, 2^63",
            "histories": "depth 3 over the full operator alphabet from every start (new starts: G with z != 1; Edwards: a point of order h, a "
                         "mixed-order point); depth 4 over the reduced alphabet from G' on EVERY curve (before: only P-256 and Ed25519)",
            "history_starts": {c: [K.rstr(c, r) for r in hist_starts(c)] for c in ALPHA},
            "xpoint_alphabet": "every u from 2 to 32, p-5..p+5, neighbours of 2^(bits-1), 2^255 and of the top of the encoding, -Gu, (p+-1)/2, three "
                               "more seeded points, six more points reached by arithmetic",
            "xhistories": "depth 3 full alphabet from 6 starts (new: non-canonical p+Gu, low-order p-1); depth 4 over the reduced alphabet from 4 starts",
            "key_agreement": "14 key sets instead of 6 (clamping-equivalent strings, extreme and opposite private keys, bit patterns, one key in two "
                             "roles) x 3 key-object routes (construct / reference coordinates or raw import / DER + compressed SEC1 import); neutral "
                             "results with 6 own key sets; special public values x 14 private strings; 5000 RFC 7748 iterations",
        }
    ctx.assume("coordinates and scalars outside the stated alphabets are not covered (value alphabet: boundary values plus "
               "SHAKE256(VERIF_SEED)-derived multiples/scalars)")
    ctx.assume("reference k*P on Weierstrass/Edwards curves is computed as (k mod h*n)*P (validated unreduced on P-192 and Ed25519 at "
               "start-up); the library always receives the unreduced scalar")
    ctx.assume("scalars with leading zero bytes cannot be produced through the Python operators (long_to_bytes strips them); the raw "
               "C entry points are not called directly")
    ctx.assume("the 64-bit blinding seed is owned through the module attribute Crypto.PublicKey._point.getrandbits; only the listed "
               "seed values are explored (0 selects the unblinded path)")
    ctx.assume("RFC 7748 5.2: 1 and 1000 iterations (published constants)%s; 1,000,000 iterations are out of budget"
               % ("" if q else " and 5000 iterations (every step against the reference; no published constant)"))
    ctx.assume("Weierstrass coordinates >= p and the acceptance of invalid points by constructors belong to C05 and are not judged here; "
               "key_agreement with Ed25519/Ed448 keys is outside the property text")
    ctx.assume("comparison of points of different curve families (e.g. Ed25519 vs P-256) is not executed: the C comparison function "
               "of one family would read the other family's structure")


def replay(case, acc):
    p = case["part"]
    c = case.get("curve")
    t = H.tup
    if p == "pair":
        P.check_pair(c, t(case["P"]), t(case["Q"]), acc)
    elif p == "unary":
        P.check_unary(c, t(case["P"]), acc)
    elif p == "scalar":
        P.check_scalar(c, t(case["P"]), case["k"], case["seed"], acc, ops=tuple(case["ops"]))
    elif p == "hist":
        P.run_history(c, t(case["start"]), [t(o) for o in case["ops"]], acc, final=t(case["final"]) if case["final"] else None,
                      check_all=False)
    elif p == "xscalar":
        X.check_xscalar(c, t(case["P"]), case["k"], acc, ops=tuple(case["ops"]) if case.get("ops") else X.XOPS)
    elif p == "xpair":
        X.check_xpair(c, t(case["P"]), t(case["Q"]), acc)
    elif p == "xunary":
        X.check_xunary(c, t(case["P"]), acc)
    elif p == "xhist":
        X.run_xhistory(c, t(case["start"]), case["ks"], acc)
    elif p == "ka":
        X.check_ka(c, case["keyset"], case["nsets"], acc, route=case.get("route", "construct"))
    elif p == "kaneutral":
        X.check_ka_neutral(c, case["u"], acc, nks=case.get("nks", 2))
    elif p == "xdhspecial":
        X.check_xdh_special(c, case["u"], acc, deep=bool(case.get("deep")))
    elif p == "rfciter":
        X.check_rfc7748_iter(c, case["iters"], acc)
    elif p == "cross":
        X.check_cross(case["c1"], case["c2"], acc)
    else:
        acc.error("unknown replay part %r" % (p,))
