"""C14 - big-integer arithmetic is exact in every back-end; primality tests are sound.

Bounded-exhaustive exploration (ShapeExplorer) of four finite grids against the REAL library:

  part A  IntegerGMP / IntegerCustom / IntegerNative, imported directly, each compared with exact Python
          int arithmetic on the operand alphabet V of DESIGN (all ordered pairs) x every binary operator
          (out-of-place, in-place, right operand Integer / int / the same object), unary operations,
          shifts, byte conversions, pow with odd / even / 1 moduli of every word count 1..33, modular
          inverse, gcd/lcm, Jacobi symbol, integer and modular square roots (ALL residues modulo every
          prime < 200, seeded residues modulo the curve primes), _mult_modulo_bytes; plus complete
          small-scope boxes (every pair of a small interval)                       (_c14_int)
  part B  Primality.test_probable_prime / miller_rabin_test / lucas_test and number.isPrime on EVERY
          integer of [0, 2^17) against a sieve, on every (n, base) pair for small n, and on generated
          adversarial families; Miller-Rabin bases are dictated by a randfunc tape   (_c14_prim)
  part C  generate_probable_prime / generate_probable_safe_prime / getPrime / getStrongPrime on explicit
          entropy tapes: exact bit size, primality by the reference, refusal of undersized requests
  part D  legacy number.ceil_div / size / GCD / inverse on V x V and a small box

The thorough tier additionally enumerates (all complete, see _deep_grid and the constants of _c14_int / _c14_prim):
EVERY operand bit size 1..4160, EVERY modulus bit length 2..640, word counts up to 129 and five more limb patterns per
word count, EVERY exponent 0..4095, every (exponent, modulus) byte-length pair up to 48 x 48, single-limb terms at every
pair of limb positions, the curve primes with every 32-bit limb pattern, Tonelli-Shanks for every 2-adicity 1..64 and
every prime size 3..256 in every class mod 8, all residues modulo EVERY modulus up to 400; primality on [0, 2^18), all
bases below 3072, every square below 2^24, composites and primes around every boundary of the Miller-Rabin iteration
table (up to 3701 bits), isPrime's false_positive_prob; prime generation for every size 160..400 (and around the table
boundaries up to 2048 bits) under all three back-ends, getPrime for every size 2..320, getStrongPrime for every
documented size x four e.
"""
import time

from ..common import Acc, chunks
from . import _c16_int as I
from . import _c14_int as A
from . import _c14_prim as P
from . import _c14_sub as S

LEVEL = "exploration"
RULE = ("complete enumeration of the stated grids; every case is executed on the real library and compared with "
        "exact arithmetic (Python int, math.isqrt, pow, mc.ref.nt). A case is distinct by (part, operation, operands, "
        "operand form, back-end) resp. (test, candidate, base strategy); distinct_nontrivial counts the distinct "
        "behaviour classes actually observed: integers (operation, structural tag, operand form, expected kind, "
        "observed value/exception class, verdict class), primality (test, prime/composite/unit, verdict, family, base "
        "strategy, bases drawn), generation (function, outcome, size class), legacy helpers (function, expected kind, "
        "observed class)")
BUDGET = {"quick": 240, "thorough": 1800}


def worker(shards):
    acc = Acc()
    for sh in shards:
        if sh[0] == "int":
            A.int_worker(sh, acc)
        elif sh[0] == "prim":
            P.prim_worker(sh, acc)
        elif sh[0] == "gen":
            P.gen_case(sh[1], sh[2], sh[3], acc, sh[4])
        elif sh[0] == "legacy":
            P.legacy_worker(sh, acc)
        elif sh[0] == "sub":
            S.sub_run(sh[1], "shards", sh[2], acc)
        else:
            acc.error("unknown shard %r" % (sh,))
    return acc


def all_shards(q):
    """every shard of the run, heaviest kinds first (child processes, primality, integers, generation, legacy)"""
    gen = P.gen_shards(q)
    nV = len(A.alphabet(q))
    shards = [[("sub", cfg, b)] for b in P.child_shards(q) for cfg in S.CONFIGS]
    shards += [[s] for s in P.prim_shards(q)]
    shards += [[s] for s in A.int_shards(q)]
    shards += [c for c in chunks(gen, 24 if q else 96)]
    shards += [[("legacy", "grid", i, q)] for i in range(nV)]
    shards += [[("legacy", "box", q)]] if q else [[("legacy", "box", i, P.LEGACY_BOX_SHARDS, q)]
                                                  for i in range(P.LEGACY_BOX_SHARDS)]
    return shards


def run(ctx):
    q = ctx.quick
    a = ctx.acc
    # ---- seams and references ------------------------------------------------------------------
    try:
        names = [n for n, _ in I.backends()]
        from Crypto.Math import Primality, Numbers
        from Crypto.Util import number
        for f in ("test_probable_prime", "miller_rabin_test", "lucas_test", "generate_probable_prime",
                  "generate_probable_safe_prime"):
            getattr(Primality, f)
        for f in ("getPrime", "isPrime", "inverse", "GCD", "ceil_div", "size", "getStrongPrime"):
            getattr(number, f)
    except Exception as e:  # noqa
        a.error("harness cannot reach seam Crypto.Math._Integer{GMP,Custom,Native} / Primality / Util.number: %r" % (e,))
        return
    from ..ref import nt
    try:
        nt.selftest()
    except Exception as e:  # noqa
        a.error("mc.ref.nt selftest failed: %r" % (e,))
        return
    selected = Numbers.Integer.__name__

    phases = {}
    ctx.coverage_extra["phase_wall_s"] = phases

    def timed(name, shards):
        t = time.time()
        ctx.pmap(worker, shards)
        phases[name] = round(time.time() - t, 1)

    timed("all", all_shards(q))

    # ---- vacuity guards -----------------------------------------------------------------------------
    d = a.distinct
    ic = d.get("int_classes", set())
    verdicts = set(c[5] for c in ic)
    ctx.require({"exact", "documented-exception", "refused-composite-modulus"} <= verdicts,
                "integer part saw verdict classes %s only" % sorted(verdicts))
    obs = set(c[4] for c in ic)
    ctx.require({"v", "x:ValueError", "x:ZeroDivisionError"} <= obs, "integer part saw outcomes %s only" % sorted(obs))
    ctx.require(set(c[2] for c in ic) == {"I", "i", "A"}, "not all operand forms (Integer, int, aliased) were run")
    ctx.require(len(set(c[0] for c in ic)) >= 40, "fewer than 40 distinct operations exercised")
    ctx.require(len(ic) >= 150, "integer part: fewer than 150 behaviour classes (%d)" % len(ic))
    tags = d.get("int_tags", set())
    for t in (("pow", "modulus-1"), ("pow", "negative-base-odd-modulus"), ("_mult_modulo_bytes", "modulus-1"),
              ("rshift", "negative-value-inexact"), ("lshift", "count-ge-65536"), ("pow", "no-modulus-exponent-gt-256"),
              ("rshift", "count-gt-65536-value-wider"), ("get_bit", "index-gt-65536-bit-set")):
        ctx.require(t in tags, "the inputs of the known defect %s/%s were not enumerated" % t)
    pc = d.get("prim_classes", set())
    for fn in ("tpp", "mr", "lucas", "isPrime"):
        ctx.require((fn, "prime", True) in set(c[:3] for c in pc), "%s never accepted a prime" % fn)
        ctx.require((fn, "composite", False) in set(c[:3] for c in pc), "%s never rejected a composite" % fn)
        ctx.require(any(c[0] == fn and c[1] == "unit" for c in pc), "%s never saw 0 or 1" % fn)
    legit = d.get("prim_legit", set())
    ctx.require(any(x[0] == "lucas" for x in legit) and any(x[0] == "mr" for x in legit),
                "no pseudoprime passed its own single test: the adversarial families/tapes are not adversarial "
                "(legit passes: %s)" % sorted(legit))
    ctx.require(set(d.get("families", ())) == set(P.families(q)), "families missing: %s"
                % sorted(set(P.families(q)) - set(d.get("families", ()))))
    ctx.require(a.n.get("family_members", 0) >= (300 if q else 25000), "fewer adversarial composites than expected (%d)"
                % a.n.get("family_members", 0))
    ctx.require(a.n.get("range_composites_with_liars", 0) >= (300 if q else 4000),
                "too few composites of the exhaustive range have a liar tape")
    ctx.require(a.n.get("prim_allbases", 0) >= (10000 if q else 2500000), "all-bases Miller-Rabin sweep too small")
    if not q:
        _deep_guards(ctx, d, pc)
    sb = dict(d.get("sub_backends", ()))
    ctx.coverage_extra["primality_backends"] = dict(sb, default=selected)
    ctx.require(set(sb) == set(S.CONFIGS), "primality child processes did not all run: %s" % sb)
    for cfg in S.CONFIGS:
        ctx.require(sb.get(cfg) in S.EXPECTED[cfg], "configuration %s selected the integer back-end %s" % (cfg, sb.get(cfg)))
    if selected != "IntegerGMP":
        ctx.assume("libgmp could not be loaded: Primality is not covered on the GMP back-end")
    if sb.get("nogmp") != "IntegerCustom":
        ctx.assume("the custom C back-end could not be selected: Primality is not covered on it")
    for cfg in S.CONFIGS:
        ctx.require(any(c[0] == "tpp" and c[1] == "prime" and c[2] and c[-1] == cfg for c in pc) and
                    any(c[0] == "lucas" and c[1] == "composite" and not c[2] and c[-1] == cfg for c in pc),
                    "primality under configuration %s is vacuous" % cfg)
    gc = d.get("gen_classes", set())
    ctx.require(any(c[1] == "refused" and not c[2] for c in gc) and any(c[1] == "generated" for c in gc),
                "prime generation: no refusal or no generated prime observed")
    gs = d.get("gen_sizes", ())
    ctx.require(len(gs) >= (40 if q else 3 * len(P.GEN_BITS_FULL) + len(P.GETPRIME_BITS) + 3 * len(P.GEN_SAFE_BITS) + 8),
                "prime generation: too few (function, size, configuration) triples (%d)" % len(gs))
    if not q:
        for cfg in ("default",) + S.CONFIGS:
            miss = [b for b in P.GEN_BITS_FULL if ("generate_probable_prime", b, cfg) not in gs]
            ctx.require(not miss, "generate_probable_prime under %s: no prime generated for the sizes %s" % (cfg, miss[:8]))
        ctx.require(all(("getStrongPrime", b, "default") in gs for b in (512, 640, 768, 896, 1024, 2048)),
                    "getStrongPrime: not every size produced a prime")
    lc = d.get("legacy_classes", set())
    ctx.require(set(c[2] for c in lc) >= {"v", "ValueError", "ZeroDivisionError"}, "legacy helpers: outcome classes %s"
                % sorted(set(c[2] for c in lc)))

    Vv = A.alphabet(q)
    ctx.coverage_extra.update({
        "evaluations": a.n.get("evaluations", 0),
        "distinct_nontrivial": sum(len(d.get(k, ())) for k in ("int_classes", "prim_classes", "gen_classes",
                                                               "legacy_classes")),
        "exhaustive": not a.caps,
        "primality_backend": selected,
        "grid": {
            "A-integers": {
                "backends": names, "operand_alphabet_size": len(Vv), "k": list(A.KS_QUICK if q else A.KS_FULL) + [16],
                "operations": len(A.OPS), "binary_ops_on_all_ordered_pairs": len(A.BIN_OPS),
                "operand_forms": ["Integer", "int", "aliased (same object, diagonal pairs)"],
                "small_box": "all pairs of [-%d, %d] x binary ops, shifts -2..12, pow 0..12" % (A.SMALL_R[q], A.SMALL_R[q]),
                "small_boxes_complete": {k: "%d..%d" % (v[0 if q else 1][0], v[0 if q else 1][-1]) for k, v in A.BOX.items()},
                "moduli_word_counts": list(A.WORDS_QUICK if q else A.WORDS_FULL), "moduli_per_word_count": 6,
                "moduli_total": len(A.moduli_all(q)), "shift_counts": list(A.SHIFTS),
                "sqrt_mod": "all residues -2..p+1 modulo %s; %d seeded residues "
                            "(and squares, negated squares) modulo each of %d curve primes"
                            % ("every prime < 200 and 17 non-prime moduli" if q else
                               "EVERY modulus -2..%d, prime or not" % A.SQRT_BOX_TOP, 6 if q else 24, len(A.CURVE_PRIMES)),
                "isqrt_range": "every n < 2^%d" % (13 if q else 17),
                "cases": a.n.get("int_cases", 0), "pow_cost_restriction_skipped": a.n.get("int_pow_skipped_cost", 0),
                "soft_mismatches_outside_documented_domain": a.n.get("int_soft_mismatches", 0),
                "thorough_only_dimensions": None if q else _deep_grid(d)},
            "B-primality": {
                "range": "every n in [0, 2^%d) x (lucas, tpp x 2-3 tapes, mr x 3-4 (iterations, tape), isPrime)%s"
                         % (13 if q else 18, "" if q else "; the child processes (other two back-ends) cover [0, 2^17)"),
                "all_bases": "every odd n < %d x every base in [2, n-2], one round%s"
                             % (256 if q else P.ALLBASES_TOP, "" if q else " (child processes: n < 1024)"),
                "families": list(P.families(q)), "family_members": a.n.get("family_members", 0),
                "family_squares": None if q else "every k^2, 2 <= k < %d (k prime or not)" % P.SQUARES_TOP,
                "family_mr_table": None if q else
                    "boundaries %s of test_probable_prime's iteration table: for each size B-1, B, B+1 a product of two "
                    "adjacent primes of exactly that size, the square of its smaller factor, and (prime list) the first "
                    "prime of exactly that size; plus the Mersenne primes M2281..M4423 above the last boundary"
                    % (list(P.MR_TABLE),),
                "big_primes": len(P.big_prime_specs(q)),
                "tapes": {"test_probable_prime": list(P.TPP_STRATS), "miller_rabin_test(iterations, tape)": list(P.MR_GRID),
                          "isPrime": ["small", "seed0", "liar"] if q else
                                     ["small", "seed0", "liar", "false_positive_prob 0.3 (1 round) x small, liar",
                                      "false_positive_prob 1e-30 (50 rounds) x seed0, liar/top"],
                          "meaning": "small = 2,3,5,7,..; seedN = SHAKE256(VERIF_SEED)-derived bases in [2,n-2]; top = "
                                     "n-2,n-3,..; liar = strong liars of n found by the reference (cycled)"},
                "cases": a.n.get("prim_cases", 0) + a.n.get("prim_allbases", 0),
                "primes_accepted": a.n.get("prim_primes_accepted", 0),
                "composites_rejected": a.n.get("prim_composites_rejected", 0),
                "legitimate_pseudoprime_passes": a.n.get("prim_legit_pseudoprime_passes", 0)},
            "C-generation": dict({"cases": a.n.get("gen_cases", 0),
                                  "generate_probable_prime_bits": P.GEN_BITS_QUICK if q else
                                  "every size 160..400 and %s" % (P.GEN_BITS_FULL[241:],),
                                  "tapes_per_size": 1 if q else "%d up to 400 bits, %d up to 1201 bits, 1 above"
                                                                     % (P.GEN_TAPES_FULL, P.GEN_TAPES_BIG)},
                                 **({} if q else {
                                     "prime_filter_bits": list(P.GEN_FILTER_BITS), "safe_prime_bits (2 tapes)": list(P.GEN_SAFE_BITS),
                                     "getPrime_bits (2 tapes)": "every size 2..320 and %s" % (P.GETPRIME_BITS[319:],),
                                     "getStrongPrime (bits, e)": [list(x) for x in P.STRONG_GRID],
                                     "distinct (function, size, back-end configuration) with a generated prime": len(gs)})),
            "D-legacy": {"cases": a.n.get("legacy_cases", 0),
                         "box": "all pairs of %d..%d" % (P.LEGACY_BOX[0 if q else 1][0], P.LEGACY_BOX[0 if q else 1][-1]),
                         "word_moduli": None if q else "inverse/GCD/ceil_div against the 6+5 limb patterns of every word count "
                                                       "1..33 and %s" % (list(A.WORDS_BIG),)},
        },
    })
    ctx.assume("operand VALUES are limited to the boundary alphabet V (0, +-1, +-2, +-(2^k-1), +-2^k, +-(2^k+1), seeded "
               "300/1100/2100-bit values), the complete small boxes and the structured/seeded moduli; only shapes (sizes, "
               "signs, word counts, operand forms) are enumerated completely%s"
               % ("" if q else "; the every-size sweeps of the thorough tier use +-(2^k-1), +-2^k, +-(2^k+1) per size and "
                               "structured (all-ones, sparse, single-limb) or seeded values per modulus"))
    ctx.assume("only VALUES are compared (int(result), bytes, truth value); result types (int vs Integer, bool vs int, "
               "self vs None) and exception messages are not - type agreement between back-ends is property C16")
    ctx.assume("a zero modulus/divisor must raise ZeroDivisionError, every other undefined case ValueError (the classes "
               "the three back-ends use for these cases); operands violating two rules may raise either")
    ctx.assume("modular pow with an exponent above 66 bits is crossed only with selected bases and the core moduli (1, 2, "
               "17 words in quick; 1..33 words by powers of two in thorough)%s"
               % (", exponents above 130 bits with moduli of at most 4 (cost bound; counted in pow_cost_restriction_skipped)"
                  if q else "; word counts above 33 (up to 129) meet exponents up to 65 bits and one full-size exponent"))
    ctx.assume("left shifts by more than 70000 bits are not executed (result size); operands wider than 65536 bits are "
               "used only for right shifts, get_bit and size_in_bits")
    ctx.assume("size_in_bits(0) = size_in_bytes(0) = 1 is taken as the library's convention; get_bit / "
               "_mult_modulo_bytes / fail_if_divisible_by outside their documented domains are logged, not judged")
    ctx.assume("modular square roots with a composite modulus: the docstring of _tonelli_shanks allows either ValueError "
               "or a correct root; a wrong root is a violation, a refusal is not")
    ctx.assume("Primality and prime generation run on the back-end selected by Crypto.Math.Numbers (%s) in the driver "
               "process and are repeated in child processes under PYCRYPTODOME_DISABLE_GMP=1 (%s) and with the GMP and "
               "custom modules made unimportable (%s)%s" % (selected, sb.get("nogmp"), sb.get("native"),
               "; in quick the children cover [0, 2^12), all families, the prime list and 4 generation sizes" if q else
               "; the children cover [0, 2^17), all bases below 1024, all families, the prime list and every "
               "generate_probable_(safe_)prime case"))
    ctx.assume("primes above 3.3e24 (generated primes, large members of the prime list) are certified by mc.ref.nt.is_prime = "
               "13 fixed Miller-Rabin bases + strong Lucas (no known counterexample), not by a primality proof")
    ctx.assume("a composite declared probably prime is accepted as the algorithm's documented error case only when EVERY "
               "Miller-Rabin base on the tape is a strong liar (and, for test_probable_prime, n is also a Lucas "
               "pseudoprime); random bases from the system RNG are never used")
    ctx.assume("getStrongPrime draws its Miller-Rabin bases from the system RNG (randfunc is not forwarded): only size, "
               "primality and coprimality to e of its result are checked, not determinism")
    ctx.assume("Integer.random / random_range are not covered here (C18)")


def _deep_grid(d):
    """description of the thorough-only integer dimensions (all complete enumerations)"""
    return {
        "operand_bit_sizes": "EVERY k in 1..%d: +-(2^k-1), +-2^k, +-(2^k+1) x 15 unary operations (sqrt and is_perfect_square "
                             "of the positive values: every k <= %d, above it k = 64w-1, 64w, 64w+1 only), to_bytes (lengths 0, "
                             "need-1, need, need+1, next multiple of 8, +8; both orders), from_bytes (0/1/8 leading zero "
                             "bytes; 3 buffer types), shifts and get_bit by 1, 63, 64, 65, k-1, k, k+1"
                             % (A.BITS_TOP, A.BITS_SQRT_TOP),
        "operand_bit_sizes_binary": "every k in 1..%d and 64w-1, 64w, 64w+1 for every word count w <= %d (%d sizes) x the six "
                                    "values x 30 binary operators x partners (1, -65536, 2^32+1, -(2^64-1), (a>>1)|1, a "
                                    "seeded odd value of the same size, negation, itself/aliased) in both orders, Integer "
                                    "and int right operands"
                                    % (A.BITS_BIN_TOP, A.BITS_TOP // 64, len(A.bits_bin_sizes())),
        "modulus_bit_lengths": "EVERY bit length 2..%d (every byte length 1..%d, every top-bit position) x 5 moduli (all-ones, "
                               "sparse, seeded odd; 2^n-2, 2^(n-1) even) x 10 bases x 21 exponents (0..3, 15..17, 255..257, "
                               "65535..65537, 2^64-1, 2^64, (m-1)/2, m-1, m, 2^n+1, seeded n and n+72 bits) for pow; 10x10 "
                               "terms for _mult_modulo_bytes; 8 values for inverse" % (A.MODBITS_TOP, A.MODBITS_TOP // 8),
        "word_counts_beyond_33": {"words": list(A.WORDS_BIG), "moduli_per_word_count": "6 + 5 limb patterns",
                                  "bases": 14, "exponents": 15, "full_size_exponent": "m-1 on the 4 principal patterns"},
        "further_limb_patterns": "5 more modulus patterns (low limb 1, top limb 1, zero middle limbs, even with zero low "
                                 "limb, seeded with 8-bit top limb) for every word count 1..33 x 14 bases x every exponent of "
                                 "V up to 66 bits; 10x10 terms for _mult_modulo_bytes",
        "exponent_sweep": "EVERY exponent 0..%d (all triples of 4-bit window digits) x %d moduli (1..17 words, curve "
                          "primes, even) x 4 bases" % (A.EXP_SWEEP_TOP - 1, len(A.exp_sweep_moduli())),
        "exponent_x_modulus_byte_lengths": "every pair of 1..%d x 1..%d bytes x 4 exponents x 3 moduli x 3 bases"
                                           % (A.EXPLEN_TOP, A.EXPLEN_TOP),
        "limb_position_pairs": "word counts 1..%d: terms 1, 2^63, 2^64-1 in limb i and 2^(64(i+1))-1, ALL ordered pairs of "
                               "terms x every odd modulus pattern (_mult_modulo_bytes); squares, cubes, 17th powers"
                               % A.LIMB_WORDS,
        "curve_prime_limbs": "7 curve primes: terms with one 32-bit limb set / all-ones / cleared at every position, ALL "
                             "ordered pairs (_mult_modulo_bytes), pow with 2, 3, (p-1)/2, p-2, inverse; the odd neighbours "
                             "p-2, p+2 (generic reduction at the same size): 14 bases x 10 exponents, 10x10 terms",
        "tonelli_shanks": "primes c*2^s+1 of EVERY 2-adicity s = 1..%d and the first prime of every bit size 3..%d in every "
                          "class mod 8 x 7 fixed + 9 seeded residues" % (A.TWO_ADICITY_TOP, A.SQRT_BITS_TOP),
        "shift_box": "every count / bit index -1..%d x every value of V below 130 bits" % A.SHIFT_BOX,
        "from_bytes_lengths": "every length 0..300 x 6 patterns x both orders",
        "pow_wide_exponents": "no cost restriction: every exponent of V above 66 bits x 14 bases x every core modulus",
        "values_enumerated": {k: len(set(v for dd, v in d.get("int_dims", ()) if dd == k))
                              for k in sorted(set(dd for dd, _ in d.get("int_dims", ())))},
    }


def _deep_guards(ctx, d, pc):
    """the dimensions of the thorough tier were enumerated completely (sets of the values actually executed)"""
    dims = {}
    for dim, val in d.get("int_dims", ()):
        dims.setdefault(dim, set()).add(val)
    want = {
        "bits": set(range(1, A.BITS_TOP + 1)), "bits-bin": set(A.bits_bin_sizes()),
        "bits-sqrt": set(k for k in range(1, A.BITS_TOP + 1) if k <= A.BITS_SQRT_TOP or (k + 1) % 64 <= 2),
        "modbits": set(range(2, A.MODBITS_TOP + 1)), "words-big": set(A.WORDS_BIG), "patterns": set(A.WORDS_FULL),
        "exp-sweep": set(A.exp_sweep_moduli()), "limbs": set(range(1, A.LIMB_WORDS + 1)),
        "explen": set((i, j) for i in range(1, A.EXPLEN_TOP + 1) for j in range(1, A.EXPLEN_TOP + 1)),
        "curve-limbs": set(n for n, _ in A.CURVE_PRIMES), "sqrt-2-adicity": set(range(1, A.TWO_ADICITY_TOP + 1)),
        "shift-box": set(range(-1, A.SHIFT_BOX + 1)), "conv-sweep": set(range(0, 301)),
    }
    for dim, w in want.items():
        ctx.require(dims.get(dim, set()) == w, "thorough dimension %s: %d of %d values were enumerated"
                    % (dim, len(dims.get(dim, ())), len(w)))
    sb = dims.get("sqrt-bits-class", set())
    ctx.require(len(sb) >= 4 * (A.SQRT_BITS_TOP - 6) and set(r for _, r in sb) == {1, 3, 5, 7},
                "Tonelli-Shanks: primes of every size in every class mod 8 expected (%d)" % len(sb))
    mt = d.get("mr_table_sizes", set())
    sizes = set(b + x for b in P.MR_TABLE for x in (-1, 0, 1))
    for kind in ("prime", "composite"):
        ctx.require(set(s for k, s in mt if k == kind) >= sizes, "Miller-Rabin table boundaries: %ss of the sizes %s missing"
                    % (kind, sorted(sizes - set(s for k, s in mt if k == kind))))
    for cfg in ("default",) + S.CONFIGS:
        ctx.require(any(c[0] == "tpp" and c[1] == "prime" and c[2] and c[3] == "prime" and c[-1] == cfg for c in pc),
                    "no large prime was accepted under configuration %s" % cfg)
    ctx.require(any(c[0] == "isPrime" and c[1] == "composite" and not c[2] for c in pc) and
                ctx.acc.n.get("prim_isprime_fpp", 0) > 0, "isPrime(false_positive_prob=...) was not exercised")


def replay(case, acc):
    part = case["part"]
    if part == "int":
        A.int_case(case["op"], tuple(A.dec_val(v) for v in case["vals"]), case["form"], acc)
    elif part in ("prim", "gen"):
        if case.get("cfg", "default") != "default":
            S.sub_run(case["cfg"], "case", case, acc)        # under the integer back-end it was found with
        else:
            P.replay_case(case, acc)
    elif part == "legacy":
        P.legacy_case(case["fn"], case["a"], case["b"], acc)
    else:
        acc.error("unknown replay part %r" % (part,))
