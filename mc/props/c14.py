"""C14 - big-integer arithmetic is exact in every back-end; primality tests are sound.

Bounded-exhaustive exploration (ShapeExplorer) of four finite grids against the REAL library:

  part A  IntegerGMP / IntegerCustom / IntegerNative, imported directly, each compared with exact Python
          int arithmetic on the operand alphabet V of DESIGN (all ordered pairs) x every binary operator
          (out-of-place, in-place, right operand Integer / int / the same object), unary operations,
          shifts, byte conversions, pow with odd / even / 1 moduli of every word count 1..33, modular
          inverse, gcd/lcm, Jacobi symbol, integer and modular square roots (ALL residues modulo every
          prime < 200, seeded residues modulo the curve primes), _mult_modulo_bytes; plus complete
          small-scope boxes (every pair of a small interval)                       (_c14_int)
  part B  Primality.test_probable_prime / miller_rabin_test / lucas_test and number.isPrime on EVERY
          integer of [0, 2^17) against a sieve, on every (n, base) pair for small n, and on generated
          adversarial families; Miller-Rabin bases are dictated by a randfunc tape   (_c14_prim)
  part C  generate_probable_prime / generate_probable_safe_prime / getPrime / getStrongPrime on explicit
          entropy tapes: exact bit size, primality by the reference, refusal of undersized requests
  part D  legacy number.ceil_div / size / GCD / inverse on V x V and a small box
"""
import time

from ..common import Acc, chunks
from . import _c16_int as I
from . import _c14_int as A
from . import _c14_prim as P
from . import _c14_sub as S

LEVEL = "exploration"
RULE = ("complete enumeration of the stated grids; every case is executed on the real library and compared with "
        "exact arithmetic (Python int, math.isqrt, pow, mc.ref.nt). A case is distinct by (part, operation, operands, "
        "operand form, back-end) resp. (test, candidate, base strategy); distinct_nontrivial counts the distinct "
        "behaviour classes actually observed: integers (operation, structural tag, operand form, expected kind, "
        "observed value/exception class, verdict class), primality (test, prime/composite/unit, verdict, family, base "
        "strategy, bases drawn), generation (function, outcome, size class), legacy helpers (function, expected kind, "
        "observed class)")
BUDGET = {"quick": 240, "thorough": 1800}


def worker(shards):
    acc = Acc()
    for sh in shards:
        if sh[0] == "int":
            A.int_worker(sh, acc)
        elif sh[0] == "prim":
            P.prim_worker(sh, acc)
        elif sh[0] == "gen":
            P.gen_case(sh[1], sh[2], sh[3], acc, sh[4])
        elif sh[0] == "legacy":
            P.legacy_worker(sh, acc)
        elif sh[0] == "sub":
            S.sub_run(sh[1], "shards", sh[2], acc)
        else:
            acc.error("unknown shard %r" % (sh,))
    return acc


def run(ctx):
    q = ctx.quick
    a = ctx.acc
    # ---- seams and references ------------------------------------------------------------------
    try:
        names = [n for n, _ in I.backends()]
        from Crypto.Math import Primality, Numbers
        from Crypto.Util import number
        for f in ("test_probable_prime", "miller_rabin_test", "lucas_test", "generate_probable_prime",
                  "generate_probable_safe_prime"):
            getattr(Primality, f)
        for f in ("getPrime", "isPrime", "inverse", "GCD", "ceil_div", "size", "getStrongPrime"):
            getattr(number, f)
    except Exception as e:  # noqa
        a.error("harness cannot reach seam Crypto.Math._Integer{GMP,Custom,Native} / Primality / Util.number: %r" % (e,))
        return
    from ..ref import nt
    try:
        nt.selftest()
    except Exception as e:  # noqa
        a.error("mc.ref.nt selftest failed: %r" % (e,))
        return
    selected = Numbers.Integer.__name__

    phases = {}
    ctx.coverage_extra["phase_wall_s"] = phases

    def timed(name, shards):
        t = time.time()
        ctx.pmap(worker, shards)
        phases[name] = round(time.time() - t, 1)

    gen = P.gen_shards(q)
    nV = len(A.alphabet(q))
    shards = [[("sub", cfg, b)] for b in P.child_shards(q) for cfg in S.CONFIGS]
    shards += [[s] for s in P.prim_shards(q)]
    shards += [[s] for s in A.int_shards(q)]
    shards += [c for c in chunks(gen, 24 if q else 64)]
    shards += [[("legacy", "grid", i, q)] for i in range(nV)] + [[("legacy", "box", q)]]
    timed("all", shards)

    # ---- vacuity guards -----------------------------------------------------------------------------
    d = a.distinct
    ic = d.get("int_classes", set())
    verdicts = set(c[5] for c in ic)
    ctx.require({"exact", "documented-exception", "refused-composite-modulus"} <= verdicts,
                "integer part saw verdict classes %s only" % sorted(verdicts))
    obs = set(c[4] for c in ic)
    ctx.require({"v", "x:ValueError", "x:ZeroDivisionError"} <= obs, "integer part saw outcomes %s only" % sorted(obs))
    ctx.require(set(c[2] for c in ic) == {"I", "i", "A"}, "not all operand forms (Integer, int, aliased) were run")
    ctx.require(len(set(c[0] for c in ic)) >= 40, "fewer than 40 distinct operations exercised")
    ctx.require(len(ic) >= 150, "integer part: fewer than 150 behaviour classes (%d)" % len(ic))
    tags = d.get("int_tags", set())
    for t in (("pow", "modulus-1"), ("pow", "negative-base-odd-modulus"), ("_mult_modulo_bytes", "modulus-1"),
              ("rshift", "negative-value-inexact"), ("lshift", "count-ge-65536"), ("pow", "no-modulus-exponent-gt-256"),
              ("rshift", "count-gt-65536-value-wider"), ("get_bit", "index-gt-65536-bit-set")):
        ctx.require(t in tags, "the inputs of the known defect %s/%s were not enumerated" % t)
    pc = d.get("prim_classes", set())
    for fn in ("tpp", "mr", "lucas", "isPrime"):
        ctx.require((fn, "prime", True) in set(c[:3] for c in pc), "%s never accepted a prime" % fn)
        ctx.require((fn, "composite", False) in set(c[:3] for c in pc), "%s never rejected a composite" % fn)
        ctx.require(any(c[0] == fn and c[1] == "unit" for c in pc), "%s never saw 0 or 1" % fn)
    legit = d.get("prim_legit", set())
    ctx.require(any(x[0] == "lucas" for x in legit) and any(x[0] == "mr" for x in legit),
                "no pseudoprime passed its own single test: the adversarial families/tapes are not adversarial "
                "(legit passes: %s)" % sorted(legit))
    ctx.require(set(d.get("families", ())) == set(P.FAMILIES), "families missing: %s"
                % sorted(set(P.FAMILIES) - set(d.get("families", ()))))
    ctx.require(a.n.get("family_members", 0) >= (300 if q else 900), "fewer adversarial composites than expected (%d)"
                % a.n.get("family_members", 0))
    ctx.require(a.n.get("range_composites_with_liars", 0) >= (300 if q else 2000),
                "too few composites of the exhaustive range have a liar tape")
    ctx.require(a.n.get("prim_allbases", 0) >= (10000 if q else 1000000), "all-bases Miller-Rabin sweep too small")
    sb = dict(d.get("sub_backends", ()))
    ctx.coverage_extra["primality_backends"] = dict(sb, default=selected)
    ctx.require(set(sb) == set(S.CONFIGS), "primality child processes did not all run: %s" % sb)
    for cfg in S.CONFIGS:
        ctx.require(sb.get(cfg) in S.EXPECTED[cfg], "configuration %s selected the integer back-end %s" % (cfg, sb.get(cfg)))
    if selected != "IntegerGMP":
        ctx.assume("libgmp could not be loaded: Primality is not covered on the GMP back-end")
    if sb.get("nogmp") != "IntegerCustom":
        ctx.assume("the custom C back-end could not be selected: Primality is not covered on it")
    for cfg in S.CONFIGS:
        ctx.require(any(c[0] == "tpp" and c[1] == "prime" and c[2] and c[-1] == cfg for c in pc) and
                    any(c[0] == "lucas" and c[1] == "composite" and not c[2] and c[-1] == cfg for c in pc),
                    "primality under configuration %s is vacuous" % cfg)
    gc = d.get("gen_classes", set())
    ctx.require(any(c[1] == "refused" and not c[2] for c in gc) and any(c[1] == "generated" for c in gc),
                "prime generation: no refusal or no generated prime observed")
    ctx.require(len(d.get("gen_sizes", ())) >= (40 if q else 100), "prime generation: too few (function, size) pairs")
    lc = d.get("legacy_classes", set())
    ctx.require(set(c[2] for c in lc) >= {"v", "ValueError", "ZeroDivisionError"}, "legacy helpers: outcome classes %s"
                % sorted(set(c[2] for c in lc)))

    Vv = A.alphabet(q)
    ctx.coverage_extra.update({
        "evaluations": a.n.get("evaluations", 0),
        "distinct_nontrivial": sum(len(d.get(k, ())) for k in ("int_classes", "prim_classes", "gen_classes",
                                                               "legacy_classes")),
        "exhaustive": not a.caps,
        "primality_backend": selected,
        "grid": {
            "A-integers": {
                "backends": names, "operand_alphabet_size": len(Vv), "k": list(I.KS_QUICK if q else I.KS_FULL) + [16],
                "operations": len(A.OPS), "binary_ops_on_all_ordered_pairs": len(A.BIN_OPS),
                "operand_forms": ["Integer", "int", "aliased (same object, diagonal pairs)"],
                "small_box": "all pairs of [-%d, %d] x binary ops, shifts -2..12, pow 0..12" % (A.SMALL_R[q], A.SMALL_R[q]),
                "moduli_word_counts": list(A.WORDS_QUICK if q else A.WORDS_FULL), "moduli_per_word_count": 6,
                "moduli_total": len(A.moduli_all(q)), "shift_counts": list(A.SHIFTS),
                "sqrt_mod": "all residues -2..p+1 modulo every prime < 200 and 17 non-prime moduli; %d seeded residues "
                            "(and squares, negated squares) modulo each of %d curve primes"
                            % (6 if q else 24, len(A.CURVE_PRIMES)),
                "isqrt_range": "every n < 2^%d" % (13 if q else 16),
                "cases": a.n.get("int_cases", 0), "pow_cost_restriction_skipped": a.n.get("int_pow_skipped_cost", 0),
                "soft_mismatches_outside_documented_domain": a.n.get("int_soft_mismatches", 0)},
            "B-primality": {
                "range": "every n in [0, 2^%d) x (lucas, tpp x 2-3 tapes, mr x 3-4 (iterations, tape), isPrime)"
                         % (13 if q else 17),
                "all_bases": "every odd n < %d x every base in [2, n-2], one round" % (256 if q else 2048),
                "families": list(P.FAMILIES), "family_members": a.n.get("family_members", 0),
                "tapes": {"test_probable_prime": list(P.TPP_STRATS), "miller_rabin_test(iterations, tape)": list(P.MR_GRID),
                          "isPrime": ["small", "seed0", "liar"],
                          "meaning": "small = 2,3,5,7,..; seedN = SHAKE256(VERIF_SEED)-derived bases in [2,n-2]; top = "
                                     "n-2,n-3,..; liar = strong liars of n found by the reference (cycled)"},
                "cases": a.n.get("prim_cases", 0) + a.n.get("prim_allbases", 0),
                "primes_accepted": a.n.get("prim_primes_accepted", 0),
                "composites_rejected": a.n.get("prim_composites_rejected", 0),
                "legitimate_pseudoprime_passes": a.n.get("prim_legit_pseudoprime_passes", 0)},
            "C-generation": {"cases": a.n.get("gen_cases", 0),
                             "generate_probable_prime_bits": P.GEN_BITS_QUICK if q else P.GEN_BITS_FULL,
                             "tapes_per_size": 1 if q else 4},
            "D-legacy": {"cases": a.n.get("legacy_cases", 0)},
        },
    })
    ctx.assume("operand VALUES are limited to the boundary alphabet V (0, +-1, +-2, +-(2^k-1), +-2^k, +-(2^k+1), seeded "
               "300/1100/2100-bit values), the complete small boxes and the structured/seeded moduli; only shapes (sizes, "
               "signs, word counts, operand forms) are enumerated completely")
    ctx.assume("only VALUES are compared (int(result), bytes, truth value); result types (int vs Integer, bool vs int, "
               "self vs None) and exception messages are not - type agreement between back-ends is property C16")
    ctx.assume("a zero modulus/divisor must raise ZeroDivisionError, every other undefined case ValueError (the classes "
               "the three back-ends use for these cases); operands violating two rules may raise either")
    ctx.assume("modular pow with an exponent above 66 bits is crossed only with selected bases and the core moduli (1, 2, "
               "17 words in quick; 1..33 words by powers of two in thorough), exponents above %s with moduli of at most "
               "%s (cost bound; counted in pow_cost_restriction_skipped)" % (("130 bits", "4") if q else ("600 bits", "1100 bits")))
    ctx.assume("left shifts by more than 70000 bits are not executed (result size); operands wider than 65536 bits are "
               "used only for right shifts, get_bit and size_in_bits")
    ctx.assume("size_in_bits(0) = size_in_bytes(0) = 1 is taken as the library's convention; get_bit / "
               "_mult_modulo_bytes / fail_if_divisible_by outside their documented domains are logged, not judged")
    ctx.assume("modular square roots with a composite modulus: the docstring of _tonelli_shanks allows either ValueError "
               "or a correct root; a wrong root is a violation, a refusal is not")
    ctx.assume("Primality and prime generation run on the back-end selected by Crypto.Math.Numbers (%s) in the driver "
               "process and are repeated in child processes under PYCRYPTODOME_DISABLE_GMP=1 (%s) and with the GMP and "
               "custom modules made unimportable (%s)%s" % (selected, sb.get("nogmp"), sb.get("native"),
               "; in quick the children cover [0, 2^12), all families, the prime list and 4 generation sizes" if q else ""))
    ctx.assume("primes above 3.3e24 (generated primes, large members of the prime list) are certified by mc.ref.nt.is_prime = "
               "13 fixed Miller-Rabin bases + strong Lucas (no known counterexample), not by a primality proof")
    ctx.assume("a composite declared probably prime is accepted as the algorithm's documented error case only when EVERY "
               "Miller-Rabin base on the tape is a strong liar (and, for test_probable_prime, n is also a Lucas "
               "pseudoprime); random bases from the system RNG are never used")
    ctx.assume("getStrongPrime draws its Miller-Rabin bases from the system RNG (randfunc is not forwarded): only size, "
               "primality and coprimality to e of its result are checked, not determinism")
    ctx.assume("Integer.random / random_range are not covered here (C18)")


def replay(case, acc):
    part = case["part"]
    if part == "int":
        A.int_case(case["op"], tuple(A.dec_val(v) for v in case["vals"]), case["form"], acc)
    elif part in ("prim", "gen"):
        if case.get("cfg", "default") != "default":
            S.sub_run(case["cfg"], "case", case, acc)        # under the integer back-end it was found with
        else:
            P.replay_case(case, acc)
    elif part == "legacy":
        P.legacy_case(case["fn"], case["a"], case["b"], acc)
    else:
        acc.error("unknown replay part %r" % (part,))
