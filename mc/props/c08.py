"""C08 - key export then import is the identity; encodings canonical; == is semantic.

Bounded-exhaustive enumeration (ShapeExplorer) in two parts, each a complete product of finite
grids executed on the real library and judged, case by case, by independent code
(mc.props._c08_ref: strict DER, RFC 7468/1421 PEM, RFC 8018 PBES2, legacy PEM encryption, RFC 4253
OpenSSH lines, SEC 1 / RFC 8032 / RFC 7748 point codecs; none of it imports Crypto):

  rt   for every key of the key set (RSA 512..1025 bits [thorough: 177..4096], e in {3, 65537, 2^32+15};
       DSA on the three stored domains [thorough: + six searched ones]; ECC: three [thorough: five] keys on each of the nine curves, found by search so
       that encodings with a leading 0x00 octet and with the top bit set both occur), private and public
       half, EVERY export configuration of the grid  format x pkcs/pkcs8/use_pkcs8 x passphrase? x
       protection (11 PBKDF2 PRFs + scrypt) x (DES-EDE3-CBC, AES128/192/256-CBC, AES128/192/256-GCM)
       x prot_params x compress, plus the legacy PEM encryption, OpenSSH, SEC1, raw and the documented
       refusals.  Per exported artefact:
         (1) import_key(export, passphrase) has the same components (Python ints, never via ==);
         (2) every wrong passphrase (and none) is refused with the documented exception;
         (3) the independent reader parses the artefact (strict DER whose re-serialisation is identical,
             canonical PEM, independent PBES2 / legacy decryption) to the same components, finds the
             right OIDs / parameters (NULL for RSA, Dss-Parms, named curve, absent for RFC 8410), and
             the protection actually written is the one requested.
  eq   equality matrix: ALL ordered pairs over the key set, the public halves, independently built
       copies, near-miss variants (same n other e / other d, negated point, other x on the same DSA
       domain; thorough: also the negated point on every Weierstrass curve, the Edwards point with x
       negated, a DSA key with generator g^2 and the same p, q, y) and ElGamal keys:
       a == b is True iff same type, same privacy, same components;
       a != b is the negation; comparing two keys of the same type never raises.

Tiers.  quick: the full protection product (84 x 2 prot_params x DER/PEM) on one key per family
(rsa1024-e65537, dsa1024-160 [84 x DER, cover list x PEM], p256-x00, ed25519-y00-xodd, curve25519-u00)
and a covering list (every PRF, every cipher, scrypt x every cipher: 24 protections) on all other keys;
thorough: a larger key set (searched RSA keys whose RSAPrivateKey contents are exactly 127 | 128 | 255 | 256 octets, moduli
of 2039/2040/3072/4096 bits; six searched DSA domains from (512, 160) to (2048, 256) with p of 127 | 128 and 255 | 256
content octets; d = 1, d = order-1 and all-00 / all-ff seeds on the curves) and on EVERY key the full product with a third
prot_params variant, all five other passphrases x all 84 protections, passphrases of B-1 | B | B+1 octets around the HMAC
block size B of every KDF, legacy PEM encryption with passphrases around the MD5 block boundaries, five wrong passphrases
instead of three, and a second import of every textual artefact from the other documented input type (str <-> bytes);
on ten primary keys also sweeps of prot_params (iteration counts, salt sizes, scrypt N x r x p on both sides of the DER
INTEGER / length-octet boundaries) and the documented defaults for all 84 protections.  Combinations the documentation
excludes (OpenSSH for a private RSA/DSA key, protection with pkcs=1, private-key parameters on an ECC public key ...)
are executed and logged only.

Known defects of the pinned tree that both tiers re-find (DESIGN 5 #2, #3):
  C08/eq/DsaKey/different-keys-compare-equal                     DsaKey.__eq__ does getattr() on a dict
  C08/eq/ElGamalKey/raises-AttributeError@PublicKey.ElGamal.__eq__
"""
import hashlib

from ..common import Acc, SEED, exc_site, short, asc
from ..keys import Stream
from . import _c08_ref as R
from . import _c08_keys as KS

LEVEL = "exploration"
RULE = ("complete enumeration of (key, private/public, export configuration) over the stated grids and of all "
        "ordered pairs of the equality object set; a case is one export_key call followed by import with the "
        "right passphrase, with every wrong passphrase, and by the independent reader (or one pair a==b / a!=b); "
        "it is non-trivial when the library produced an artefact (or a documented refusal) that the oracles "
        "judged; distinct_nontrivial counts distinct (type, privacy, format, structure chain, PEM encryption, "
        "KDF, PRF, cipher, outcome) tuples plus distinct (type a, type b, relation, result) tuples actually observed")
BUDGET = {"quick": 240, "thorough": 1700}

# ---------------------------------------------------------------------------
# grids
# ---------------------------------------------------------------------------
HASHES = ("SHA1", "SHA224", "SHA256", "SHA384", "SHA512", "SHA512-224", "SHA512-256",
          "SHA3-224", "SHA3-256", "SHA3-384", "SHA3-512")
CIPHERS = ("DES-EDE3-CBC", "AES128-CBC", "AES192-CBC", "AES256-CBC", "AES128-GCM", "AES192-GCM", "AES256-GCM")
PROTS = ["PBKDF2WithHMAC-%sAnd%s" % (h, c) for h in HASHES for c in CIPHERS] + ["scryptAnd%s" % c for c in CIPHERS]
COVER = (["PBKDF2WithHMAC-%sAndAES128-CBC" % h for h in HASHES] +
         ["PBKDF2WithHMAC-SHA256And%s" % c for c in CIPHERS if c != "AES128-CBC"] +
         ["scryptAnd%s" % c for c in CIPHERS])
COVER_DSA = [p for p in COVER if not p.startswith("scrypt")] + ["scryptAndAES128-CBC", "scryptAndAES256-GCM"]
PW_PROTS = ("PBKDF2WithHMAC-SHA1AndDES-EDE3-CBC", "PBKDF2WithHMAC-SHA3-224AndAES256-GCM",
            "PBKDF2WithHMAC-SHA512AndAES128-CBC", "scryptAndAES192-GCM")

P0 = b"pw"
PWS = (P0, "text passphrase", b"\x00\xff\x80\n bin", asc(150, 1), b"x", "p\u00e4ss\u00ffw\u00f6rd")


# ---- thorough-only alphabets (levels "full+" and "full++") ---------------------------------------------------------
# HMAC block sizes in octets (FIPS 180-4 / FIPS 202 rate); scrypt derives through PBKDF2-HMAC-SHA256 (RFC 7914)
HMAC_BLOCK = {"SHA1": 64, "SHA224": 64, "SHA256": 64, "SHA384": 128, "SHA512": 128, "SHA512-224": 128, "SHA512-256": 128,
              "SHA3-224": 144, "SHA3-256": 136, "SHA3-384": 104, "SHA3-512": 72, None: 64}
PWLEN_CIPHERS = ("AES128-CBC", "AES256-GCM")
# legacy PEM encryption: MD5(passphrase || salt8) then MD5(digest16 || passphrase || salt8); the hashed strings are
# 55 | 56 | 57 and 63 | 64 | 65 octets long (MD5 padding boundary and block boundary) in the first resp. second round
LEGACY_PWLENS = (31, 32, 33, 39, 40, 41, 47, 48, 49, 55, 56, 57)
# prot_params sweeps (primary keys): values on both sides of the DER INTEGER / length octet boundaries
SWEEP_PBKDF2_BIG = ("PBKDF2WithHMAC-SHA1AndAES256-CBC", "PBKDF2WithHMAC-SHA512AndAES128-GCM")
SWEEP_PBKDF2_SMALL = ("PBKDF2WithHMAC-SHA3-256AndDES-EDE3-CBC", "PBKDF2WithHMAC-SHA512-256AndAES192-GCM")
SWEEP_COUNTS = (3, 127, 128, 255, 256, 999, 1001, 32767, 32768, 65535, 65536)
SWEEP_COUNTS_SMALL = (3, 127, 128, 255, 256)
SWEEP_SALTS = (1, 7, 9, 15, 17, 32, 127, 128, 255, 256)
SWEEP_SCRYPT = ("scryptAndAES128-CBC", "scryptAndAES256-GCM")
SWEEP_SCRYPT_N = (2, 4, 128, 256, 1024)
SWEEP_SCRYPT_R = (1, 2, 8, 16)
SWEEP_SCRYPT_P = (1, 2, 3)
SWEEP_SCRYPT_BIGN = ((32768, 1), (65536, 2))          # (N, r) with p = 1; RFC 7914 demands N < 2^(16 r)


def pw_of_len(n):
    """printable passphrase of n octets (never ends in NUL: HMAC pads keys with NUL octets)"""
    return bytes(0x21 + (i * 7 + n) % 0x5E for i in range(n))


def pwlen_cfgs(base, level, dsa=False):
    """passphrase lengths B-1, B, B+1 around the HMAC block size B of every KDF (11 PBKDF2 PRFs + scrypt) x 2 ciphers"""
    c = []
    for h in HASHES + (None,):
        for ci in PWLEN_CIPHERS:
            prot = ("PBKDF2WithHMAC-%sAnd%s" % (h, ci)) if h else "scryptAnd%s" % ci
            for ln in (HMAC_BLOCK[h] - 1, HMAC_BLOCK[h], HMAC_BLOCK[h] + 1):
                kw = dict(base, format="DER", passphrase=pw_of_len(ln), protection=prot)
                if not dsa:
                    kw["prot_params"] = pps_for(prot, "cover")[0]
                c.append(kw)
    return c


def sweep_cfgs(base):
    """level full++: prot_params sweeps and the documented defaults for every protection"""
    c = []
    for prot in SWEEP_PBKDF2_BIG:
        c += [dict(base, format="DER", passphrase=P0, protection=prot, prot_params={"iteration_count": n}) for n in SWEEP_COUNTS]
    for prot in SWEEP_PBKDF2_SMALL:
        c += [dict(base, format="DER", passphrase=P0, protection=prot, prot_params={"iteration_count": n}) for n in SWEEP_COUNTS_SMALL]
    for prot in SWEEP_PBKDF2_BIG + SWEEP_PBKDF2_SMALL + SWEEP_SCRYPT:
        c += [dict(base, format="DER", passphrase=P0, protection=prot, prot_params={"iteration_count": 2, "salt_size": n}) for n in SWEEP_SALTS]
    for prot in SWEEP_SCRYPT:
        for n in SWEEP_SCRYPT_N:
            for r in SWEEP_SCRYPT_R:
                for pz in SWEEP_SCRYPT_P:
                    c.append(dict(base, format="DER", passphrase=P0, protection=prot,
                                  prot_params={"iteration_count": n, "block_size": r, "parallelization": pz}))
        c += [dict(base, format="DER", passphrase=P0, protection=prot,
                   prot_params={"iteration_count": n, "block_size": r, "parallelization": 1}) for n, r in SWEEP_SCRYPT_BIGN]
    # prot_params absent: the documented defaults (PBKDF2 count 1000, scrypt N 16384 r 8 p 1, 8-octet salt) for every protection
    for prot in PROTS:
        for f in ("DER", "PEM"):
            c.append(dict(base, format=f, passphrase=P0, protection=prot))
    return c


def pps_for(prot, level):
    """prot_params alphabet: PBKDF2 iteration_count 1, 2; scrypt N 2, 16 (r = 8, p = 1); thorough adds a 16-byte
    salt and (scrypt) r = 1, p = 2"""
    if prot.startswith("scrypt"):
        out = [{"iteration_count": 2}, {"iteration_count": 16}]
        if level in ("full+", "full++"):
            out.append({"iteration_count": 4, "block_size": 1, "parallelization": 2, "salt_size": 16})
    else:
        out = [{"iteration_count": 1}, {"iteration_count": 2}]
        if level in ("full+", "full++"):
            out.append({"iteration_count": 2, "salt_size": 16})
    return out if level not in ("cover", "mini") else out[:1]


def prots_for(level, dsa=False):
    if level == "mini":
        return list(PW_PROTS)
    if level == "cover":
        return COVER_DSA if dsa else COVER
    return PROTS


def rsa_cfgs(priv, level):
    c = []
    if not priv:
        c += [{}, {"format": "PEM"}, {"format": "DER"}, {"format": "OpenSSH"}, {"format": "PEM", "pkcs": 8},
              {"format": "DER", "pkcs": 8}, {"format": "PEM", "passphrase": P0}, {"format": "DER", "passphrase": P0},
              {"format": "X"}]
        return c
    c += [{}, {"format": "DER"}, {"format": "PEM"}, {"format": "DER", "pkcs": 1}, {"format": "PEM", "pkcs": 1},
          {"format": "DER", "pkcs": 8}, {"format": "PEM", "pkcs": 8}]
    c += [{"format": "PEM", "passphrase": pw} for pw in PWS]
    c += [{"format": "PEM", "pkcs": 8, "passphrase": pw} for pw in PWS[:2]]           # legacy encryption over PKCS#8
    c += [{"format": "DER", "pkcs": 8, "passphrase": pw} for pw in PWS[:2]]           # default protection, count 1000
    c += [{"format": "DER", "pkcs": 1, "passphrase": P0}, {"format": "DER", "passphrase": P0},      # documented refusals
          {"format": "PEM", "pkcs": 8, "passphrase": P0, "prot_params": {"iteration_count": 2}},
          {"format": "DER", "pkcs": 8, "passphrase": P0, "prot_params": {"iteration_count": 2}},
          {"format": "X"}, {"format": "X", "pkcs": 8, "passphrase": P0},
          {"format": "OpenSSH"}]
    c += [{"format": f, "pkcs": 8, "protection": p} for f in ("DER", "PEM") for p in PW_PROTS[:2]]  # protection, no passphrase
    for prot in prots_for(level):
        for pp in pps_for(prot, level):
            for f in ("DER", "PEM"):
                c.append({"format": f, "pkcs": 8, "passphrase": P0, "protection": prot, "prot_params": pp})
    for pw in PWS[1:]:
        for prot in (PROTS if level in ("full+", "full++") else PW_PROTS):
            c.append({"format": "DER", "pkcs": 8, "passphrase": pw, "protection": prot, "prot_params": pps_for(prot, "cover")[0]})
    c.append({"format": "PEM", "pkcs": 8, "passphrase": P0, "protection": "scryptAndAES128-CBC"})   # scrypt defaults (N = 16384)
    if level in ("full+", "full++"):
        c += pwlen_cfgs({"pkcs": 8}, level)
        c += [{"format": "PEM", "pkcs": 1, "passphrase": pw_of_len(n)} for n in LEGACY_PWLENS]
    if level == "full++":
        c += sweep_cfgs({"pkcs": 8})
    return c


def dsa_cfgs(priv, level):
    c = []
    if not priv:
        c += [{}, {"format": "PEM"}, {"format": "DER"}, {"format": "OpenSSH"}, {"format": "PEM", "pkcs8": False},
              {"format": "DER", "pkcs8": False}, {"format": "PEM", "pkcs8": True}, {"format": "DER", "pkcs8": True},
              {"format": "PEM", "passphrase": P0}, {"format": "DER", "passphrase": P0}, {"format": "X"}]
        return c
    c += [{}, {"format": "DER"}, {"format": "PEM"}, {"format": "DER", "pkcs8": True}, {"format": "PEM", "pkcs8": True},
          {"format": "DER", "pkcs8": False}, {"format": "PEM", "pkcs8": False}]
    c += [{"format": "PEM", "pkcs8": False, "passphrase": pw} for pw in PWS]
    c += [{"format": f, "passphrase": pw} for f in ("DER", "PEM") for pw in PWS[:2]]   # default protection
    c += [{"format": "DER", "pkcs8": False, "passphrase": P0}, {"format": "X"}, {"format": "X", "passphrase": P0},
          {"format": "OpenSSH"},
          {"format": "PEM", "pkcs8": False, "passphrase": P0, "protection": PW_PROTS[1]},      # protection ignored (documented)
          {"format": "DER", "protection": PW_PROTS[1]}, {"format": "PEM", "protection": PW_PROTS[1]}]
    for prot in prots_for("full" if level == "full-der" else level, dsa=True):
        for f in ("DER", "PEM"):
            if f == "PEM" and level == "full-der" and prot not in COVER_DSA:
                continue                 # quick: DsaKey.export_key has no prot_params, every protection costs 5 x PBKDF2(1000)
            c.append({"format": f, "passphrase": P0, "protection": prot})
    c.append({"format": "DER", "pkcs8": True, "passphrase": P0, "protection": PW_PROTS[2]})
    for pw in PWS[1:]:
        for prot in ([p for p in PROTS if not p.startswith("scrypt")] + ["scryptAndAES128-GCM"] if level in ("full+", "full++") else PW_PROTS[:3]):
            c.append({"format": "DER", "passphrase": pw, "protection": prot})
    if level in ("full+", "full++"):
        c += pwlen_cfgs({}, level, dsa=True)
        c += [{"format": "PEM", "pkcs8": False, "passphrase": pw_of_len(n)} for n in LEGACY_PWLENS]
    return c


def ecc_cfgs(curve, priv, level):
    c = []
    if not priv:
        for f in ("PEM", "DER", "SEC1", "raw", "OpenSSH"):
            c += [{"format": f}, {"format": f, "compress": False}, {"format": f, "compress": True}]
        c += [{"format": "X"}, {"format": "PEM", "passphrase": P0}, {"format": "DER", "use_pkcs8": True},
              {"format": "DER", "protection": PW_PROTS[2]}]
        return c
    for up in (None, True, False):
        for f in ("PEM", "DER"):
            for pw in (None, P0):
                kw = {"format": f}
                if up is not None:
                    kw["use_pkcs8"] = up
                if pw is not None:
                    kw["passphrase"] = pw
                c.append(kw)
    c += [{"format": "PEM", "use_pkcs8": False, "passphrase": pw} for pw in PWS[1:]]
    c += [{"format": "DER", "compress": True}, {"format": "PEM", "use_pkcs8": False, "compress": True},
          {"format": "SEC1"}, {"format": "raw"}, {"format": "OpenSSH"}, {"format": "X"},
          {"format": "PEM", "use_pkcs8": False, "passphrase": P0, "protection": PW_PROTS[2]},
          {"format": "DER", "use_pkcs8": False, "protection": PW_PROTS[2]},
          {"format": "DER", "protection": PW_PROTS[2]}, {"format": "PEM", "protection": PW_PROTS[2]},
          {"format": "DER", "passphrase": P0, "prot_params": {"iteration_count": 2}}]
    for prot in prots_for(level):
        for pp in pps_for(prot, level):
            for f in ("DER", "PEM"):
                c.append({"format": f, "passphrase": P0, "protection": prot, "prot_params": pp})
    for pw in PWS[1:]:
        for prot in (PROTS if level in ("full+", "full++") else PW_PROTS):
            c.append({"format": "DER", "passphrase": pw, "protection": prot, "prot_params": pps_for(prot, "cover")[0]})
    c.append({"format": "DER", "passphrase": P0, "protection": "PBKDF2WithHMAC-SHA256AndAES128-CBC"})   # default count 1000
    c.append({"format": "PEM", "use_pkcs8": True, "passphrase": P0, "protection": "scryptAndAES128-GCM"})  # scrypt defaults
    if level in ("full+", "full++"):
        c += pwlen_cfgs({}, level)
        if curve in KS.WEIER:
            c += [{"format": "PEM", "use_pkcs8": False, "passphrase": pw_of_len(n)} for n in LEGACY_PWLENS]
        # compress x use_pkcs8 x format x passphrase? (the embedded public point of a private key)
        for comp in (True, False):
            for up in (True, False):
                for f in ("PEM", "DER"):
                    for pw in (None, P0):
                        kw = {"format": f, "use_pkcs8": up, "compress": comp}
                        if pw is not None:
                            kw["passphrase"] = pw
                            if up:
                                kw.update(protection=PW_PROTS[1], prot_params={"iteration_count": 1})
                        c.append(kw)
    if level == "full++":
        c += sweep_cfgs({})
    return c


def cfgs_for(kd, priv, level):
    if kd["t"] == "RSA":
        return rsa_cfgs(priv, level)
    if kd["t"] == "DSA":
        return dsa_cfgs(priv, level)
    return ecc_cfgs(kd["curve"], priv, level)


# ---------------------------------------------------------------------------
# what the documentation promises for a configuration
# ---------------------------------------------------------------------------
def _epki_want(prot, pp, scrypt_default_n=16384):
    kdf, hn, cipher = R.parse_protection(prot)
    pp = pp or {}
    w = {"kdf": kdf, "hash": hn, "cipher": cipher, "saltlen": pp.get("salt_size", 8)}
    if kdf == "pbkdf2":
        w["count"] = pp.get("iteration_count", 1000)
    else:
        w.update(count=pp.get("iteration_count", scrypt_default_n), r=pp.get("block_size", 8), p=pp.get("parallelization", 1))
    return w


DEFAULT_PROT = "PBKDF2WithHMAC-SHA1AndDES-EDE3-CBC"


def expect(kd, priv, kw):
    """-> dict: outcome 'ok' | 'refuse' (documented ValueError) | 'unsupported' (documentation excludes the
    combination: nothing is demanded); for 'ok': container, top (expected outermost DER structure), legacy
    (PEM-level encryption: True / False / None = either), epki (requested PBES2 parameters or None),
    imports_as_private"""
    t = kd["t"]
    fmt = kw.get("format", "PEM")
    pw = kw.get("passphrase")
    prot = kw.get("protection")
    pp = kw.get("prot_params")
    ok = {"outcome": "ok", "container": fmt.lower() if fmt in ("PEM", "DER") else fmt, "top": None, "legacy": False,
          "epki": None, "as_private": priv}
    refuse = {"outcome": "refuse"}
    unsupported = {"outcome": "unsupported"}
    if t in ("RSA", "DSA"):
        if fmt not in ("PEM", "DER", "OpenSSH"):
            return refuse
        if fmt == "OpenSSH":
            if priv:
                return unsupported                 # "Only suitable for public keys"
            ok["container"] = "openssh"
            return ok
        if not priv:
            if t == "DSA" and kw.get("pkcs8"):
                return refuse                      # "PKCS#8 is only meaningful for private keys"
            ok["top"] = "spki"
            ok["legacy"] = None if pw else False   # passphrase is documented for private keys only
            return ok
    if t == "RSA":
        pkcs = kw.get("pkcs", 1)
        if pkcs == 1:
            if prot or pp:
                return unsupported                 # "You can only specify a value if pkcs=8"
            if fmt == "DER" and pw:
                return refuse
            ok["top"] = "pkcs1"
            ok["legacy"] = bool(pw)
            return ok
        if pp and not prot:
            return refuse                          # "'protection' must be also specified"
        if prot and not pw:
            ok["top"] = None                       # protection without a passphrase: nothing specific promised
            ok["odd"] = True
            return ok
        if not pw:
            ok["top"] = "pkcs8"
            return ok
        if prot is None and fmt == "PEM":
            ok["top"] = "pkcs8"
            ok["legacy"] = True
            return ok
        ok["top"] = "epki"
        ok["epki"] = _epki_want(prot or DEFAULT_PROT, pp)
        return ok
    if t == "DSA":
        p8 = kw.get("pkcs8")
        if p8 is None or p8:
            ok["top"] = "epki" if pw else "pkcs8"
            if pw:
                ok["epki"] = _epki_want(prot or DEFAULT_PROT, None)
            return ok
        if fmt == "DER" and pw:
            return refuse
        ok["top"] = "dsa-openssl"
        ok["legacy"] = bool(pw)
        return ok
    # ---- ECC ----------------------------------------------------------------------
    curve = kd["curve"]
    if fmt not in ("PEM", "DER", "OpenSSH", "SEC1", "raw"):
        return refuse
    if priv:
        if fmt not in ("PEM", "DER"):
            return refuse
        up = kw.get("use_pkcs8", True)
        if up is False:
            if curve not in KS.WEIER or prot is not None:
                return refuse
            if fmt == "DER" and pw:
                return refuse
            if pp:
                return unsupported
            ok["top"] = "ecpriv"
            ok["legacy"] = bool(pw)
            return ok
        if pw and prot is None:
            return refuse                          # "this parameter MUST be present"
        ok["top"] = "epki" if pw else "pkcs8"
        if pw:
            ok["epki"] = _epki_want(prot, pp)
        return ok
    if any(k in kw for k in ("passphrase", "use_pkcs8", "protection", "prot_params")):
        return unsupported                         # private-key-only parameters on a public key
    if fmt in ("PEM", "DER"):
        ok["top"] = "spki"
        return ok
    if fmt == "SEC1":
        if curve not in KS.WEIER:
            return refuse
        ok["container"] = "sec1"
        return ok
    if fmt == "raw":
        ok["container"] = "sec1" if curve in KS.WEIER else "raw"
        return ok
    if curve in KS.WEIER or curve == "ed25519":
        ok["container"] = "openssh"
        return ok
    return refuse


# ---------------------------------------------------------------------------
# entropy seams
# ---------------------------------------------------------------------------
class _DetRandom(object):
    """stand-in for the module Crypto.Random as seen from Crypto.IO._PBES (RsaKey.export_key does not hand
    its randfunc to PKCS8.wrap) and for get_random_bytes in Crypto.IO.PEM"""
    def __init__(self):
        self.reset("")

    def reset(self, label):
        self.s = Stream("c08-seam|" + label)

    def new(self, *a, **kw):
        return self

    def read(self, n):
        return self.s(n)

    get_random_bytes = read


_DET = _DetRandom()
_SEAM = None


def install_seams():
    global _SEAM
    if _SEAM is not None:
        return _SEAM
    try:
        from Crypto.IO import _PBES, PEM, PKCS8
        if not hasattr(_PBES, "Random") or not hasattr(PEM, "get_random_bytes"):
            _SEAM = "Crypto.IO._PBES.Random / Crypto.IO.PEM.get_random_bytes not present"
            return _SEAM
        _PBES.Random = _DET
        PEM.get_random_bytes = _DET.read
        outs = []
        for lab in ("a", "a", "b"):
            _DET.reset(lab)
            outs.append(PKCS8.wrap(b"k" * 20, "1.2.3", passphrase=b"p", protection="PBKDF2WithHMAC-SHA1AndAES128-CBC",
                                   prot_params={"iteration_count": 1}))
        _SEAM = "" if outs[0] == outs[1] != outs[2] else "Crypto.IO._PBES.Random does not control PKCS8.wrap any more"
    except Exception as e:  # noqa
        _SEAM = "seam installation failed: %r" % (e,)
    return _SEAM


# ---------------------------------------------------------------------------
# part rt
# ---------------------------------------------------------------------------
DOC_EXC = {"RSA": (ValueError, IndexError, TypeError), "DSA": (ValueError,), "ECC": (ValueError,)}


_PP_CHANGED = [None]


def _export(key, t, kw, tape_label, priv):
    kw = dict(kw)
    _DET.reset(tape_label)
    if t in ("RSA", "DSA") or priv:
        kw["randfunc"] = Stream("c08-tape|" + tape_label)
    pp = kw.get("prot_params")
    before = dict(pp) if isinstance(pp, dict) else None
    _PP_CHANGED[0] = None
    try:
        return key.export_key(**kw)
    finally:
        if before is not None and pp != before:
            _PP_CHANGED[0] = (before, dict(pp))
            pp.clear()
            pp.update(before)              # the configuration tables are shared between cases


def pp_reuse_case(kd, acc):
    """ONE prot_params dictionary of the caller handed to two exports with protections of different KDF families (both orders): both
    exports succeed, import with the passphrase gives the key back, and the dictionary is what the caller made it"""
    key = KS.libkey(kd, True)
    t = kd["t"]
    mod = __import__("Crypto.PublicKey." + t, fromlist=["import_key"])
    prots = ("PBKDF2WithHMAC-SHA256AndAES128-CBC", "scryptAndAES128-CBC")
    for order in ((0, 1), (1, 0)):
        pp = {"salt_size": 16}
        for j in order:
            acc.count("evaluations")
            kw = {"format": "DER", "passphrase": P0, "protection": prots[j], "prot_params": pp}
            if t == "RSA":
                kw["pkcs"] = 8
            case = {"part": "pp-reuse", "kd": kd}
            what = "%s private key %s: export_key(DER, %s) with the caller's dictionary %r that was used for %s before" % (
                t, kd["name"], prots[j], {"salt_size": 16}, "no export" if j == order[0] else prots[order[0]])
            try:
                blob = key.export_key(**kw)
                back = mod.import_key(blob, passphrase=P0)
            except Exception as e:  # noqa
                acc.violation("C08/%s/export/depends-on-earlier-use-of-the-prot_params-dictionary" % t,
                              what + " raised %s: %s" % (type(e).__name__, e), case)
                break
            if KS.lib_comps(back) != KS.expected_comps(kd, True):
                acc.violation("C08/%s/export/depends-on-earlier-use-of-the-prot_params-dictionary" % t, what + ": the re-imported key differs", case)
                break
        if pp != {"salt_size": 16}:
            acc.violation("C08/%s/export/prot_params-dictionary-changed" % t,
                          "%s private key %s: after two exports the caller's prot_params dictionary %r has become %r"
                          % (t, kd["name"], {"salt_size": 16}, pp), {"part": "pp-reuse", "kd": kd})
    acc.seen("classes", ("pp-reuse", t))


def _import(t, kd, blob, pw, container):
    if t == "RSA":
        from Crypto.PublicKey import RSA
        return RSA.import_key(blob, pw)
    if t == "DSA":
        from Crypto.PublicKey import DSA
        return DSA.import_key(blob, pw)
    from Crypto.PublicKey import ECC
    if container == "sec1":
        return ECC.import_key(blob, curve_name=kd["curve"])
    if container == "raw":
        if kd["curve"] in KS.EDW:
            from Crypto.Signature import eddsa
            return eddsa.import_public_key(blob)
        from Crypto.Protocol import DH
        return DH.import_x25519_public_key(blob) if kd["curve"] == "curve25519" else DH.import_x448_public_key(blob)
    return ECC.import_key(blob, pw)


def _kw_repr(kw):
    return ", ".join("%s=%r" % (k, v) for k, v in kw.items())


def _script(kd, priv, kw):
    t = kd["t"]
    if t == "RSA":
        mk = "RSA.construct((%d, %d, %d, %d, %d))" % (kd["n"], kd["e"], kd["d"], kd["p"], kd["q"])
    elif t == "DSA":
        mk = "DSA.construct((%d, %d, %d, %d, %d))" % (kd["y"], kd["g"], kd["p"], kd["q"], kd["x"])
    elif kd.get("d") is not None:
        mk = "ECC.construct(curve=%r, d=%d)" % (kd["curve"], kd["d"])
    else:
        mk = "ECC.construct(curve=%r, seed=bytes.fromhex(%r))" % (kd["curve"], bytes(kd["seed"]).hex())
    return ("# stand-alone reproduction (needs only pycryptodome)\n"
            "from Crypto.PublicKey import RSA, DSA, ECC\n"
            "key = %s%s\n"
            "out = key.export_key(%s)\n"
            "print(out if isinstance(out, str) else out.decode() if out[:1] in b'-se' else out.hex())\n"
            % (mk, "" if priv else ".public_key()", _kw_repr(kw)))


def _what(kd, priv, kw):
    return "%s %s key %s, export_key(%s)" % (kd["t"], "private" if priv else "public", kd["name"], _kw_repr(
        {k: (short(v, 24) if isinstance(v, (bytes, bytearray)) else v) for k, v in kw.items()}))


def _shape(acc, t, field, v, width=None):
    """records which integer shapes the encoders met (coverage evidence for the leading-00 / top-bit demand)"""
    if width is None:
        acc.seen("intshape", (t, field, "der-sign-octet" if v.bit_length() % 8 == 0 and v else "der-plain"))
    else:
        top = (v >> (8 * (width - 1))) & 0xFF
        acc.seen("intshape", (t, field, "fixed-lead00" if top == 0 else ("fixed-topbit" if top >= 0x80 or (width == 66 and top) else "fixed-mid")))


def _input_shapes(acc, kd, exp, kw, container):
    """which integer shapes the encoders are given (from the key descriptor, i.e. a fact about the grid)"""
    t = kd["t"]
    priv = exp["as_private"]
    acc.seen("structures_expected", (t, exp["top"] or container))
    if exp["epki"]:
        w = exp["epki"]
        acc.seen("prot_req", (t, w["kdf"], w["hash"], w["cipher"]))
    if t == "RSA":
        v = dict(kd)
        if priv:
            v.update(dp=kd["d"] % (kd["p"] - 1), dq=kd["d"] % (kd["q"] - 1), qinv=KS.nt.inverse(kd["q"], kd["p"]))
        for f in ("n", "e") + (("d", "p", "q", "dp", "dq", "qinv") if priv else ()):
            _shape(acc, t, f if container != "openssh" else "mpint-" + f, v[f])
    elif t == "DSA":
        for f in ("p", "q", "g", "y") + (("x",) if priv else ()):
            _shape(acc, t, f if container != "openssh" else "mpint-" + f, kd[f])
    else:
        c = kd["curve"]
        x, y = kd["Q"]
        if c in KS.WEIER:
            w_ = R.EC.CURVES[c].size_bytes
            comp = bool(kw.get("compress", False)) and not priv
            _shape(acc, c, "x", x, w_)
            if not comp:
                _shape(acc, c, "y", y, w_)
            if priv:
                _shape(acc, c, "d", kd["d"], w_)
            else:
                acc.seen("sec1_prefix", (c, 2 + (y & 1) if comp else 4))
        elif c in KS.MONT:
            _shape(acc, c, "u", x, R.RAW_LEN[c])
        else:
            _shape(acc, c, "y", y, 32 if c == "ed25519" else 56)
            acc.seen("intshape", (c, "x-sign", x & 1))


def info_comps(info):
    t = info["t"]
    if t == "RSA":
        pub = ("RSA", info["priv"], info["n"], info["e"])
        return pub + (info["d"], info["p"], info["q"]) if info["priv"] else pub
    if t == "DSA":
        pub = ("DSA", info["priv"], info["p"], info["q"], info["g"], info["y"])
        return pub + (info["x"],) if info["priv"] else pub
    pub = ("ECC", info["priv"], info["curve"], info["Q"][0], info["Q"][1])
    return pub + (info.get("d"), info.get("seed")) if info["priv"] else pub


def wrong_passphrases(pw, deep):
    """the wrong-passphrase alphabet for one passphrase (None = no passphrase at all is added by the caller)"""
    if isinstance(pw, str):
        alt = [pw + "x", pw[:-1] or "q"]
        if deep:
            alt += [chr(ord(pw[0]) ^ 1) + pw[1:], pw[:-1] + chr(ord(pw[-1]) ^ 0x80)]
    else:
        pw = bytes(pw)
        alt = [pw + b"x", pw[:-1] or b"q"]
        if deep:
            alt += [bytes([pw[0] ^ 1]) + pw[1:], pw[:-1] + bytes([pw[-1] ^ 0x80])]
    return tuple(alt)


def _len_form(der):
    """length form of the outermost TLV of a DER blob"""
    return {0x81: "0x81", 0x82: "0x82", 0x83: "0x83"}.get(der[1], "short" if der[1] < 0x80 else "other")


def rt_case(kd, priv, kw, tape, acc, size=None, deep=False):
    """one export configuration of one key, all oracles; deep (thorough tier): two more wrong passphrases (lowest bit of
    the first octet flipped, top bit of the last octet flipped) and a second import of every textual artefact from the
    other documented input type (str <-> bytes)"""
    t = kd["t"]
    exp = expect(kd, priv, kw)
    key = KS.libkey(kd, priv)
    case = {"part": "rt", "kd": kd, "priv": priv, "kw": kw, "tape": tape, "deep": deep}
    what = _what(kd, priv, kw)
    cls = [t, priv, kw.get("format", "PEM")]

    def viol(sub, text, script=True):
        acc.violation("C08/%s/%s" % (t, sub), "%s: %s" % (what, text), case,
                      script=_script(kd, priv, kw) if script else None, size=size)

    acc.count("evaluations")
    # ---- export ----------------------------------------------------------------------
    try:
        blob = _export(key, t, kw, tape, priv)
    except ValueError as e:
        if exp["outcome"] == "ok":
            viol("export/supported-combination-refused@%s" % exc_site(e), "raised ValueError: %s" % e)
            acc.seen("classes", tuple(cls + ["refused!"]))
        else:
            acc.count("refused_documented" if exp["outcome"] == "refuse" else "refused_unsupported")
            acc.seen("classes", tuple(cls + [exp["outcome"], "ValueError"]))
        return "refused"
    except Exception as e:  # noqa
        if exp["outcome"] == "unsupported":
            acc.observe("%s export_key with a combination the documentation excludes raises %s (%s)"
                        % (t, type(e).__name__, sorted(kw)))
            return "refused"
        viol("export/raises-%s@%s" % (type(e).__name__, exc_site(e)), "raised %s: %s (documented: ValueError)"
             % (type(e).__name__, e))
        return "exc"
    if _PP_CHANGED[0] is not None:
        viol("export/prot_params-dictionary-changed", "the caller's prot_params dictionary %r has become %r" % _PP_CHANGED[0])
    if exp["outcome"] in ("refuse", "unsupported"):
        # the property speaks about supported combinations only: an accepted combination that the documentation
        # excludes (or promises to refuse) is logged, never judged
        acc.count("unsupported_accepted")
        acc.observe("%s %s export_key(%s) is accepted although the documentation %s"
                    % (t, "private" if priv else "public", ", ".join("%s=%s" % (k, kw[k] if k in ("format", "pkcs", "pkcs8", "use_pkcs8") else "..")
                                                                      for k in sorted(kw)),
                       "promises ValueError" if exp["outcome"] == "refuse" else "excludes the combination"))
        acc.seen("classes", tuple(cls + [exp["outcome"], "accepted"]))
        return "unsupported"
    container = exp["container"]
    pw = kw.get("passphrase")
    text = blob.encode("latin-1") if isinstance(blob, str) else bytes(blob)
    acc.count("artefacts")
    _input_shapes(acc, kd, exp, kw, container)
    # ---- (3) the independent reader ----------------------------------------------------
    info = None
    peminfo = {"encrypted": False}
    try:
        if container == "pem":
            label, der, peminfo = R.pem_open(text, pw)
            info = R.der_open(der, pw)
            want_top = R.PEM_LABEL_STRUCT.get(label)
            if want_top is None:
                raise R.Bad("pem/unknown-label", label)
            if info["chain"][0] != want_top:
                raise R.Bad("pem/label-%s-holds-%s" % (label.replace(" ", "-"), info["chain"][0]),
                            "RFC 7468: the label names the structure inside")
            info["label"] = label
        elif container == "der":
            info = R.der_open(text, pw)
        elif container == "openssh":
            info = R.openssh_open(text)
        elif container == "sec1":
            info = {"t": "ECC", "priv": False, "curve": kd["curve"], "chain": ["sec1"], "enc": None, "point_octets": text,
                    "Q": R.sec1_open(kd["curve"], text)}
        elif container == "raw":
            info = {"t": "ECC", "priv": False, "curve": kd["curve"], "chain": ["raw"], "enc": None, "point_octets": text,
                    "Q": R.raw_open(kd["curve"], text)}
    except R.Bad as b:
        viol("independent-parse/" + b.code, "the independent reader refuses the output (%s); output %s" % (b.text or b.code, short(text, 64)))
    protected = False
    gcm = False
    if info is not None:
        enc = info.get("enc")
        protected = bool(enc) or peminfo["encrypted"]
        gcm = bool(enc) and enc["cipher"].endswith("GCM")
        for n_ in (info.get("notes") or []) + ((enc or {}).get("notes") or []):
            acc.observe(n_)
        cls += ["/".join(info["chain"]), peminfo["encrypted"], enc["kdf"] if enc else None, enc["hash"] if enc else None,
                enc["cipher"] if enc else None]
        for s in info["chain"]:
            acc.seen("structures", (t, s))
        if deep and container in ("pem", "der"):
            outer = der if container == "pem" else text
            acc.seen("lenform", (t, info["chain"][0], _len_form(outer)))
            clen = len(outer) - (2 if outer[1] < 0x80 else 2 + (outer[1] & 0x7F))
            if info["chain"][0] == "pkcs1" and clen in (127, 128, 255, 256):
                acc.seen("pkcs1_boundary", clen)              # last short form | first 0x81 form | last 0x81 form | first 0x82 form
            if container == "pem":
                acc.seen("pem_shape", (len(der) % 3, len(der) % 48 == 0))
        # components
        got = info_comps(info)
        want = KS.expected_comps(kd, exp["as_private"])
        want_c = want[:7] if t == "RSA" else want
        if got != want_c:
            viol("independent-parse/components-differ/%s" % (KS.diff_comps(got, want_c) or ["?"])[0],
                 "the independent reader recovers other components (%s differ)" % ",".join(KS.diff_comps(got, want_c)))
        elif t == "RSA" and info["priv"]:
            p_, q_, d_ = info["p"], info["q"], info["d"]
            if (info["dp"], info["dq"]) != (d_ % (p_ - 1), d_ % (q_ - 1)) or info["qinv"] * q_ % p_ != 1 or not 0 < info["qinv"] < p_:
                viol("independent-parse/crt-values-wrong", "exponent1/exponent2/coefficient are not d mod (p-1), d mod (q-1), q^-1 mod p (RFC 8017 A.1.2)")
        # requested layout
        if exp["top"] is not None and info["chain"][0] != exp["top"]:
            viol("export/wrong-structure/%s-instead-of-%s" % (info["chain"][0], exp["top"]), "the outermost structure is %s" % info["chain"][0])
        if exp["legacy"] is not None and container == "pem" and peminfo["encrypted"] != exp["legacy"]:
            viol("export/pem-encryption-%s" % ("missing" if exp["legacy"] else "unexpected"), "Proc-Type header %s" % ("absent" if exp["legacy"] else "present"))
        if exp["epki"] and enc:
            w = exp["epki"]
            g = {"kdf": enc["kdf"], "hash": enc["hash"], "cipher": enc["cipher"], "saltlen": len(enc["salt"]), "count": enc["count"]}
            if enc["kdf"] == "scrypt":
                g.update(r=enc["r"], p=enc["p"])
            bad = sorted(k for k in w if w[k] != g.get(k))
            if bad:
                viol("export/protection-differs/%s" % bad[0], "requested %s, written %s" % (short(w), short(g)))
        if t == "ECC" and info.get("point_octets") is not None and kd["curve"] in KS.WEIER:
            first = info["point_octets"][0]
            if (first in (2, 3)) != bool(kw.get("compress", False)):
                viol("export/compress-flag-not-honoured", "point starts with %02x" % first)
    if pw and exp.get("top") in ("epki",) and info is not None and not protected:
        viol("export/passphrase-given-but-output-in-clear", "no encryption layer found by the independent reader")
    # ---- (1) import with the right passphrase ---------------------------------------------
    res = "ok"
    try:
        back = _import(t, kd, blob, pw, container)
    except Exception as e:  # noqa
        viol("roundtrip/import-raises-%s@%s" % (type(e).__name__, exc_site(e)),
             "import of the exported key with the same passphrase raised %s: %s" % (type(e).__name__, e))
        back = None
        res = "import-exc"
    if back is not None:
        try:
            got = KS.lib_comps(back)
        except Exception as e:  # noqa
            got = ("?", repr(e))
        want = KS.expected_comps(kd, exp["as_private"])
        if got != want:
            d = KS.diff_comps(got, want) if got[0] == want[0] else ["type"]
            viol("roundtrip/components-differ/%s" % (d or ["?"])[0],
                 "import(export(key)) has other components: %s differ" % ",".join(d))
            res = "rt-differs"
        else:
            acc.count("roundtrip_ok")
            if info is not None and info.get("enc"):
                e_ = info["enc"]
                acc.seen("prot_ok", (t, e_["kdf"], e_["hash"], e_["cipher"]))
                if deep:
                    acc.seen("pp_ok", (e_["kdf"], e_["count"], len(e_["salt"]), e_.get("r"), e_.get("p")))
                    acc.seen("pwlen_ok", (e_["kdf"], e_["hash"], len(R.pw_bytes(pw))))
                    if e_["cipher"].endswith("CBC") and e_.get("ptlen") is not None:
                        bs_ = 8 if e_["cipher"].startswith("DES") else 16
                        acc.seen("cbc_pad", ("pbes2", bs_, e_["ptlen"] % bs_))
            elif deep and peminfo["encrypted"]:
                acc.seen("pwlen_ok", ("legacy-pem", None, len(R.pw_bytes(pw))))
                acc.seen("cbc_pad", ("legacy-pem", 8, len(der) % 8))
            # ---- (1b) the other documented input type of a textual artefact ---------------------------
            if deep and container in ("pem", "openssh"):
                alt_blob = text.decode("ascii") if isinstance(blob, (bytes, bytearray)) else text
                alt_t = type(alt_blob).__name__
                acc.count("evaluations")
                acc.count("alt_type_imports")
                try:
                    got2 = KS.lib_comps(_import(t, kd, alt_blob, pw, container))
                except Exception as e:  # noqa
                    viol("roundtrip/as-%s/import-raises-%s@%s" % (alt_t, type(e).__name__, exc_site(e)),
                         "import of the exported text handed over as %s raised %s: %s" % (alt_t, type(e).__name__, e))
                else:
                    if got2 != want:
                        viol("roundtrip/as-%s/components-differ/%s" % (alt_t, ((KS.diff_comps(got2, want) if got2[0] == want[0] else ["type"]) or ["?"])[0]),
                             "import of the exported text handed over as %s has other components" % alt_t)
                    else:
                        acc.count("alt_type_ok")
                        acc.seen("alt_type", (t, container, alt_t))
    # ---- (2) wrong passphrases ----------------------------------------------------------------
    if protected and pw:
        for wp in wrong_passphrases(pw, deep) + (None,):
            acc.count("evaluations")
            acc.count("wrong_pw_attempts")
            if gcm:
                acc.count("wrong_pw_attempts_gcm")
            try:
                k2 = _import(t, kd, blob, wp, container)
            except DOC_EXC[t]:
                acc.count("wrong_pw_refused")
                if gcm:
                    acc.count("wrong_pw_refused_gcm")
                if wp is None:
                    acc.count("no_pw_refused")
                continue
            except Exception as e:  # noqa
                viol("wrong-passphrase/raises-%s@%s" % (type(e).__name__, exc_site(e)),
                     "import with %s raised %s: %s (documented: %s)" % ("no passphrase" if wp is None else "the passphrase " + short(wp),
                                                                         type(e).__name__, e, "/".join(c.__name__ for c in DOC_EXC[t])), script=False)
                continue
            try:
                same = KS.lib_comps(k2) == KS.expected_comps(kd, exp["as_private"])
            except Exception:  # noqa
                same = False
            if same:
                viol("wrong-passphrase/accepted", "import with %s returned the original key"
                     % ("no passphrase" if wp is None else "the wrong passphrase " + short(wp)), script=False)
            elif gcm or wp is None:
                viol("wrong-passphrase/accepted-other-key", "import with %s returned a key"
                     % ("no passphrase" if wp is None else "the wrong passphrase " + short(wp)), script=False)
            else:
                acc.observe("a wrong passphrase survived the CBC padding check and decoded to another key (probability 2^-8..2^-16 event)")
    acc.seen("classes", tuple(cls + [res]))
    if info is not None and res == "ok":
        _LAST[0] = {"part": "rt", "key": KS.kd_id(kd, priv), "export_key": {k: (short(v, 20) if isinstance(v, (bytes, bytearray)) else v) for k, v in kw.items()},
                    "output": short(text, 56), "independent_reader": {"structures": "/".join(info["chain"]), "pem_encrypted": peminfo["encrypted"],
                                                                      "pbes2": ({k: (short(v) if isinstance(v, bytes) else v) for k, v in info["enc"].items() if k not in ("notes", "ptlen")}
                                                                                if info.get("enc") else None)},
                    "import_same_passphrase": "same components", "wrong_passphrases": "refused" if protected and pw else "n/a"}
    return res


_LAST = [None]
SAMPLE_FROM = {("rsa1024-e65537", True, 48), ("dsa1024-xsmall-y00", False, 0), ("p521-y00", True, 24), ("ed448-y00-xodd", True, 48),
               ("curve25519-unclamped", False, 0)}


def rt_worker(shard):
    install_seams()
    acc = Acc()
    name, priv, level, lo, hi, kidx = shard[:6]
    deep = len(shard) > 6 and bool(shard[6])
    kd = _KEYS[name]
    cfgs = cfgs_for(kd, priv, level)
    _LAST[0] = None
    for i in range(lo, min(hi, len(cfgs))):
        kw = cfgs[i]
        tape = "%d|%s|%s|%d" % (SEED, name, "priv" if priv else "pub", i)
        rt_case(kd, priv, kw, tape, acc, size=(2 * kidx + (0 if priv else 1)) * 2000 + i, deep=deep)
    if (name, priv, lo) in SAMPLE_FROM and _LAST[0]:
        acc.sample(_LAST[0])
    if priv and lo == 0 and kd["t"] in ("RSA", "ECC"):
        pp_reuse_case(kd, acc)
    return acc


# ---------------------------------------------------------------------------
# part eq
# ---------------------------------------------------------------------------
def eq_objects(keys, quick):
    """ordered list of object descriptors {"kd", "priv", "variant"}; variant:
       a   built from the components;  b  built again (a distinct object);  pk  key.public_key();
       imp import_key(export_key('DER'));  swap  RSA with p and q exchanged (same n, e, d; 'either')"""
    out = []
    firsts = set()
    for kd in keys.values():
        fam = (kd["t"], kd.get("curve"))
        first = fam not in firsts
        firsts.add(fam)
        out.append({"kd": kd, "priv": True, "variant": "a"})
        out.append({"kd": kd, "priv": False, "variant": "a"})
        if first or not quick:
            out.append({"kd": kd, "priv": True, "variant": "b"})
            out.append({"kd": kd, "priv": False, "variant": "pk"})
            out.append({"kd": kd, "priv": True, "variant": "imp"})
    # near misses
    r = keys["rsa1024-e65537"]
    lam = KS.nt.lcm(r["p"] - 1, r["q"] - 1)
    out.append({"kd": dict(r, name="rsa1024-e65537-d+lcm", d=r["d"] + lam), "priv": True, "variant": "a"})
    out.append({"kd": dict(r, name="rsa1024-e65537-pubexp-65539", e=65539), "priv": False, "variant": "a"})
    out.append({"kd": r, "priv": True, "variant": "swap"})
    for c in ("p256", "p521"):
        k = keys[c + "-x00"]
        cv = R.EC.CURVES[c]
        out.append({"kd": dict(k, name=c + "-x00-negated", d=cv.order - k["d"], Q=[k["Q"][0], cv.p - k["Q"][1]]), "priv": True, "variant": "a"})
        out.append({"kd": dict(k, name=c + "-x00-negated", d=cv.order - k["d"], Q=[k["Q"][0], cv.p - k["Q"][1]]), "priv": False, "variant": "a"})
    # RFC 7748 public keys received in a NON-canonical encoding (u + p still fits the encoding): the key is the point u; it must be
    # equal to the key built from u, to its own re-import, and unequal to its neighbours
    for c, top in (("curve25519", 19), ("curve448", 4)):
        for u in ((2, 3, 9, 18) if c == "curve25519" else (3, 5)):
            kdu = {"t": "ECC", "name": "%s-u%d" % (c, u), "curve": c, "d": None, "seed": None, "Q": [u, None]}
            out.append({"kd": kdu, "priv": False, "variant": "a"})
            out.append({"kd": kdu, "priv": False, "variant": "noncanon"})
    for kd in KS.elgamal_keys():
        out.append({"kd": kd, "priv": True, "variant": "a"})
        out.append({"kd": kd, "priv": False, "variant": "a"})
        out.append({"kd": kd, "priv": True, "variant": "b"})
    # the Edwards point with the other sign of x (public only): same y, encodings differ in one bit
    for c in KS.EDW:
        k = keys[c + "-seeded"]
        out.append({"kd": dict(k, name=c + "-seeded-xnegated", d=None, seed=None, Q=[R.EC.CURVES[c].p - k["Q"][0], k["Q"][1]]),
                    "priv": False, "variant": "a"})
    if not quick:
        # thorough: more near misses.  The negated point on the other Weierstrass curves; the Edwards point with the other
        # sign of x (public only); a DSA key with the same p, q, y but the generator g^2 (and x/2): only g and x differ
        for c in ("p192", "p224", "p384"):
            k = keys[c + "-x00"]
            cv = R.EC.CURVES[c]
            for pr in (True, False):
                out.append({"kd": dict(k, name=c + "-x00-negated", d=cv.order - k["d"], Q=[k["Q"][0], cv.p - k["Q"][1]]), "priv": pr, "variant": "a"})
        for nm in ("dsa1024-160", "dsa2048-256"):
            k = keys[nm]
            out.append({"kd": dict(k, name=nm + "-gsquared", g=k["g"] * k["g"] % k["p"], x=k["x"] * KS.nt.inverse(2, k["q"]) % k["q"]),
                        "priv": True, "variant": "a"})
            out.append({"kd": dict(k, name=nm + "-gsquared", g=k["g"] * k["g"] % k["p"], x=k["x"] * KS.nt.inverse(2, k["q"]) % k["q"]),
                        "priv": False, "variant": "a"})
    return out


def eq_build(o):
    kd, priv, v = o["kd"], o["priv"], o["variant"]
    if v in ("a", "b"):
        return KS.libkey(kd, priv, fresh=True)
    if v == "pk":
        k = KS.libkey(kd, True, fresh=True)
        return k.publickey() if kd["t"] == "ElGamal" else k.public_key()
    if v == "imp":
        k = KS.libkey(kd, True, fresh=True)
        blob = k.export_key(format="DER")
        mod = __import__("Crypto.PublicKey." + kd["t"], fromlist=["import_key"])
        return mod.import_key(blob)
    if v == "noncanon":
        from Crypto.Protocol import DH
        cv = R.EC.CURVES[kd["curve"]]
        raw = (kd["Q"][0] + cv.p).to_bytes(cv.size_bytes, "little")
        return (DH.import_x25519_public_key if kd["curve"] == "curve25519" else DH.import_x448_public_key)(raw)
    if v == "swap":
        from Crypto.PublicKey import RSA
        return RSA.construct((kd["n"], kd["e"], kd["d"], kd["q"], kd["p"]))
    raise ValueError(v)


def eq_expected(a, b):
    """True / False / None (not decided by the property text)"""
    ca = KS.expected_comps(a["kd"], a["priv"])
    cb = KS.expected_comps(b["kd"], b["priv"])
    if "swap" in (a["variant"], b["variant"]) and ca[:5] == cb[:5] and a["variant"] != b["variant"]:
        return None                      # same n, e, d but p and q exchanged (hence another u)
    if ca != cb and ca[0] == "ECC" and ca[:5] == cb[:5] and ca[1] and ca[2] in KS.MONT:
        return None                      # RFC 7748 private keys whose octets differ only in bits that clamping overwrites: the same
                                         # scalar and the same public value; whether the stored octets are a "component" is not decided
    return ca == cb


def _odesc(o):
    return "%s[%s]" % (KS.kd_id(o["kd"], o["priv"]), o["variant"])


_EQ_SCRIPT = '''# stand-alone reproduction (needs only pycryptodome)
from Crypto.PublicKey import RSA, DSA, ECC, ElGamal
a = %s
b = %s
print("a == b:", a == b)      # the components %s
print("a != b:", a != b)
'''


def _mk_src(o):
    kd, priv = o["kd"], o["priv"]
    t = kd["t"]
    if t == "RSA":
        s = "RSA.construct((%d, %d, %d, %d, %d))" % (kd["n"], kd["e"], kd["d"], kd["p"], kd["q"]) if priv else \
            "RSA.construct((%d, %d))" % (kd["n"], kd["e"])
    elif t == "DSA":
        s = "DSA.construct((%d, %d, %d, %d%s))" % (kd["y"], kd["g"], kd["p"], kd["q"], ", %d" % kd["x"] if priv else "")
    elif t == "ElGamal":
        s = "ElGamal.construct((%d, %d, %d%s))" % (kd["p"], kd["g"], kd["y"], ", %d" % kd["x"] if priv else "")
    elif kd.get("d") is None and kd.get("seed") is None and kd["Q"][1] is None:
        s = "ECC.construct(curve=%r, point_x=%d)" % (kd["curve"], kd["Q"][0])
        if o.get("variant") == "noncanon":
            cv = R.EC.CURVES[kd["curve"]]
            s = "__import__('Crypto.Protocol.DH', fromlist=['x']).import_x%s_public_key(bytes.fromhex('%s'))  # RFC 7748 octets of u + p" \
                % ("25519" if kd["curve"] == "curve25519" else "448", (kd["Q"][0] + cv.p).to_bytes(cv.size_bytes, "little").hex())
    elif kd.get("d") is None and kd.get("seed") is None:
        s = "ECC.construct(curve=%r, point_x=%d, point_y=%d)" % (kd["curve"], kd["Q"][0], kd["Q"][1])
    else:
        s = ("ECC.construct(curve=%r, d=%d)" % (kd["curve"], kd["d"]) if kd.get("d") is not None else
             "ECC.construct(curve=%r, seed=bytes.fromhex(%r))" % (kd["curve"], bytes(kd["seed"]).hex())) + ("" if priv else ".public_key()")
    return s


def eq_pair(oa, ob, ka, kb, acc, size=None):
    """a == b and a != b for one ordered pair of built objects"""
    ta, tb = type(ka).__name__, type(kb).__name__
    same_type = ta == tb
    exp = eq_expected(oa, ob) if same_type else False
    case = {"part": "eq", "a": oa, "b": ob}
    rel = "cross-type" if not same_type else ("same" if exp else ("either" if exp is None else
                                                                  ("privacy" if oa["kd"]["name"] == ob["kd"]["name"] else "different")))
    desc = "%s vs %s" % (_odesc(oa), _odesc(ob))
    script = _EQ_SCRIPT % (_mk_src(oa), _mk_src(ob), "are the same" if exp else "differ") if "swap" not in (oa["variant"], ob["variant"]) else None
    results = []
    for op in ("==", "!="):
        acc.count("evaluations")
        try:
            r = (ka == kb) if op == "==" else (ka != kb)
        except Exception as e:  # noqa
            results.append(type(e).__name__)
            if same_type:
                acc.violation("C08/eq/%s/raises-%s@%s" % (ta, type(e).__name__, exc_site(e)),
                              "%s: a %s b raised %s: %s (comparing two keys of the same type must not raise)"
                              % (desc, op, type(e).__name__, e), case, script=script, size=size)
            else:
                # "equality holds exactly when two keys have the same type, ...": for keys of two types it does not hold, i.e. it is False
                acc.violation("C08/eq/cross-type/raises-%s@%s" % (type(e).__name__, exc_site(e)),
                              "%s: a %s b (a %s and a %s) raised %s: %s; keys of different types are unequal, the comparison must answer"
                              % (desc, op, ta, tb, type(e).__name__, e), case, script=script, size=size)
            continue
        if r is NotImplemented or not isinstance(r, (bool, int)):
            acc.observe("%s %s %s returns a %s" % (ta, op, tb, type(r).__name__))
        results.append(bool(r))
    acc.seen("classes", ("eq", ta, tb, rel, tuple(results)))
    acc.count("eq_pairs_expected_%s" % ("equal" if exp else "either" if exp is None else "unequal"))
    if len(results) == 2 and all(isinstance(x, bool) for x in results):
        eqv, nev = results
        acc.count("eq_true" if eqv else "eq_false")
        if nev == eqv:
            acc.violation("C08/eq/%s/ne-is-not-the-negation-of-eq" % ta, "%s: a == b is %s and a != b is %s" % (desc, eqv, nev),
                          case, script=script, size=size)
        if exp is None and ta == "EccKey":
            acc.observe("X25519/X448 private keys whose stored octets differ only in bits that clamping overwrites (same scalar, same public "
                        "value, different export) compare %s" % ("equal" if eqv else "unequal"))
        elif exp is None:
            acc.observe("RSA keys with the same n, e, d but p and q exchanged (other u) compare %s" % ("equal" if eqv else "unequal"))
        elif eqv != exp:
            if not same_type:
                sub = "cross-type/%s-equals-%s" % (ta, tb)
            elif exp:
                sub = "%s/same-components-compare-unequal" % ta
            elif rel == "privacy":
                sub = "%s/private-equals-public" % ta
            else:
                sub = "%s/different-keys-compare-equal" % ta
            acc.violation("C08/eq/" + sub, "%s: a == b is %s but the components %s%s" % (
                desc, eqv, "are the same" if exp else "differ",
                "" if exp or not same_type else " (%s)" % ",".join(KS.diff_comps(KS.expected_comps(oa["kd"], oa["priv"]),
                                                                                 KS.expected_comps(ob["kd"], ob["priv"])))),
                case, script=script, size=size)
    return results


_EQ = None


def eq_build_all(objs, acc):
    built = []
    for o in objs:
        derived = o["variant"] in ("pk", "imp", "swap", "noncanon")       # produced by a library operation other than construct
        try:
            k = eq_build(o)
            if o["variant"] != "swap" and KS.lib_comps(k) != KS.expected_comps(o["kd"], o["priv"]):
                if not derived:
                    acc.error("equality object %s does not have the intended components" % _odesc(o))
                else:
                    acc.observe("equality object of variant %s does not have the components of its source key (judged in part rt); skipped" % o["variant"])
                k = None
            built.append(k)
        except Exception as e:  # noqa
            if not derived:
                acc.error("cannot build equality object %s: %r" % (_odesc(o), e))
            else:
                acc.observe("equality object of variant %s cannot be built (%s; judged in part rt); skipped" % (o["variant"], type(e).__name__))
            built.append(None)
    return built


def eq_worker(rows):
    """rows of the matrix; the objects were built once in the parent (inherited through fork)"""
    acc = Acc()
    objs, built = _EQ
    n = len(objs)
    for i in rows:
        for j in range(n):
            if built[i] is None or built[j] is None:
                acc.count("eq_pairs_skipped")
                continue
            eq_pair(objs[i], objs[j], built[i], built[j], acc, size=i * n + j)
        if built[i] is None:
            continue
        # a non-key operand: observation only
        for other in (None, 5, b"x"):
            for op in ("==", "!="):
                try:
                    (built[i] == other) if op == "==" else (built[i] != other)
                except Exception as e:  # noqa
                    acc.observe("%s %s %s raises %s" % (type(built[i]).__name__, op, type(other).__name__, type(e).__name__))
    if rows and rows[0] == 0:
        acc.sample({"part": "eq", "rows": [_odesc(objs[i]) for i in rows][:4], "columns": n,
                    "row_0": {_odesc(objs[j]): [bool(built[0] == built[j]), bool(built[0] != built[j])] for j in range(0, 6) if built[j] is not None}})
    return acc


# ---------------------------------------------------------------------------
_KEYS = None


def est_cost_ms(kd, priv, kw):
    """rough cost of one configuration (shard balancing of the thorough tier only; no verdict depends on it)"""
    t = kd["t"]
    if t == "RSA":
        base = 2 + 10 * (kd["n"].bit_length() / 1024.0) ** 2
    elif t == "DSA":
        base = 20 + 21 * (kd["p"].bit_length() / 1024.0) ** 2
    else:
        base = 2
    if not priv:
        return base
    pw, prot, pp = kw.get("passphrase"), kw.get("protection"), kw.get("prot_params") or {}
    epki = pw and (prot or (t == "DSA" and kw.get("pkcs8") is not False) or (t == "RSA" and kw.get("pkcs") == 8 and kw.get("format") == "DER"))
    if not epki:
        return 2 * base
    prot = prot or DEFAULT_PROT
    if prot.startswith("scrypt"):
        kdf = 0.00035 * pp.get("iteration_count", 16384) * pp.get("block_size", 8) * pp.get("parallelization", 1)
    else:
        kdf = 0.025 * pp.get("iteration_count", 1000)         # PBES2 hands PBKDF2 a hash object: the generic HMAC loop for every PRF
    return 3 * base + 7 * kdf


def balanced_shards(name, kd, priv, level, kidx, target_ms=2500.0):
    """consecutive index ranges of the configuration list with comparable estimated cost -> [(cost, shard)]"""
    cfgs = cfgs_for(kd, priv, level)
    out, lo, acc_ms = [], 0, 0.0
    for i, kw in enumerate(cfgs):
        acc_ms += est_cost_ms(kd, priv, kw)
        if acc_ms >= target_ms or i - lo + 1 >= 96:
            out.append((acc_ms, (name, priv, level, lo, i + 1, kidx, True)))
            lo, acc_ms = i + 1, 0.0
    if lo < len(cfgs):
        out.append((acc_ms, (name, priv, level, lo, len(cfgs), kidx, True)))
    return out


def run(ctx):
    import time
    global _KEYS, _EQ
    q = ctx.quick
    a = ctx.acc
    for nm, fn in (("c08_ref", R.selftest), ("der", R.D.selftest), ("ec", R.EC.selftest)):
        try:
            fn()
        except Exception as ex:  # noqa
            a.error("reference self-test failed (%s): %r" % (nm, ex))
            return
    err = install_seams()
    if err:
        a.error("harness cannot reach seam: " + err)
        return
    for h in HASHES:
        if hashlib.new(R.HASHLIB[h]).block_size != HMAC_BLOCK[h]:
            a.error("harness: HMAC block size table is wrong for %s" % h)
            return
    t0 = time.time()
    _KEYS = KS.build_keys(a, q, ctx.pmap)
    if a.errors:
        return
    phases = {"keys": round(time.time() - t0, 1)}
    ctx.coverage_extra["phase_wall_s"] = phases
    # ---- rt ----------------------------------------------------------------------------
    primary = {"rsa1024-e65537", "dsa1024-160", "p256-x00", "ed25519-y00-xodd", "curve25519-u00"}
    if not q:
        primary |= {"rsa1025-e3", "dsa2048-224", "p521-y00", "ed448-y00-xodd", "curve448-u00"}
        primary |= {"rsa4096-e3", "rsa-pkcs1len127", "p192-d1"}          # the largest and the smallest private-key blobs
    shards = []
    weighted = []
    nconf = {}
    for kidx, (name, kd) in enumerate(_KEYS.items()):
        for priv in (True, False):
            level = ("full" if name in primary else "cover") if q else ("full++" if name in primary else "full+")
            if q and kd["t"] == "DSA":
                level = "full-der" if name in primary else ("mini" if kd["p"].bit_length() > 1024 else "cover")
            n = len(cfgs_for(kd, priv, level))
            nconf[(kd["t"], priv, level)] = n
            if q:
                step = 12 if kd["t"] == "DSA" else 24
                for lo in range(0, n, step):
                    shards.append((name, priv, level, lo, lo + step, kidx))
            else:
                weighted += balanced_shards(name, kd, priv, level, kidx)
    # heavy shards first
    if q:
        shards.sort(key=lambda s: (0 if _KEYS[s[0]]["t"] == "DSA" else 1))
    else:
        weighted.sort(key=lambda w: -w[0])
        shards = [w[1] for w in weighted]
        ctx.coverage_extra["rt_shards"] = {"count": len(shards), "estimated_cost_s_max": round(weighted[0][0] / 1000.0, 1),
                                           "estimated_cost_s_total": round(sum(w[0] for w in weighted) / 1000.0)}
    t0 = time.time()
    ctx.pmap(rt_worker, shards)
    phases["rt"] = round(time.time() - t0, 1)
    # ---- eq ----------------------------------------------------------------------------
    t0 = time.time()
    objs = eq_objects(_KEYS, q)
    nrows = len(objs)
    _EQ = (objs, eq_build_all(objs, a))
    ctx.pmap(eq_worker, [list(range(i, nrows, 32)) for i in range(32)])
    phases["eq"] = round(time.time() - t0, 1)

    # ---- vacuity guards / evidence -------------------------------------------------------
    n = a.n
    d = a.distinct
    cl = d.get("classes", set())
    ctx.require(n.get("artefacts", 0) >= (4000 if q else 12000), "too few exported artefacts (%d)" % n.get("artefacts", 0))
    ctx.require(n.get("refused_documented", 0) >= 100, "documented refusals observed: %d" % n.get("refused_documented", 0))
    ctx.require(n.get("wrong_pw_attempts", 0) >= 9000 and n.get("wrong_pw_attempts_gcm", 0) >= 3000,
                "wrong-passphrase attempts: %d (GCM %d)" % (n.get("wrong_pw_attempts", 0), n.get("wrong_pw_attempts_gcm", 0)))
    want_prot = {(t, "pbkdf2", h, c) for t in ("RSA", "DSA", "ECC") for h in HASHES for c in CIPHERS} | \
                {(t, "scrypt", None, c) for t in ("RSA", "DSA", "ECC") for c in CIPHERS}
    missing = want_prot - d.get("prot_ok", set())
    ctx.require(want_prot <= d.get("prot_req", set()), "protections never requested: %s" % sorted(want_prot - d.get("prot_req", set()), key=str)[:4])
    st = d.get("structures_expected", set())
    for need in (("RSA", "pkcs1"), ("RSA", "pkcs8"), ("RSA", "epki"), ("RSA", "spki"), ("RSA", "openssh"), ("DSA", "dsa-openssl"),
                 ("DSA", "pkcs8"), ("DSA", "epki"), ("DSA", "spki"), ("DSA", "openssh"), ("ECC", "ecpriv"), ("ECC", "pkcs8"),
                 ("ECC", "epki"), ("ECC", "spki"), ("ECC", "sec1"), ("ECC", "raw"), ("ECC", "openssh")):
        ctx.require(need in st, "structure %s/%s never requested" % need)
    ish = d.get("intshape", set())
    for c in KS.WEIER:
        for f in ("x", "y", "d"):
            ctx.require((c, f, "fixed-lead00") in ish and (c, f, "fixed-topbit") in ish,
                        "curve %s: %s never seen with both a leading 00 octet and the top bit set" % (c, f))
    for c in KS.EDW:
        ctx.require((c, "y", "fixed-lead00") in ish and (c, "x-sign", 1) in ish and (c, "x-sign", 0) in ish, "curve %s: y/x-sign shapes" % c)
    for c in KS.MONT:
        ctx.require((c, "u", "fixed-lead00") in ish, "curve %s: u with a leading zero octet" % c)
    for t_, fields in (("RSA", ("n", "d", "mpint-n")), ("DSA", ("y", "x", "mpint-y"))):
        for f in fields:
            ctx.require((t_, f, "der-sign-octet") in ish and (t_, f, "der-plain") in ish,
                        "%s %s never seen both with and without a sign octet" % (t_, f))
    pref = d.get("sec1_prefix", set())
    ctx.require(all((c, b) in pref for c in KS.WEIER for b in (2, 3, 4)), "SEC1 prefixes 02/03/04 not all seen on every curve")
    ctx.require(n.get("eq_pairs_expected_equal", 0) >= nrows and n.get("eq_pairs_expected_unequal", 0) >= nrows * 10
                and n.get("eq_pairs_expected_either", 0) >= 2,
                "equality matrix expectations: %d equal, %d unequal" % (n.get("eq_pairs_expected_equal", 0), n.get("eq_pairs_expected_unequal", 0)))
    ctx.require(n.get("eq_pairs_expected_equal", 0) + n.get("eq_pairs_expected_unequal", 0) + n.get("eq_pairs_expected_either", 0)
                + n.get("eq_pairs_skipped", 0) == nrows * nrows, "equality matrix incomplete")
    rels = {c[3] for c in cl if c[0] == "eq"}
    ctx.require({"same", "different", "privacy", "cross-type", "either"} <= rels, "equality relations seen: %s" % sorted(rels))
    ctx.require(len(cl) >= 300, "fewer than 300 behaviour classes observed (%d)" % len(cl))
    if not q:
        # the dimensions only the thorough tier has
        ctx.require(n.get("artefacts", 0) >= 60000 and n.get("wrong_pw_attempts", 0) >= 250000,
                    "thorough: %d artefacts, %d wrong-passphrase attempts" % (n.get("artefacts", 0), n.get("wrong_pw_attempts", 0)))
        lf = d.get("lenform", set())
        for need in (("RSA", "pkcs1", "short"), ("RSA", "pkcs1", "0x81"), ("RSA", "pkcs1", "0x82"), ("RSA", "spki", "short"), ("RSA", "spki", "0x81"),
                     ("RSA", "spki", "0x82"), ("DSA", "spki", "0x81"), ("DSA", "spki", "0x82"), ("ECC", "spki", "short"), ("ECC", "spki", "0x81"),
                     ("ECC", "ecpriv", "short"), ("ECC", "ecpriv", "0x81"), ("RSA", "epki", "0x81"), ("RSA", "epki", "0x82")):
            ctx.require(need in lf, "outermost length form %s/%s/%s never produced" % need)
        ctx.require(d.get("pkcs1_boundary", set()) == {127, 128, 255, 256},
                    "RSAPrivateKey contents of exactly 127, 128, 255, 256 octets: saw %s" % sorted(d.get("pkcs1_boundary", ())))
        ps = d.get("pem_shape", set())
        ctx.require({x[0] for x in ps} == {0, 1, 2} and any(x[1] for x in ps), "PEM bodies: DER length mod 3 classes / a full last line not all seen")
        at = d.get("alt_type", set())
        for t_ in ("RSA", "DSA", "ECC"):
            ctx.require(any(x[0] == t_ and x[1] == "pem" for x in at) and any(x[0] == t_ and x[1] == "openssh" for x in at),
                        "%s: PEM / OpenSSH text never imported from the other input type" % t_)
        ctx.require(n.get("alt_type_ok", 0) >= 15000, "imports from the other input type: %d" % n.get("alt_type_ok", 0))
        ppo = d.get("pp_ok", set())
        want_pp = {("pbkdf2", c_, 8, None, None) for c_ in SWEEP_COUNTS + (1, 2, 1000)} | \
                  {("pbkdf2", 2, s_, None, None) for s_ in SWEEP_SALTS + (8, 16)} | {("scrypt", 2, s_, 8, 1) for s_ in SWEEP_SALTS + (8,)} | \
                  {("scrypt", n_, 8, r_, p_) for n_ in SWEEP_SCRYPT_N for r_ in SWEEP_SCRYPT_R for p_ in SWEEP_SCRYPT_P} | \
                  {("scrypt", n_, 8, r_, 1) for n_, r_ in SWEEP_SCRYPT_BIGN} | {("scrypt", 16384, 8, 8, 1), ("scrypt", 4, 16, 1, 2)}
        ctx.require(want_pp <= ppo, "prot_params values never round-tripped: %s" % sorted(want_pp - ppo, key=str)[:4])
        pwl = d.get("pwlen_ok", set())
        want_pwl = {("pbkdf2", h, HMAC_BLOCK[h] + k_) for h in HASHES for k_ in (-1, 0, 1)} | {("scrypt", None, 64 + k_) for k_ in (-1, 0, 1)} | \
                   {("legacy-pem", None, l_) for l_ in LEGACY_PWLENS}
        ctx.require(want_pwl <= pwl, "passphrase lengths never round-tripped: %s" % sorted(want_pwl - pwl, key=str)[:4])
        cp = d.get("cbc_pad", set())
        for kind, bs_, need_n in (("pbes2", 16, 12), ("pbes2", 8, 8), ("legacy-pem", 8, 8)):
            got_r = {x[2] for x in cp if x[:2] == (kind, bs_)}
            ctx.require(0 in got_r and len(got_r) >= need_n, "CBC plaintext lengths mod %d (%s): only residues %s seen" % (bs_, kind, sorted(got_r)))
        for nm in ("dsa2048-256", "dsa1015-160", "dsa1016-160", "rsa4096-e3", "rsa3072-e65537", "p521-dmax", "ed448-seedff", "curve25519-seed00"):
            ctx.require(nm in _KEYS, "key %s missing from the thorough key set" % nm)
    ctx.coverage_extra.update({
        "evaluations": n.get("evaluations", 0),
        "distinct_nontrivial": len(cl),
        "exhaustive": not a.caps,
        "keys": {nm: ("%s %s" % (kd["t"], kd.get("curve") or (kd.get("n") or kd.get("p")).bit_length())) for nm, kd in _KEYS.items()},
        "grid": {
            "protections": "%d = 11 PBKDF2 PRFs x 7 ciphers + scrypt x 7 ciphers" % len(PROTS),
            "cover_list": "%d protections (every PRF, every cipher, scrypt x every cipher)" % len(COVER),
            "configurations_per_key": {"%s %s [%s]" % (k[0], "private" if k[1] else "public", k[2]): v for k, v in sorted(nconf.items(), key=str)},
            "levels": ("quick: full product (84 protections x 2 prot_params x DER/PEM) on %s (DSA: 84 protections x DER, cover list x PEM), "
                       "cover list on the other keys (4 protections on the 2048/3072-bit DSA keys)" % ", ".join(sorted(primary))) if q else
                      ("thorough: on EVERY key (%d keys, all RSA sizes up to 4096 included) the full product 84 protections x 3 prot_params "
                       "variants (third: 16-byte salt; scrypt N=4, r=1, p=2) x DER/PEM (DSA: DsaKey.export_key has no prot_params, 84 protections "
                       "x DER/PEM with the defaults), all 5 other passphrases x all 84 protections (DSA: x the 77 PBKDF2 protections + 1 scrypt), "
                       "the passphrase-length grid, the legacy-PEM passphrase-length grid and (ECC) compress x use_pkcs8 x format x passphrase?; "
                       "on %s (RSA/ECC) in addition the prot_params sweeps and the documented defaults (no prot_params) for all 84 protections "
                       "x DER/PEM" % (len(_KEYS), ", ".join(sorted(primary)))),
            "passphrases": [short(p, 20) if not isinstance(p, str) else p for p in PWS],
            "wrong_passphrases": "passphrase + 'x', passphrase without its last octet, none" +
                                 ("" if q else ", lowest bit of the first octet flipped, top bit of the last octet flipped"),
            "equality_objects": nrows, "equality_pairs": nrows * nrows,
        },
        "thorough_only_dimensions": {
            "keys_added": "RSA: RSAPrivateKey contents of exactly %s octets (searched), moduli of 2039/2040 bits (255 | 256 content octets), 3072 and "
                          "4096 bits; DSA: searched domains (L, N, top octet of p) %s; ECC: d = 1 and d = order-1 on the five Weierstrass curves, "
                          "all-00 and all-ff seeds on Ed25519/Ed448/Curve25519/Curve448" % (list(KS.RSA_SEQLEN_DEEP), [list(x) for x in KS.DSA_DOMAINS_DEEP]),
            "passphrase_lengths": "B-1, B, B+1 octets around the HMAC block size B of each of the 11 PBKDF2 PRFs and of scrypt (PBKDF2-HMAC-SHA256) "
                                  "x ciphers %s: %d configurations per private key; legacy PEM encryption (MD5 based) with passphrases of %s octets"
                                  % (list(PWLEN_CIPHERS), len(pwlen_cfgs({}, "full+")), list(LEGACY_PWLENS)),
            "prot_params_sweeps": {"pbkdf2_iteration_count": {"values": list(SWEEP_COUNTS), "protections": list(SWEEP_PBKDF2_BIG),
                                                                "values_up_to_256_only": list(SWEEP_COUNTS_SMALL),
                                                                "protections_for_values_up_to_256": list(SWEEP_PBKDF2_SMALL)},
                                   "salt_size": {"values": list(SWEEP_SALTS), "protections": list(SWEEP_PBKDF2_BIG + SWEEP_PBKDF2_SMALL + SWEEP_SCRYPT)},
                                   "scrypt": {"N": list(SWEEP_SCRYPT_N), "r": list(SWEEP_SCRYPT_R), "p": list(SWEEP_SCRYPT_P), "product": "complete",
                                              "big_N_r": [list(x) for x in SWEEP_SCRYPT_BIGN], "protections": list(SWEEP_SCRYPT)},
                                   "defaults": "no prot_params: all 84 protections x DER/PEM; the written parameters must be the documented defaults",
                                   "configurations_per_primary_private_key": len(sweep_cfgs({}))},
            "import_input_types": "every PEM / OpenSSH artefact is imported a second time from the other documented input type (str <-> bytes): "
                                  "%d imports, %d with the same components" % (n.get("alt_type_imports", 0), n.get("alt_type_ok", 0)),
            "outermost_length_forms_seen": sorted("%s/%s/%s" % x for x in d.get("lenform", ())),
            "pkcs1_boundary_contents_seen": sorted(d.get("pkcs1_boundary", ())),
            "cbc_plaintext_length_residues_seen": {"%s/mod%d" % (k_, b_): sorted(x[2] for x in d.get("cbc_pad", ()) if x[:2] == (k_, b_))
                                                   for k_, b_ in (("pbes2", 16), ("pbes2", 8), ("legacy-pem", 8))},
            "prot_params_tuples_roundtripped": len(d.get("pp_ok", ())),
            "kdf_prf_passphrase_length_triples_roundtripped": len(d.get("pwlen_ok", ())),
            "equality_near_misses_added": "negated point on P-192/P-224/P-384, Edwards point with x negated (public), DSA key with generator g^2 "
                                          "(same p, q, y) on dsa1024-160 and dsa2048-256",
        },
        "verdicts": {k: n.get(k, 0) for k in ("artefacts", "roundtrip_ok", "refused_documented", "refused_unsupported", "unsupported_accepted",
                                              "wrong_pw_attempts", "wrong_pw_refused", "wrong_pw_refused_gcm", "no_pw_refused", "eq_true", "eq_false",
                                              "eq_pairs_expected_equal", "eq_pairs_expected_unequal", "eq_pairs_expected_either")},
        "structures_met_by_independent_reader": sorted("%s/%s" % x for x in d.get("structures", ())),
        "protections_roundtripped": len(d.get("prot_ok", ())),
        "protections_missing_roundtrip": sorted(missing, key=str)[:6],
        "integer_shapes_seen": len(ish),
    })
    if q:
        del ctx.coverage_extra["thorough_only_dimensions"]
    if q:
        ctx.assume("key values: the stored 1024/1025-bit RSA fixtures (thorough: up to 2048), two searched small RSA keys, DSA keys on the "
                   "three stored domains, three keys per curve; other key values are covered only through these shapes")
        ctx.assume("prot_params values: iteration_count 1, 2 (and the default 1000) for PBKDF2, N in {2, 16} (and the default 16384) "
                   "for scrypt, salt_size 8/16, r in {8, 1}, p in {1, 2}")
        ctx.assume("passphrases: six values (2-octet, ASCII text, binary with NUL/0xFF/newline, 150 octets, 1 octet, text with characters "
                   "in U+0080..U+00FF); the independent reader maps text to octets as ISO 8859-1 (the library's documented convention)")
    else:
        ctx.assume("key values: the stored RSA fixtures (1024..2048 bits), searched RSA keys (177..4096 bits, chosen for their leading octets and "
                   "DER lengths), DSA keys on the three stored and six searched domains (512..3072 bits), five keys per curve; other key values "
                   "are covered only through these shapes")
        ctx.assume("prot_params values: the grid values (iteration_count 1, 2, default 1000; scrypt N 2, 4, 16, default 16384; salt 8/16; r 8/1; "
                   "p 1/2) on every key, the sweep values listed under thorough_only_dimensions on the primary keys only; DsaKey.export_key "
                   "has no prot_params, DSA keys always use the defaults")
        ctx.assume("passphrases: six fixed values (2-octet, ASCII text, binary with NUL/0xFF/newline, 150 octets, 1 octet, text with characters "
                   "in U+0080..U+00FF) plus printable passphrases of the boundary lengths listed under thorough_only_dimensions; no passphrase "
                   "ends in a NUL octet (HMAC pads keys with NUL, so such a passphrase and its truncation are the same PBKDF2 key by "
                   "construction); the independent reader maps text to octets as ISO 8859-1 (the library's documented convention)")
    ctx.assume("PBES1 containers, OpenSSH private keys and X.509 certificates are import-only formats (the library cannot export them) "
               "and are outside this check")
    ctx.assume("entropy for salts/IVs comes from deterministic tapes (randfunc=, and the seam Crypto.IO._PBES.Random where "
               "RsaKey.export_key does not forward randfunc); no verdict depends on their values except the 2^-8..2^-16 event "
               "of a wrong passphrase surviving CBC unpadding, which is logged, not judged")
    ctx.assume("AES-GCM inside PBES2 has no RFC: the independent reader accepts the library's own layout (OCTET STRING nonce, "
               "ciphertext || 16-byte tag) and only logs it")


# ---------------------------------------------------------------------------
def replay(case, acc):
    err = install_seams()
    if err:
        acc.error("harness cannot reach seam: " + err)
        return
    part = case["part"]
    if part == "rt":
        kd = case["kd"]
        if kd.get("seed") is not None:
            kd["seed"] = bytes(kd["seed"])
        rt_case(kd, case["priv"], case["kw"], case["tape"], acc, deep=bool(case.get("deep")))
    elif part == "pp-reuse":
        kd = case["kd"]
        if kd.get("seed") is not None:
            kd["seed"] = bytes(kd["seed"])
        pp_reuse_case(kd, acc)
    elif part == "eq":
        oa, ob = case["a"], case["b"]
        for o in (oa, ob):
            if o["kd"].get("seed") is not None:
                o["kd"]["seed"] = bytes(o["kd"]["seed"])
        eq_pair(oa, ob, eq_build(oa), eq_build(ob), acc)
    else:
        acc.error("unknown replay part %r" % part)
